#!/bin/sh
# Run every registered check of one tier sequentially against /repo (or VERIF_REPO) and summarise.
# usage: engine/runall.sh quick|thorough [Cxx ...]
cd "$(dirname "$0")/.." || exit 2
tier=${1:-quick}; shift
props=${*:-"C01 C02 C03 C04 C05 C06 C07 C08 C09 C10 C11 C12 C13 C14 C15 C16 C17 C18 C19 C20"}
mkdir -p build/runall
rc=0
for p in $props; do
  s=$(date +%s)
  bin/check $p --tier $tier > build/runall/$p.$tier.log 2>&1
  e=$?
  [ $e -ne 0 ] && rc=1
  echo "$p $tier exit=$e $(( $(date +%s) - s ))s $(grep -c '^VIOLATION' build/runall/$p.$tier.log) violation(s) $(grep -c '^KNOWN-FINDING' build/runall/$p.$tier.log) known | $(grep "^$p $tier:" build/runall/$p.$tier.log | tail -1 | cut -c1-200)"
done
exit $rc
