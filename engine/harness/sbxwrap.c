/* sbxwrap: libc entry points reached from janet's own objects (via -Wl,--wrap)
 * are classified by sandbox capability. A call of class K made on a thread
 * whose janet_vm.sandbox_flags contains K is logged (C18). With VERIF_SBX_DENY=1
 * destructive classes are answered with EPERM so that sweeps are safe and fast.
 */
#define _GNU_SOURCE
#include <janet.h>
#include "state.h"
#include <stdio.h>
#include <stdlib.h>
#include <string.h>
#include <errno.h>
#include <fcntl.h>
#include <stdarg.h>
#include <signal.h>
#include <spawn.h>
#include <dirent.h>
#include <utime.h>
#include <netdb.h>
#include <sys/stat.h>
#include <sys/types.h>
#include <sys/socket.h>
#include <sys/mman.h>
#include <sys/wait.h>

#define SBX_LOG_MAX 256
typedef struct {
    uint32_t cls;
    const char *name;
    char detail[96];
} SbxEntry;

static SbxEntry sbx_log[SBX_LOG_MAX];
static volatile int sbx_n = 0;          /* entries logged (may exceed MAX: overflow counted) */
static volatile long sbx_calls[16];     /* every intercepted call per class bit index */
static int sbx_deny = 0;
static int sbx_logall = 0;   /* VERIF_SBX_LOGALL=1: log every classified call (baseline sweeps) */
static int sbx_inited = 0;

void verif_sbx_init(void) {
    if (sbx_inited) return;
    sbx_inited = 1;
    const char *e = getenv("VERIF_SBX_DENY");
    sbx_deny = (e && *e == '1');
    e = getenv("VERIF_SBX_LOGALL");
    sbx_logall = (e && *e == '1');
}

static void sbx_init(void) {
    if (!sbx_inited) verif_sbx_init();
}

/* Capabilities that were already disabled in the creating thread when this thread was started:
 * a thread started after sandboxing must not regain them, whatever its own flag word says. */
__thread uint32_t verif_sbx_floor = 0;

static uint32_t sbx_effective(void) {
    return janet_vm.sandbox_flags | verif_sbx_floor;
}

static int bit_index(uint32_t cls) {
    int i = 0;
    while (cls > 1) { cls >>= 1; i++; }
    return i & 15;
}

/* returns 1 if the call is forbidden for this thread (and logs it) */
static int sbx_note(uint32_t cls, const char *name, const char *detail) {
    sbx_init();
    __atomic_add_fetch(&sbx_calls[bit_index(cls)], 1, __ATOMIC_RELAXED);
    if (sbx_logall || (sbx_effective() & cls)) {
        int i = __atomic_fetch_add(&sbx_n, 1, __ATOMIC_SEQ_CST);
        if (i < SBX_LOG_MAX) {
            sbx_log[i].cls = cls;
            sbx_log[i].name = name;
            snprintf(sbx_log[i].detail, sizeof(sbx_log[i].detail), "%s", detail ? detail : "");
        }
        return 1;
    }
    return 0;
}

static int deny(void) {
    errno = EPERM;
    return -1;
}

/* ---- file system ---- */
int __real_open64(const char *path, int flags, ...);
int __real_open(const char *path, int flags, ...);
static int open_common(int is64, const char *path, int flags, mode_t mode) {
    int acc = flags & O_ACCMODE;
    /* O_APPEND on a read-only descriptor writes nothing; a truncating open cannot read pre-existing data */
    int writes = (acc != O_RDONLY) || (flags & (O_CREAT | O_TRUNC));
    int reads = (acc != O_WRONLY) && !(flags & O_TRUNC);
    if (writes) sbx_note(JANET_SANDBOX_FS_WRITE, "open(write)", path);
    if (reads) sbx_note(JANET_SANDBOX_FS_READ, "open(read)", path);
    if (writes && sbx_deny) return deny();
    return is64 ? __real_open64(path, flags, mode) : __real_open(path, flags, mode);
}
int __wrap_open64(const char *path, int flags, ...) {
    va_list ap; va_start(ap, flags); mode_t mode = (mode_t) va_arg(ap, int); va_end(ap);
    return open_common(1, path, flags, mode);
}
int __wrap_open(const char *path, int flags, ...) {
    va_list ap; va_start(ap, flags); mode_t mode = (mode_t) va_arg(ap, int); va_end(ap);
    return open_common(0, path, flags, mode);
}

FILE *__real_fopen64(const char *path, const char *mode);
FILE *__real_fopen(const char *path, const char *mode);
static FILE *fopen_common(int is64, const char *path, const char *mode) {
    int writes = (strchr(mode, 'w') || strchr(mode, 'a') || strchr(mode, '+'));
    /* "w+" truncates first: it cannot read pre-existing data; "r", "r+" and "a+" can */
    int reads = (strchr(mode, 'r') || (strchr(mode, 'a') && strchr(mode, '+')));
    if (writes) sbx_note(JANET_SANDBOX_FS_WRITE, "fopen(write)", path);
    if (reads) sbx_note(JANET_SANDBOX_FS_READ, "fopen(read)", path);
    if (writes && sbx_deny) { errno = EPERM; return NULL; }
    return is64 ? __real_fopen64(path, mode) : __real_fopen(path, mode);
}
FILE *__wrap_fopen64(const char *path, const char *mode) { return fopen_common(1, path, mode); }
FILE *__wrap_fopen(const char *path, const char *mode) { return fopen_common(0, path, mode); }

#define WRAP_PATH_WRITE(fn) \
    int __real_##fn(const char *p); \
    int __wrap_##fn(const char *p) { \
        sbx_note(JANET_SANDBOX_FS_WRITE, #fn, p); \
        if (sbx_deny) return deny(); \
        return __real_##fn(p); }
WRAP_PATH_WRITE(remove)
WRAP_PATH_WRITE(unlink)
WRAP_PATH_WRITE(rmdir)

#define WRAP_PATH2_WRITE(fn) \
    int __real_##fn(const char *a, const char *b); \
    int __wrap_##fn(const char *a, const char *b) { \
        sbx_note(JANET_SANDBOX_FS_WRITE, #fn, a); \
        if (sbx_deny) return deny(); \
        return __real_##fn(a, b); }
WRAP_PATH2_WRITE(rename)
WRAP_PATH2_WRITE(link)
WRAP_PATH2_WRITE(symlink)

int __real_mkdir(const char *p, mode_t m);
int __wrap_mkdir(const char *p, mode_t m) {
    sbx_note(JANET_SANDBOX_FS_WRITE, "mkdir", p);
    if (sbx_deny) return deny();
    return __real_mkdir(p, m);
}
int __real_chmod(const char *p, mode_t m);
int __wrap_chmod(const char *p, mode_t m) {
    sbx_note(JANET_SANDBOX_FS_WRITE, "chmod", p);
    if (sbx_deny) return deny();
    return __real_chmod(p, m);
}
int __real_utime(const char *p, const struct utimbuf *t);
int __wrap_utime(const char *p, const struct utimbuf *t) {
    sbx_note(JANET_SANDBOX_FS_WRITE, "utime", p);
    if (sbx_deny) return deny();
    return __real_utime(p, t);
}
mode_t __real_umask(mode_t m);
mode_t __wrap_umask(mode_t m) {
    sbx_note(JANET_SANDBOX_FS_WRITE, "umask", "");
    if (sbx_deny) return 022;
    return __real_umask(m);
}

#define WRAP_STAT(fn) \
    int __real_##fn(const char *p, struct stat64 *st); \
    int __wrap_##fn(const char *p, struct stat64 *st) { \
        sbx_note(JANET_SANDBOX_FS_READ, #fn, p); \
        return __real_##fn(p, st); }
WRAP_STAT(stat64)
WRAP_STAT(lstat64)
WRAP_STAT(stat)
WRAP_STAT(lstat)

DIR *__real_opendir(const char *p);
DIR *__wrap_opendir(const char *p) {
    sbx_note(JANET_SANDBOX_FS_READ, "opendir", p);
    return __real_opendir(p);
}
ssize_t __real_readlink(const char *p, char *b, size_t n);
ssize_t __wrap_readlink(const char *p, char *b, size_t n) {
    sbx_note(JANET_SANDBOX_FS_READ, "readlink", p);
    return __real_readlink(p, b, n);
}
char *__real_realpath(const char *p, char *r);
char *__wrap_realpath(const char *p, char *r) {
    sbx_note(JANET_SANDBOX_FS_READ, "realpath", p);
    return __real_realpath(p, r);
}
int __real_chdir(const char *p);
int __wrap_chdir(const char *p) {
    sbx_note(JANET_SANDBOX_FS_READ, "chdir", p);
    if (sbx_deny) return deny();
    return __real_chdir(p);
}
int __real_inotify_add_watch(int fd, const char *p, uint32_t mask);
int __wrap_inotify_add_watch(int fd, const char *p, uint32_t mask) {
    sbx_note(JANET_SANDBOX_FS_READ, "inotify_add_watch", p);
    return __real_inotify_add_watch(fd, p, mask);
}

FILE *__real_tmpfile64(void);
FILE *__real_tmpfile(void);
FILE *__wrap_tmpfile64(void) {
    sbx_note(JANET_SANDBOX_FS_TEMP, "tmpfile", "");
    return __real_tmpfile64();
}
FILE *__wrap_tmpfile(void) {
    sbx_note(JANET_SANDBOX_FS_TEMP, "tmpfile", "");
    return __real_tmpfile();
}

/* ---- network ---- */
int __real_connect(int fd, const struct sockaddr *a, socklen_t l);
int __wrap_connect(int fd, const struct sockaddr *a, socklen_t l) {
    sbx_note(JANET_SANDBOX_NET_CONNECT, "connect", "");
    if (sbx_deny) return deny();
    return __real_connect(fd, a, l);
}
int __real_bind(int fd, const struct sockaddr *a, socklen_t l);
int __wrap_bind(int fd, const struct sockaddr *a, socklen_t l) {
    sbx_note(JANET_SANDBOX_NET_LISTEN, "bind", "");
    if (sbx_deny) return deny();
    return __real_bind(fd, a, l);
}
int __real_listen(int fd, int n);
int __wrap_listen(int fd, int n) {
    sbx_note(JANET_SANDBOX_NET_LISTEN, "listen", "");
    if (sbx_deny) return deny();
    return __real_listen(fd, n);
}
int __real_accept4(int fd, struct sockaddr *a, socklen_t *l, int fl);
int __wrap_accept4(int fd, struct sockaddr *a, socklen_t *l, int fl) {
    sbx_note(JANET_SANDBOX_NET_LISTEN, "accept", "");
    return __real_accept4(fd, a, l, fl);
}
int __real_getaddrinfo(const char *n, const char *s, const struct addrinfo *h, struct addrinfo **r);
int __wrap_getaddrinfo(const char *n, const char *s, const struct addrinfo *h, struct addrinfo **r) {
    /* name resolution is network access of either kind: forbidden only when both are */
    sbx_init();
    if (sbx_logall || (sbx_effective() & JANET_SANDBOX_NET) == JANET_SANDBOX_NET)
        sbx_note(JANET_SANDBOX_NET_CONNECT, "getaddrinfo", n ? n : "");
    else {
        sbx_init();
        __atomic_add_fetch(&sbx_calls[bit_index(JANET_SANDBOX_NET_CONNECT)], 1, __ATOMIC_RELAXED);
    }
    return __real_getaddrinfo(n, s, h, r);
}

/* ---- subprocess ---- */
void verif_note_child(int pid);
pid_t __real_fork(void);
pid_t __wrap_fork(void) {
    sbx_note(JANET_SANDBOX_SUBPROCESS, "fork", "");
    if (sbx_deny) return deny();
    pid_t r = __real_fork();
    if (r > 0) verif_note_child((int) r);
    return r;
}
int __real_posix_spawn(pid_t *pid, const char *path, const posix_spawn_file_actions_t *fa,
                       const posix_spawnattr_t *at, char *const argv[], char *const envp[]);
int __wrap_posix_spawn(pid_t *pid, const char *path, const posix_spawn_file_actions_t *fa,
                       const posix_spawnattr_t *at, char *const argv[], char *const envp[]) {
    sbx_note(JANET_SANDBOX_SUBPROCESS, "posix_spawn", path);
    if (sbx_deny) return EPERM;
    pid_t tmp = 0;
    int r = __real_posix_spawn(pid ? pid : &tmp, path, fa, at, argv, envp);
    if (r == 0) verif_note_child((int)(pid ? *pid : tmp));
    return r;
}
int __real_posix_spawnp(pid_t *pid, const char *path, const posix_spawn_file_actions_t *fa,
                        const posix_spawnattr_t *at, char *const argv[], char *const envp[]);
int __wrap_posix_spawnp(pid_t *pid, const char *path, const posix_spawn_file_actions_t *fa,
                        const posix_spawnattr_t *at, char *const argv[], char *const envp[]) {
    sbx_note(JANET_SANDBOX_SUBPROCESS, "posix_spawnp", path);
    if (sbx_deny) return EPERM;
    pid_t tmp = 0;
    int r = __real_posix_spawnp(pid ? pid : &tmp, path, fa, at, argv, envp);
    if (r == 0) verif_note_child((int)(pid ? *pid : tmp));
    return r;
}
int __real_execv(const char *p, char *const argv[]);
int __wrap_execv(const char *p, char *const argv[]) {
    sbx_note(JANET_SANDBOX_SUBPROCESS, "execv", p);
    if (sbx_deny) return deny();
    return __real_execv(p, argv);
}
int __real_execvp(const char *p, char *const argv[]);
int __wrap_execvp(const char *p, char *const argv[]) {
    sbx_note(JANET_SANDBOX_SUBPROCESS, "execvp", p);
    if (sbx_deny) return deny();
    return __real_execvp(p, argv);
}
int __real_system(const char *c);
int __wrap_system(const char *c) {
    sbx_note(JANET_SANDBOX_SUBPROCESS, "system", c ? c : "");
    if (sbx_deny) return deny();
    return __real_system(c);
}
int __real_kill(pid_t pid, int sig);
int __wrap_kill(pid_t pid, int sig) {
    sbx_note(JANET_SANDBOX_SUBPROCESS, "kill", "");
    if (sbx_deny) return deny();
    return __real_kill(pid, sig);
}

/* ---- environment ---- */
char *__real_getenv(const char *n);
char *__wrap_getenv(const char *n) {
    sbx_note(JANET_SANDBOX_ENV, "getenv", n);
    return __real_getenv(n);
}
int __real_setenv(const char *n, const char *v, int o);
int __wrap_setenv(const char *n, const char *v, int o) {
    sbx_note(JANET_SANDBOX_ENV, "setenv", n);
    if (sbx_deny) return deny();
    return __real_setenv(n, v, o);
}
int __real_unsetenv(const char *n);
int __wrap_unsetenv(const char *n) {
    sbx_note(JANET_SANDBOX_ENV, "unsetenv", n);
    if (sbx_deny) return deny();
    return __real_unsetenv(n);
}

/* ---- dynamic modules / ffi ---- */
void *__real_dlopen(const char *p, int fl);
void *__wrap_dlopen(const char *p, int fl) {
    /* janet_native needs :modules, ffi/native needs :ffi-define. Either flag
     * being clear can legitimately reach dlopen, so only both set is a violation. */
    uint32_t both = JANET_SANDBOX_DYNAMIC_MODULES | JANET_SANDBOX_FFI_DEFINE;
    sbx_init();
    if (sbx_logall || (sbx_effective() & both) == both)
        sbx_note(JANET_SANDBOX_DYNAMIC_MODULES, "dlopen", p ? p : "");
    else {
        sbx_init();
        __atomic_add_fetch(&sbx_calls[bit_index(JANET_SANDBOX_DYNAMIC_MODULES)], 1, __ATOMIC_RELAXED);
    }
    /* denied: fail through the real function so that dlerror() is set */
    if (sbx_deny) return __real_dlopen("/nonexistent/verif-denied.so", fl);
    return __real_dlopen(p, fl);
}
void *__real_mmap64(void *a, size_t l, int prot, int fl, int fd, off_t off);
void *__wrap_mmap64(void *a, size_t l, int prot, int fl, int fd, off_t off) {
    if (prot & PROT_EXEC) sbx_note(JANET_SANDBOX_FFI_JIT, "mmap(PROT_EXEC)", "");
    return __real_mmap64(a, l, prot, fl, fd, off);
}
int __real_mprotect(void *a, size_t l, int prot);
int __wrap_mprotect(void *a, size_t l, int prot) {
    if (prot & PROT_EXEC) sbx_note(JANET_SANDBOX_FFI_JIT, "mprotect(PROT_EXEC)", "");
    return __real_mprotect(a, l, prot);
}

/* ---- signals ---- */
int __real_sigaction(int sig, const struct sigaction *a, struct sigaction *o);
int __wrap_sigaction(int sig, const struct sigaction *a, struct sigaction *o) {
    if (a != NULL) sbx_note(JANET_SANDBOX_SIGNAL, "sigaction", "");
    return __real_sigaction(sig, a, o);
}

/* ---- high resolution time (os/clock is the only caller of janet_gettime) ---- */
int __real_janet_gettime(struct timespec *spec, int source);
int __wrap_janet_gettime(struct timespec *spec, int source) {
    sbx_note(JANET_SANDBOX_HRTIME, "janet_gettime", "");
    return __real_janet_gettime(spec, source);
}

/* ---- natives ---- */
static const char *cls_name(uint32_t c) {
    switch (c) {
        case JANET_SANDBOX_SUBPROCESS: return "subprocess";
        case JANET_SANDBOX_NET_CONNECT: return "net-connect";
        case JANET_SANDBOX_NET_LISTEN: return "net-listen";
        case JANET_SANDBOX_FFI_DEFINE: return "ffi-define";
        case JANET_SANDBOX_FS_WRITE: return "fs-write";
        case JANET_SANDBOX_FS_READ: return "fs-read";
        case JANET_SANDBOX_HRTIME: return "hrtime";
        case JANET_SANDBOX_ENV: return "env";
        case JANET_SANDBOX_DYNAMIC_MODULES: return "modules";
        case JANET_SANDBOX_FS_TEMP: return "fs-temp";
        case JANET_SANDBOX_FFI_USE: return "ffi-use";
        case JANET_SANDBOX_FFI_JIT: return "ffi-jit";
        case JANET_SANDBOX_SIGNAL: return "signal";
        default: return "?";
    }
}

static Janet v_sbx_log(int32_t argc, Janet *argv) {
    (void) argv;
    janet_fixarity(argc, 0);
    int n = sbx_n;
    if (n > SBX_LOG_MAX) n = SBX_LOG_MAX;
    JanetArray *out = janet_array(n);
    for (int i = 0; i < n; i++) {
        Janet t[3] = { janet_ckeywordv(cls_name(sbx_log[i].cls)), janet_cstringv(sbx_log[i].name),
                       janet_cstringv(sbx_log[i].detail) };
        janet_array_push(out, janet_wrap_tuple(janet_tuple_n(t, 3)));
    }
    sbx_n = 0;
    return janet_wrap_array(out);
}

static Janet v_sbx_counts(int32_t argc, Janet *argv) {
    (void) argv;
    janet_fixarity(argc, 0);
    JanetKV *st = janet_struct_begin(16);
    for (int i = 1; i < 14; i++) {
        janet_struct_put(st, janet_ckeywordv(cls_name(1u << i)), janet_wrap_number((double) sbx_calls[i]));
    }
    return janet_wrap_struct(janet_struct_end(st));
}

static Janet v_sbx_flags(int32_t argc, Janet *argv) {
    (void) argv;
    janet_fixarity(argc, 0);
    return janet_wrap_number((double) janet_vm.sandbox_flags);
}

static Janet v_sbx_deny(int32_t argc, Janet *argv) {
    janet_fixarity(argc, 1);
    sbx_init();
    sbx_deny = janet_truthy(argv[0]);
    return janet_wrap_nil();
}

static Janet v_sbx_logall(int32_t argc, Janet *argv) {
    janet_fixarity(argc, 1);
    sbx_init();
    sbx_logall = janet_truthy(argv[0]);
    return janet_wrap_nil();
}

static const JanetReg sbx_cfuns[] = {
    {"verif/sbx-deny", v_sbx_deny, "(verif/sbx-deny on)\n\nAnswer destructive libc calls with EPERM."},
    {"verif/sbx-logall", v_sbx_logall, "(verif/sbx-logall on)\n\nLog every classified libc call."},
    {"verif/sbx-log", v_sbx_log, "(verif/sbx-log)\n\nForbidden libc calls seen since the last call; clears the log."},
    {"verif/sbx-counts", v_sbx_counts, "(verif/sbx-counts)\n\nAll intercepted calls per class."},
    {"verif/sbx-flags", v_sbx_flags, "(verif/sbx-flags)"},
    {NULL, NULL, NULL}
};

void verif_register_sbx(JanetTable *env) {
    janet_cfuns(env, NULL, sbx_cfuns);
}
