/* vjanet: the real janet interpreter (per-file build of /repo/src/core) linked
 * with the verification harness. This file: main(), the verif/ native
 * module, the GC-schedule hook and virtual time.
 *
 * Compiled with -iquote /repo/src/core (never -I: features.h shadows libc's).
 */
#define _GNU_SOURCE
#include <janet.h>
#include "state.h"
#include "gc.h"
#include <stdio.h>
#include <signal.h>
#include <math.h>
#include <stdlib.h>
#include <string.h>
#include <time.h>
#include <errno.h>
#include <unistd.h>
#include <dirent.h>
#include <sys/epoll.h>
#include <sys/timerfd.h>
#include <sys/personality.h>
#include <sys/resource.h>

/* ------------------------------------------------------------------ */
/* GC schedule hook (called from vm.c's maybe_collect under JANET_VERIF) */

enum { GC_DEFAULT = 0, GC_NEVER, GC_ALWAYS, GC_AT, GC_PERIOD };
static __thread int gc_mode = GC_DEFAULT;
static __thread long gc_points = 0;      /* safepoints passed on this thread */
static __thread long gc_forced = 0;      /* collections forced by the hook */
static __thread long *gc_at = NULL;      /* sorted indices for GC_AT */
static __thread int gc_at_n = 0, gc_at_i = 0;
static __thread long gc_period = 0, gc_phase = 0;
static __thread long gc_win_a = -1, gc_win_b = -1;
/* settings inherited by threads created later (ev/thread) */
static int g_gc_mode = GC_DEFAULT;
static long g_gc_period = 0, g_gc_phase = 0;
static __thread int gc_thread_inited = 0;
static int is_main_thread_inited = 0;

int janet_verif_gc_point(void) {
    if (!gc_thread_inited) {
        gc_thread_inited = 1;
        /* secondary threads inherit only the uniform modes */
        if (g_gc_mode == GC_NEVER || g_gc_mode == GC_ALWAYS || g_gc_mode == GC_PERIOD) {
            gc_mode = g_gc_mode;
            gc_period = g_gc_period;
            gc_phase = g_gc_phase;
        }
    }
    long i = gc_points++;
    switch (gc_mode) {
        default:
        case GC_DEFAULT:
            return 0;
        case GC_NEVER:
            return -1;
        case GC_ALWAYS:
            gc_forced++;
            return 1;
        case GC_AT:
            while (gc_at_i < gc_at_n && gc_at[gc_at_i] < i) gc_at_i++;
            if (gc_at_i < gc_at_n && gc_at[gc_at_i] == i) {
                gc_at_i++;
                gc_forced++;
                return 1;
            }
            return -1;
        case GC_PERIOD:
            if (gc_period > 0 && (i % gc_period) == gc_phase) {
                gc_forced++;
                return 1;
            }
            return -1;
    }
}

static int cmp_long(const void *a, const void *b) {
    long x = *(const long *)a, y = *(const long *)b;
    return (x > y) - (x < y);
}

/* spec: default | never | always | at:1,5,9 | period:P:PHASE */
static int gc_parse_spec(const char *spec) {
    if (!strcmp(spec, "default")) gc_mode = GC_DEFAULT;
    else if (!strcmp(spec, "never")) gc_mode = GC_NEVER;
    else if (!strcmp(spec, "always")) gc_mode = GC_ALWAYS;
    else if (!strncmp(spec, "at:", 3)) {
        const char *p = spec + 3;
        int n = 1;
        for (const char *q = p; *q; q++) if (*q == ',') n++;
        free(gc_at);
        gc_at = malloc(sizeof(long) * (size_t) n);
        gc_at_n = 0;
        gc_at_i = 0;
        while (*p) {
            char *end;
            long v = strtol(p, &end, 10);
            if (end == p) break;
            gc_at[gc_at_n++] = v;
            p = end;
            if (*p == ',') p++;
        }
        qsort(gc_at, (size_t) gc_at_n, sizeof(long), cmp_long);
        gc_mode = GC_AT;
    } else if (!strncmp(spec, "period:", 7)) {
        long p = 0, ph = 0;
        if (sscanf(spec + 7, "%ld:%ld", &p, &ph) < 1 || p <= 0) return -1;
        gc_period = p;
        gc_phase = ph % p;
        gc_mode = GC_PERIOD;
    } else return -1;
    gc_thread_inited = 1;
    if (is_main_thread_inited == 0 || 1) {
        g_gc_mode = gc_mode;
        g_gc_period = gc_period;
        g_gc_phase = gc_phase;
    }
    return 0;
}

/* ------------------------------------------------------------------ */
/* Virtual time */

static int vtime_on = 0;
static volatile int64_t vnow_ns = 1000000000000LL; /* arbitrary epoch: 1000 s */
static __thread int timer_armed = 0;
static __thread int64_t timer_when_ns = 0;
static long vt_jumps = 0;
static int vt_wait_spins = 12000;   /* x 5 ms */

int __real_clock_gettime(clockid_t, struct timespec *);
int __real_timerfd_settime(int, int, const struct itimerspec *, struct itimerspec *);
int __real_epoll_wait(int, struct epoll_event *, int, int);
int __real_nanosleep(const struct timespec *, struct timespec *);

int __wrap_clock_gettime(clockid_t cid, struct timespec *ts) {
    if (vtime_on && cid == CLOCK_MONOTONIC) {
        int64_t v = __atomic_load_n(&vnow_ns, __ATOMIC_SEQ_CST);
        ts->tv_sec = v / 1000000000LL;
        ts->tv_nsec = v % 1000000000LL;
        return 0;
    }
    return __real_clock_gettime(cid, ts);
}

int __wrap_timerfd_settime(int fd, int flags, const struct itimerspec *its, struct itimerspec *old) {
    if (vtime_on && fd == janet_vm.timerfd) {
        if (its->it_value.tv_sec == 0 && its->it_value.tv_nsec == 0) {
            timer_armed = 0;
        } else {
            timer_armed = 1;
            timer_when_ns = (int64_t) its->it_value.tv_sec * 1000000000LL + its->it_value.tv_nsec;
            if (!(flags & TFD_TIMER_ABSTIME)) timer_when_ns += vnow_ns;
        }
        if (old) memset(old, 0, sizeof(*old));
        return 0;
    }
    return __real_timerfd_settime(fd, flags, its, old);
}

static void vtime_advance_to(int64_t t) {
    int64_t cur = __atomic_load_n(&vnow_ns, __ATOMIC_SEQ_CST);
    while (cur < t && !__atomic_compare_exchange_n(&vnow_ns, &cur, t, 0, __ATOMIC_SEQ_CST, __ATOMIC_SEQ_CST)) {}
}

/* Threads started by janet (ev/thread, threaded calls) are real OS threads: while any is
 * alive, virtual time must not jump over the work it is doing. */
#include <pthread.h>
static volatile int live_threads = 0;
extern __thread uint32_t verif_sbx_floor;
typedef struct { void *(*fn)(void *); void *arg; uint32_t sbx; } ThreadStart;
static void *thread_trampoline(void *p) {
    ThreadStart ts = *(ThreadStart *) p;
    free(p);
    verif_sbx_floor = ts.sbx;
    void *r = ts.fn(ts.arg);
    __atomic_sub_fetch(&live_threads, 1, __ATOMIC_SEQ_CST);
    return r;
}
int __real_pthread_create(pthread_t *t, const pthread_attr_t *a, void *(*fn)(void *), void *arg);
int vs_active(void);
int vs_pthread_create(pthread_t *t, const pthread_attr_t *a, void *(*fn)(void *), void *arg);
int vs_epoll_wait(int epfd, struct epoll_event *events, int maxevents, int *timer_armed, int64_t *timer_when, void *timerfd_ptr);
void vs_vtime_advance_to(int64_t t) { vtime_advance_to(t); }
int64_t vs_vtime_now(void) { return __atomic_load_n(&vnow_ns, __ATOMIC_SEQ_CST); }

int __wrap_pthread_create(pthread_t *t, const pthread_attr_t *a, void *(*fn)(void *), void *arg) {
    if (vs_active()) return vs_pthread_create(t, a, fn, arg);
    ThreadStart *ts = malloc(sizeof(ThreadStart));
    ts->fn = fn;
    ts->arg = arg;
    ts->sbx = janet_vm.sandbox_flags | verif_sbx_floor;
    __atomic_add_fetch(&live_threads, 1, __ATOMIC_SEQ_CST);
    int r = __real_pthread_create(t, a, thread_trampoline, ts);
    if (r != 0) {
        __atomic_sub_fetch(&live_threads, 1, __ATOMIC_SEQ_CST);
        free(ts);
    }
    return r;
}

#include <sys/wait.h>
#include <sys/syscall.h>
#include <fcntl.h>
/* raw system calls: the harness's own look at /proc must not pass through the libc wrappers that number and
 * classify janet's calls */
static int raw_read_file(const char *path, char *buf, int cap) {
    int fd = (int) syscall(SYS_openat, AT_FDCWD, path, O_RDONLY | O_CLOEXEC);
    if (fd < 0) return -1;
    int n = 0, r;
    while (n < cap - 1 && (r = (int) syscall(SYS_read, fd, buf + n, cap - 1 - n)) > 0) n += r;
    syscall(SYS_close, fd);
    buf[n] = 0;
    return n;
}

struct vdirent64 { uint64_t d_ino; int64_t d_off; unsigned short d_reclen; unsigned char d_type; char d_name[]; };

/* Children are recorded when janet spawns them (sbxwrap's posix_spawn/fork wrappers call verif_note_child).
 * /proc/<tid>/children is documented as unreliable while children come and go, and waitid(WNOWAIT) keeps
 * reporting the same un-reaped zombie whatever the other children do. */
#define VERIF_MAX_KIDS 8192
static volatile int kid_pids[VERIF_MAX_KIDS];
static volatile int kid_n = 0;
void verif_note_child(int pid) {
    if (pid <= 0) return;
    int i = __atomic_fetch_add(&kid_n, 1, __ATOMIC_SEQ_CST);
    if (i < VERIF_MAX_KIDS) kid_pids[i] = pid;
}

/* 1 if this process has a child that is still running (not a zombie) */
static int running_children(void) {
    int n = __atomic_load_n(&kid_n, __ATOMIC_SEQ_CST);
    if (n > VERIF_MAX_KIDS) n = VERIF_MAX_KIDS;
    long self = (long) syscall(SYS_getpid);
    for (int i = 0; i < n; i++) {
        int pid = kid_pids[i];
        if (pid <= 0) continue;
        char path[64], st[512];
        snprintf(path, sizeof path, "/proc/%d/stat", pid);
        if (raw_read_file(path, st, sizeof st) <= 0) { kid_pids[i] = 0; continue; }   /* reaped */
        char *rp = strrchr(st, ')');
        if (!rp || rp[1] != ' ') continue;
        char state = rp[2];
        long ppid = strtol(rp + 3, NULL, 10);
        if (ppid != self) { kid_pids[i] = 0; continue; }     /* the pid was reused by somebody else */
        if (state != 'Z' && state != 'X') return 1;
    }
    return 0;
}

int __wrap_epoll_wait(int epfd, struct epoll_event *events, int maxevents, int timeout) {
    if (vs_active() && epfd == janet_vm.epoll) {
        return vs_epoll_wait(epfd, events, maxevents, &timer_armed, &timer_when_ns, &janet_vm.timerfd);
    }
    if (vtime_on && epfd == janet_vm.epoll) {
        int ready = __real_epoll_wait(epfd, events, maxevents, 0);
        if (ready != 0) return ready;
        /* give live threads and running child processes (VERIF_VT_WAIT_MS of real time, default 60 s)
         * the chance to post their results / produce output first */
        /* The real-time patience is proportional to how far virtual time would jump: a short sleep next
         * to a long-running child costs 20 ms (50 ms while a child process runs), a 1000 s watchdog deadline waits up to ~50 s. */
        int max_spins = vt_wait_spins;
        if (timer_armed) {
            int64_t dist_ms = (timer_when_ns - __atomic_load_n(&vnow_ns, __ATOMIC_SEQ_CST)) / 1000000;
            int64_t cap_ms = dist_ms / 20;
            /* a child that was just spawned may still hold close-on-exec copies of our descriptors for a moment */
            int64_t floor_ms = running_children() ? 50 : 20;
            if (cap_ms < floor_ms) cap_ms = floor_ms;
            if (cap_ms / 5 < max_spins) max_spins = (int)(cap_ms / 5);
        }
        for (int spins = 0; spins < max_spins && (__atomic_load_n(&live_threads, __ATOMIC_SEQ_CST) > 0 || running_children()); spins++) {
            ready = __real_epoll_wait(epfd, events, maxevents, 5);
            if (ready != 0) return ready;
        }
        /* the last thread or child may have delivered its result and gone between the poll above and the test that found
         * nobody left: whatever they did happened before they were seen gone, so one more look settles it */
        ready = __real_epoll_wait(epfd, events, maxevents, 0);
        if (ready != 0) return ready;
        if (timer_armed) {
            /* nothing is ready: time jumps to the armed timer */
            vtime_advance_to(timer_when_ns);
            timer_armed = 0;
            vt_jumps++;
            events[0].events = EPOLLIN;
            events[0].data.ptr = &janet_vm.timerfd;
            return 1;
        }
        return __real_epoll_wait(epfd, events, maxevents, timeout);
    }
    return __real_epoll_wait(epfd, events, maxevents, timeout);
}

int __wrap_nanosleep(const struct timespec *req, struct timespec *rem) {
    if (vtime_on) {
        int64_t d = (int64_t) req->tv_sec * 1000000000LL + req->tv_nsec;
        vtime_advance_to(__atomic_load_n(&vnow_ns, __ATOMIC_SEQ_CST) + d);
        if (rem) { rem->tv_sec = 0; rem->tv_nsec = 0; }
        return 0;
    }
    return __real_nanosleep(req, rem);
}

/* ------------------------------------------------------------------ */
/* verif/ native functions */

static Janet v_now(int32_t argc, Janet *argv) {
    (void) argv;
    janet_fixarity(argc, 0);
    /* milliseconds of virtual time since the epoch of the run */
    return janet_wrap_number((double)(vnow_ns - 1000000000000LL) / 1e6);
}

static Janet v_advance(int32_t argc, Janet *argv) {
    janet_fixarity(argc, 1);
    double ms = janet_getnumber(argv, 0);
    vtime_advance_to(vnow_ns + (int64_t)(ms * 1e6));
    return janet_wrap_nil();
}

static Janet v_vtime(int32_t argc, Janet *argv) {
    janet_arity(argc, 0, 1);
    if (argc == 1) vtime_on = janet_truthy(argv[0]);
    return janet_wrap_boolean(vtime_on);
}

static Janet v_gc_mode(int32_t argc, Janet *argv) {
    janet_fixarity(argc, 1);
    const char *spec = (const char *) janet_getcbytes(argv, 0);
    if (gc_parse_spec(spec)) janet_panicf("bad gc spec %s", spec);
    return janet_wrap_nil();
}

static Janet v_gc_points(int32_t argc, Janet *argv) {
    (void) argv;
    janet_fixarity(argc, 0);
    return janet_wrap_number((double) gc_points);
}

static Janet v_gc_forced(int32_t argc, Janet *argv) {
    (void) argv;
    janet_fixarity(argc, 0);
    return janet_wrap_number((double) gc_forced);
}

static Janet v_gc_window(int32_t argc, Janet *argv) {
    janet_fixarity(argc, 1);
    if (janet_truthy(argv[0])) gc_win_a = gc_points;
    else gc_win_b = gc_points;
    return janet_wrap_nil();
}

static int count_fds(void) {
    DIR *d = opendir("/proc/self/fd");
    if (!d) return -1;
    int n = 0;
    struct dirent *e;
    while ((e = readdir(d))) if (e->d_name[0] != '.') n++;
    closedir(d);
    return n - 1; /* the DIR's own fd */
}

static int count_dir(const char *path) {
    DIR *d = opendir(path);
    if (!d) return -1;
    int n = 0;
    struct dirent *e;
    while ((e = readdir(d))) if (e->d_name[0] != '.') n++;
    closedir(d);
    return n;
}

/* number of direct child processes (running or zombie) of this process */
static int count_children(void) {
    DIR *d = opendir("/proc/self/task");
    if (!d) return -1;
    int n = 0;
    struct dirent *e;
    while ((e = readdir(d))) {
        if (e->d_name[0] == '.') continue;
        char path[300];
        snprintf(path, sizeof path, "/proc/self/task/%s/children", e->d_name);
        FILE *f = fopen(path, "r");
        if (!f) continue;
        int pid;
        while (fscanf(f, "%d", &pid) == 1) n++;
        fclose(f);
    }
    closedir(d);
    return n;
}

static Janet v_vm_info(int32_t argc, Janet *argv) {
    (void) argv;
    janet_fixarity(argc, 0);
    JanetKV *st = janet_struct_begin(14);
    janet_struct_put(st, janet_ckeywordv("threads"), janet_wrap_number((double) count_dir("/proc/self/task")));
    janet_struct_put(st, janet_ckeywordv("children"), janet_wrap_number((double) count_children()));
    janet_struct_put(st, janet_ckeywordv("block-count"), janet_wrap_number((double) janet_vm.block_count));
    janet_struct_put(st, janet_ckeywordv("root-count"), janet_wrap_number((double) janet_vm.root_count));
    janet_struct_put(st, janet_ckeywordv("gc-suspend"), janet_wrap_number((double) janet_vm.gc_suspend));
    janet_struct_put(st, janet_ckeywordv("sandbox-flags"), janet_wrap_number((double) janet_vm.sandbox_flags));
    janet_struct_put(st, janet_ckeywordv("stackn"), janet_wrap_number((double) janet_vm.stackn));
#ifdef JANET_EV
    janet_struct_put(st, janet_ckeywordv("listener-count"), janet_wrap_number((double) janet_atomic_load(&janet_vm.listener_count)));
    janet_struct_put(st, janet_ckeywordv("tq-count"), janet_wrap_number((double) janet_vm.tq_count));
    {
        int32_t h = janet_vm.spawn.head, t = janet_vm.spawn.tail, c = janet_vm.spawn.capacity;
        int32_t n = (t >= h) ? (t - h) : (c - h + t);
        janet_struct_put(st, janet_ckeywordv("runq"), janet_wrap_number((double) n));
    }
    janet_struct_put(st, janet_ckeywordv("active-tasks"), janet_wrap_number((double) janet_vm.active_tasks.count));
    janet_struct_put(st, janet_ckeywordv("loop-done"), janet_wrap_boolean(janet_loop_done()));
#endif
    janet_struct_put(st, janet_ckeywordv("fds"), janet_wrap_number((double) count_fds()));
    return janet_wrap_struct(janet_struct_end(st));
}

/* (verif/table-info ds) -> {:count :deleted :capacity :slots "k.x.."}
 * slots: one char per bucket: '.' empty, 'x' tombstone, 'k' live */
static Janet v_table_info(int32_t argc, Janet *argv) {
    janet_fixarity(argc, 1);
    const JanetKV *data;
    int32_t count, cap, deleted = 0;
    int is_table = 0;
    if (janet_checktype(argv[0], JANET_TABLE)) {
        JanetTable *t = janet_unwrap_table(argv[0]);
        data = t->data;
        count = t->count;
        cap = t->capacity;
        deleted = t->deleted;
        is_table = 1;
    } else if (janet_checktype(argv[0], JANET_STRUCT)) {
        const JanetKV *s = janet_unwrap_struct(argv[0]);
        data = s;
        count = janet_struct_length(s);
        cap = janet_struct_capacity(s);
    } else {
        janet_panic("expected table or struct");
    }
    JanetBuffer *b = janet_buffer(cap);
    JanetArray *order = janet_array(count);
    for (int32_t i = 0; i < cap; i++) {
        const JanetKV *kv = data + i;
        if (janet_checktype(kv->key, JANET_NIL)) {
            if (is_table && janet_checktype(kv->value, JANET_BOOLEAN)) janet_buffer_push_u8(b, 'x');
            else janet_buffer_push_u8(b, '.');
        } else {
            janet_buffer_push_u8(b, 'k');
            janet_array_push(order, kv->key);
        }
    }
    JanetKV *st = janet_struct_begin(5);
    janet_struct_put(st, janet_ckeywordv("count"), janet_wrap_number(count));
    janet_struct_put(st, janet_ckeywordv("deleted"), janet_wrap_number(deleted));
    janet_struct_put(st, janet_ckeywordv("capacity"), janet_wrap_number(cap));
    janet_struct_put(st, janet_ckeywordv("slots"), janet_wrap_string(janet_string(b->data, b->count)));
    janet_struct_put(st, janet_ckeywordv("order"), janet_wrap_tuple(janet_tuple_n(order->data, order->count)));
    return janet_wrap_struct(janet_struct_end(st));
}

/* identity of a heap value as a number (for canon / symbol identity checks) */
static Janet v_addr(int32_t argc, Janet *argv) {
    janet_fixarity(argc, 1);
    if (janet_checktypes(argv[0], JANET_TFLAG_NIL | JANET_TFLAG_BOOLEAN | JANET_TFLAG_NUMBER))
        return janet_wrap_nil();
    return janet_wrap_number((double)(uintptr_t) janet_unwrap_pointer(argv[0]));
}

static Janet v_array_info(int32_t argc, Janet *argv) {
    janet_fixarity(argc, 1);
    if (janet_checktype(argv[0], JANET_ARRAY)) {
        JanetArray *a = janet_unwrap_array(argv[0]);
        Janet t[2] = { janet_wrap_number(a->count), janet_wrap_number(a->capacity) };
        return janet_wrap_tuple(janet_tuple_n(t, 2));
    } else if (janet_checktype(argv[0], JANET_BUFFER)) {
        JanetBuffer *a = janet_unwrap_buffer(argv[0]);
        Janet t[2] = { janet_wrap_number(a->count), janet_wrap_number(a->capacity) };
        return janet_wrap_tuple(janet_tuple_n(t, 2));
    }
    janet_panic("expected array or buffer");
}

/* optimisation-pass switches (C15): bit0 = movopt, bit1 = remove_noops */
static int opt_passes = 3;
void __real_janet_bytecode_movopt(JanetFuncDef *def);
void __real_janet_bytecode_remove_noops(JanetFuncDef *def);
void __wrap_janet_bytecode_movopt(JanetFuncDef *def) {
    if (opt_passes & 1) __real_janet_bytecode_movopt(def);
}
void __wrap_janet_bytecode_remove_noops(JanetFuncDef *def) {
    if (opt_passes & 2) __real_janet_bytecode_remove_noops(def);
}
static Janet v_opt_passes(int32_t argc, Janet *argv) {
    janet_arity(argc, 0, 1);
    if (argc == 1) opt_passes = janet_getinteger(argv, 0) & 3;
    return janet_wrap_integer(opt_passes);
}

/* double <-> bits */
static Janet v_bits_to_double(int32_t argc, Janet *argv) {
    janet_fixarity(argc, 2); /* hi32 lo32 */
    uint64_t hi = (uint64_t) janet_getnumber(argv, 0);
    uint64_t lo = (uint64_t) janet_getnumber(argv, 1);
    uint64_t bits = (hi << 32) | (lo & 0xFFFFFFFFu);
    double d;
    memcpy(&d, &bits, 8);
    if (d != d) d = (double) NAN;   /* never forge a nan-boxed pointer from a payload */
    return janet_wrap_number(d);
}
static Janet v_double_to_bits(int32_t argc, Janet *argv) {
    janet_fixarity(argc, 1);
    double d = janet_getnumber(argv, 0);
    uint64_t bits;
    memcpy(&bits, &d, 8);
    char buf[32];
    snprintf(buf, sizeof buf, "%016llx", (unsigned long long) bits);
    return janet_cstringv(buf);
}

static Janet v_real_sleep(int32_t argc, Janet *argv) {
    janet_fixarity(argc, 1);
    double ms = janet_getnumber(argv, 0);
    struct timespec ts;
    ts.tv_sec = (time_t)(ms / 1000);
    ts.tv_nsec = (long)((ms - ts.tv_sec * 1000.0) * 1e6);
    __real_nanosleep(&ts, NULL);
    return janet_wrap_nil();
}

/* true while process pid exists and is not a zombie */
static Janet v_pid_running(int32_t argc, Janet *argv) {
    janet_fixarity(argc, 1);
    int pid = janet_getinteger(argv, 0);
    char path[64];
    snprintf(path, sizeof path, "/proc/%d/stat", pid);
    FILE *f = fopen(path, "r");
    if (!f) return janet_wrap_false();
    char buf[512];
    size_t n = fread(buf, 1, sizeof buf - 1, f);
    fclose(f);
    buf[n] = 0;
    char *rp = strrchr(buf, ')');
    if (!rp || !rp[1] || !rp[2]) return janet_wrap_false();
    return janet_wrap_boolean(rp[2] != 'Z' && rp[2] != 'X');
}

static Janet v_wait_exec(int32_t argc, Janet *argv) {
    janet_fixarity(argc, 1);
    long pid = (long) janet_getinteger(argv, 0);
    char own[64], other[64], path[64];
    if (raw_read_file("/proc/self/comm", own, sizeof own) <= 0) return janet_wrap_false();
    snprintf(path, sizeof path, "/proc/%ld/comm", pid);
    for (int i = 0; i < 2000; i++) {
        if (raw_read_file(path, other, sizeof other) <= 0) return janet_wrap_true();   /* already gone */
        if (strcmp(own, other) != 0) return janet_wrap_true();   /* comm is set after close-on-exec handling */
        struct timespec ts = {0, 1000000};
        __real_nanosleep(&ts, NULL);
    }
    return janet_wrap_false();
}

static Janet v_tq_dump(int32_t argc, Janet *argv) {
    (void) argv;
    janet_fixarity(argc, 0);
    JanetArray *a = janet_array((int32_t) janet_vm.tq_count);
    int64_t now_ms = __atomic_load_n(&vnow_ns, __ATOMIC_SEQ_CST) / 1000000;
    for (size_t i = 0; i < janet_vm.tq_count; i++) {
        JanetTimeout *t = &janet_vm.tq[i];
        Janet e[4] = { janet_wrap_number((double)((int64_t) t->when - now_ms)), janet_wrap_boolean(t->curr_fiber != NULL),
                       janet_wrap_boolean(t->is_error), janet_wrap_boolean(t->fiber && t->fiber->sched_id == t->sched_id) };
        janet_array_push(a, janet_wrap_tuple(janet_tuple_n(e, 4)));
    }
    return janet_wrap_array(a);
}

static Janet v_live_threads(int32_t argc, Janet *argv) {
    (void) argv;
    janet_fixarity(argc, 0);
    return janet_wrap_integer(__atomic_load_n(&live_threads, __ATOMIC_SEQ_CST));
}

/* extension points implemented in other harness files */
void verif_register_more(JanetTable *env);
void verif_io_init(void);
void verif_sbx_init(void);

static const JanetReg verif_cfuns[] = {
    {"verif/now", v_now, "(verif/now)\n\nVirtual ms since start."},
    {"verif/advance", v_advance, "(verif/advance ms)"},
    {"verif/vtime", v_vtime, "(verif/vtime &opt on)"},
    {"verif/gc-mode", v_gc_mode, "(verif/gc-mode spec)"},
    {"verif/gc-points", v_gc_points, "(verif/gc-points)"},
    {"verif/gc-forced", v_gc_forced, "(verif/gc-forced)"},
    {"verif/gc-window", v_gc_window, "(verif/gc-window on)"},
    {"verif/vm-info", v_vm_info, "(verif/vm-info)"},
    {"verif/table-info", v_table_info, "(verif/table-info ds)"},
    {"verif/array-info", v_array_info, "(verif/array-info ds)"},
    {"verif/addr", v_addr, "(verif/addr x)"},
    {"verif/opt-passes", v_opt_passes, "(verif/opt-passes &opt mask)"},
    {"verif/bits-to-double", v_bits_to_double, "(verif/bits-to-double hi lo)"},
    {"verif/double-to-bits", v_double_to_bits, "(verif/double-to-bits x)"},
    {"verif/real-sleep", v_real_sleep, "(verif/real-sleep ms)\n\nSleep in real time."},
    {"verif/pid-running", v_pid_running, "(verif/pid-running pid)"},
    {"verif/live-threads", v_live_threads, "(verif/live-threads)"},
    {"verif/tq-dump", v_tq_dump, "(verif/tq-dump)\n\nThe timer queue: [ms-from-now deadline? is-error live?] per entry."},
    {"verif/wait-exec", v_wait_exec, "(verif/wait-exec pid)\n\nWait (real time, at most 2 s) until the child `pid` has finished its exec: "
     "posix_spawn returns as soon as the child has a new address space, a moment before the kernel closes the child's "
     "close-on-exec copies of this process's descriptors. Returns true when the exec was seen to be complete."},
    {NULL, NULL, NULL}
};

static void write_gc_log(void) {
    const char *p = getenv("VERIF_GC_LOG");
    if (!p) return;
    FILE *f = fopen(p, "w");
    if (!f) return;
    fprintf(f, "%ld %ld %ld %ld\n", gc_points, gc_win_a, gc_win_b, gc_forced);
    fclose(f);
}

/* VERIF_VT_EXIT=<path>: the virtual clock (ms since start) when the process exits, i.e. when the event loop had
 * nothing left to wait for. Under virtual time a loop kept alive by a left-over timer exits "at once" in real time;
 * only the clock shows that it waited. */
static const char *vt_exit_path = NULL;
static void write_vt_exit(void) {
    if (!vt_exit_path) return;
    FILE *f = fopen(vt_exit_path, "w");
    if (!f) return;
    fprintf(f, "%.3f\n", (double)(__atomic_load_n(&vnow_ns, __ATOMIC_SEQ_CST) - 1000000000000LL) / 1e6);
    fclose(f);
}

int main(int argc, char **argv) {
    /* Deterministic addresses: re-exec once with ASLR disabled. */
    if (!getenv("VERIF_NO_ASLR_OFF")) {
        int pers = personality(0xffffffff);
        if (pers != -1 && !(pers & ADDR_NO_RANDOMIZE)) {
            if (personality(pers | ADDR_NO_RANDOMIZE) != -1) {
                setenv("VERIF_NO_ASLR_OFF", "1", 1);
                execv("/proc/self/exe", argv);
            }
        }
    }
    verif_io_init();
    verif_sbx_init();
    vs_active();
    /* Process-level policy of the harness: a write to a closed pipe/socket returns EPIPE
     * (janet raises an error) instead of killing the process with SIGPIPE. */
    signal(SIGPIPE, SIG_IGN);
    /* Everything else starts from the default disposition and an empty mask, whatever the check was
     * started under: an ignored signal survives exec, so under nohup a child that janet kills with
     * SIGHUP (C16 signal scenarios) would never die. */
    {
        static const int sigs[] = {SIGHUP, SIGINT, SIGQUIT, SIGTERM, SIGUSR1, SIGUSR2, SIGALRM, SIGCHLD, SIGCONT, SIGTSTP};
        for (size_t i = 0; i < sizeof(sigs) / sizeof(sigs[0]); i++) signal(sigs[i], SIG_DFL);
        sigset_t none;
        sigemptyset(&none);
        sigprocmask(SIG_SETMASK, &none, NULL);
    }
    const char *e;
    if ((e = getenv("VERIF_VTIME")) && *e == '1') vtime_on = 1;
    if (getenv("VERIF_SCHED")) vtime_on = 1;   /* the controlled scheduler owns time */
    if ((e = getenv("VERIF_VT_WAIT_MS")) && *e) vt_wait_spins = atoi(e) / 5;
    if ((e = getenv("VERIF_GC")) && *e) {
        if (gc_parse_spec(e)) {
            fprintf(stderr, "vjanet: bad VERIF_GC spec\n");
            return 2;
        }
    }
    is_main_thread_inited = 1;
    if ((e = getenv("VERIF_OPT_PASSES")) && *e) opt_passes = atoi(e) & 3;
    atexit(write_gc_log);
    if ((e = getenv("VERIF_VT_EXIT")) && *e) { vt_exit_path = strdup(e); atexit(write_vt_exit); }

    janet_init();
    JanetTable *env = janet_core_env(NULL);
    janet_cfuns(env, NULL, verif_cfuns);
    verif_register_more(env);

    JanetArray *args = janet_array(argc);
    for (int i = 1; i < argc; i++) janet_array_push(args, janet_cstringv(argv[i]));
    janet_table_put(env, janet_ckeywordv("executable"), janet_cstringv(argv[0]));

    Janet mainfun;
    janet_resolve(env, janet_csymbol("cli-main"), &mainfun);
    Janet mainargs[1] = { janet_wrap_array(args) };
    JanetFiber *fiber = janet_fiber(janet_unwrap_function(mainfun), 64, 1, mainargs);
    janet_gcroot(janet_wrap_fiber(fiber));
    fiber->env = env;
    int status = janet_loop_fiber(fiber);
    janet_deinit();
    return status;
}
