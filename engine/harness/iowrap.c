/* iowrap: numbers every read/write-family call made by janet's own objects and can
 * answer chosen calls with EINTR (a deviation every correct program must tolerate).
 * VERIF_IO_EINTR="3,17" : the calls with these indices fail once with EINTR.
 * (verif/io-calls) -> number of calls so far; (verif/io-eintr [i j ...]) sets the plan at run time.
 */
#define _GNU_SOURCE
#include <janet.h>
#include <stdio.h>
#include <stdlib.h>
#include <string.h>
#include <errno.h>
#include <unistd.h>
#include <sys/types.h>
#include <sys/socket.h>

static volatile long io_calls = 0;
static volatile long io_injected = 0;
static long io_plan[64];
static int io_plan_n = 0;
static int io_inited = 0;

void verif_io_init(void);
static void io_init(void) {
    if (__atomic_load_n(&io_inited, __ATOMIC_ACQUIRE)) return;
    verif_io_init();
}

/* called once from main() before any thread exists */
void verif_io_init(void) {
    if (io_inited) return;
    const char *e = getenv("VERIF_IO_EINTR");
    if (!e) { __atomic_store_n(&io_inited, 1, __ATOMIC_RELEASE); return; }
    while (*e && io_plan_n < 64) {
        char *end;
        long v = strtol(e, &end, 10);
        if (end == e) break;
        io_plan[io_plan_n++] = v;
        e = end;
        if (*e == ',') e++;
    }
}

void vs_point(int kind);   /* vsched.c: scheduling point of the controlled scheduler */

/* returns 1 when this call must fail with EINTR */
static int io_point(void) {
    io_init();
    vs_point(8);
    long i = __atomic_fetch_add(&io_calls, 1, __ATOMIC_SEQ_CST);
    if (io_plan_n == 0) return 0;
    for (int k = 0; k < io_plan_n; k++) {
        if (io_plan[k] == i) {
            io_plan[k] = -1;
            __atomic_add_fetch(&io_injected, 1, __ATOMIC_SEQ_CST);
            errno = EINTR;
            return 1;
        }
    }
    return 0;
}

ssize_t __real_read(int fd, void *buf, size_t n);
ssize_t __wrap_read(int fd, void *buf, size_t n) {
    if (io_point()) return -1;
    return __real_read(fd, buf, n);
}
ssize_t __real_write(int fd, const void *buf, size_t n);
ssize_t __wrap_write(int fd, const void *buf, size_t n) {
    if (io_point()) return -1;
    return __real_write(fd, buf, n);
}
ssize_t __real_recv(int fd, void *buf, size_t n, int fl);
ssize_t __wrap_recv(int fd, void *buf, size_t n, int fl) {
    if (io_point()) return -1;
    return __real_recv(fd, buf, n, fl);
}
ssize_t __real_send(int fd, const void *buf, size_t n, int fl);
ssize_t __wrap_send(int fd, const void *buf, size_t n, int fl) {
    if (io_point()) return -1;
    return __real_send(fd, buf, n, fl);
}
ssize_t __real_recvfrom(int fd, void *buf, size_t n, int fl, struct sockaddr *a, socklen_t *l);
ssize_t __wrap_recvfrom(int fd, void *buf, size_t n, int fl, struct sockaddr *a, socklen_t *l) {
    if (io_point()) return -1;
    return __real_recvfrom(fd, buf, n, fl, a, l);
}
ssize_t __real_sendto(int fd, const void *buf, size_t n, int fl, const struct sockaddr *a, socklen_t l);
ssize_t __wrap_sendto(int fd, const void *buf, size_t n, int fl, const struct sockaddr *a, socklen_t l) {
    if (io_point()) return -1;
    return __real_sendto(fd, buf, n, fl, a, l);
}

static Janet v_io_calls(int32_t argc, Janet *argv) {
    (void) argv;
    janet_fixarity(argc, 0);
    Janet t[2] = { janet_wrap_number((double) io_calls), janet_wrap_number((double) io_injected) };
    return janet_wrap_tuple(janet_tuple_n(t, 2));
}

static Janet v_io_eintr(int32_t argc, Janet *argv) {
    janet_fixarity(argc, 1);
    io_init();
    const Janet *vals;
    int32_t n;
    if (!janet_indexed_view(argv[0], &vals, &n)) janet_panic("expected indexed");
    io_plan_n = 0;
    long base = io_calls;
    for (int32_t i = 0; i < n && i < 64; i++) io_plan[io_plan_n++] = base + (long) janet_unwrap_number(vals[i]);
    return janet_wrap_number((double) base);
}

static const JanetReg io_cfuns[] = {
    {"verif/io-calls", v_io_calls, "(verif/io-calls)\n\n[calls-so-far injected]."},
    {"verif/io-eintr", v_io_eintr, "(verif/io-eintr [i ...])\n\nFail the i-th next I/O calls (relative to now) once with EINTR."},
    {NULL, NULL, NULL}
};

void verif_register_io(JanetTable *env) {
    janet_cfuns(env, NULL, io_cfuns);
}
