/* Additional verif/ natives registered at start-up (extended per property). */
#define _GNU_SOURCE
#include <janet.h>
#include "state.h"

void verif_register_sbx(JanetTable *env) __attribute__((weak));
void verif_register_io(JanetTable *env) __attribute__((weak));
void verif_register_sched(JanetTable *env) __attribute__((weak));

void verif_register_more(JanetTable *env) {
    if (verif_register_sbx) verif_register_sbx(env);
    if (verif_register_io) verif_register_io(env);
    if (verif_register_sched) verif_register_sched(env);
}
