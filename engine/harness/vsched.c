/* vsched: controlled scheduler for janet's OS threads (C08, kernel K4).
 *
 * Enabled with VERIF_SCHED=<comma separated choices> (may be empty: "-").
 * All threads created by janet are serialised: exactly one runs at a time and it
 * runs until its next scheduling point (mutex lock/unlock, atomic inc/dec,
 * read/write-family call, epoll_wait, thread creation, thread exit). At each
 * point the scheduler computes the enabled threads in canonical order (running
 * thread first if enabled, then ascending ids), takes the next recorded choice
 * (default 0) and hands the baton over. Blocking is modelled: a thread at
 * mutex_lock is enabled iff the mutex is free or its own; a thread at epoll_wait
 * iff its epoll set is ready. If nobody is enabled, virtual time jumps to the
 * earliest armed timer; if there is none: deadlock (exit 97).
 * The trace of decisions is written to VERIF_SCHED_LOG at exit.
 *
 * This translation unit is never sanitised.
 */
#define _GNU_SOURCE
#include <janet.h>
#include "state.h"
#include <stdio.h>
#include <stdlib.h>
#include <string.h>
#include <errno.h>
#include <unistd.h>
#include <pthread.h>
#include <semaphore.h>
#include <sys/epoll.h>

#define VS_MAXT 24
#define VS_MAXPOINTS 20000
#define VS_MAXMUTEX 64

enum { VS_FREE = 0, VS_RUNNING, VS_AT_POINT, VS_AT_LOCK, VS_AT_POLL, VS_NEW, VS_DONE };

typedef struct {
    int state;
    sem_t sem;
    pthread_mutex_t *want;
    int epfd;
    struct epoll_event *events;
    int maxevents;
    int poll_result;
    int *timer_armed;
    int64_t *timer_when;
    void *timerfd_ptr;
} VThread;

static VThread T[VS_MAXT];
static int vs_on = 0;
static int vs_inited = 0;
static __thread int vs_self = -1;
static int vs_cur = 0;
static int vs_nthreads = 0;

static struct { pthread_mutex_t *m; int owner; int depth; } M[VS_MAXMUTEX];

/* schedule prefix and trace */
static int *prefix = NULL;
static int prefix_n = 0;
static int point_i = 0;
static struct { unsigned char n_enabled, chosen, cur_enabled, kind; } trace[VS_MAXPOINTS];
static int horizon = 4000;
static const char *logpath = NULL;
static int log_written = 0;

int __real_pthread_mutex_lock(pthread_mutex_t *m);
int __real_pthread_mutex_unlock(pthread_mutex_t *m);
int __real_epoll_wait(int epfd, struct epoll_event *events, int maxevents, int timeout);
int __real_pthread_create(pthread_t *t, const pthread_attr_t *a, void *(*fn)(void *), void *arg);
JanetAtomicInt __real_janet_atomic_inc(JanetAtomicInt volatile *x);
JanetAtomicInt __real_janet_atomic_dec(JanetAtomicInt volatile *x);

void vs_vtime_advance_to(int64_t t);   /* vmain.c */
int64_t vs_vtime_now(void);

static void vs_write_log(const char *verdict) {
    if (!logpath || log_written) return;
    log_written = 1;
    FILE *f = fopen(logpath, "w");
    if (!f) return;
    fprintf(f, "%s %d %d\n", verdict, point_i, vs_nthreads);
    for (int i = 0; i < point_i && i < VS_MAXPOINTS; i++)
        fprintf(f, "%d %d %d %d\n", trace[i].n_enabled, trace[i].chosen, trace[i].cur_enabled, trace[i].kind);
    fclose(f);
}

static void vs_atexit(void) {
    vs_write_log("exit");
}

static void vs_die(const char *verdict, int code) {
    vs_write_log(verdict);
    fprintf(stderr, "vsched: %s at point %d\n", verdict, point_i);
    _exit(code);
}

static void vs_init(void) {
    if (vs_inited) return;
    vs_inited = 1;
    const char *e = getenv("VERIF_SCHED");
    if (!e) return;
    vs_on = 1;
    logpath = getenv("VERIF_SCHED_LOG");
    const char *h = getenv("VERIF_SCHED_HORIZON");
    if (h) horizon = atoi(h);
    if (horizon > VS_MAXPOINTS) horizon = VS_MAXPOINTS;
    int cap = 16;
    prefix = malloc(sizeof(int) * cap);
    while (*e) {
        char *end;
        long v = strtol(e, &end, 10);
        if (end == e) break;
        if (prefix_n == cap) { cap *= 2; prefix = realloc(prefix, sizeof(int) * cap); }
        prefix[prefix_n++] = (int) v;
        e = end;
        if (*e == ',') e++;
    }
    memset(T, 0, sizeof T);
    T[0].state = VS_RUNNING;
    sem_init(&T[0].sem, 0, 0);
    vs_self = 0;
    vs_cur = 0;
    vs_nthreads = 1;
    atexit(vs_atexit);
}

int vs_active(void) {
    vs_init();
    return vs_on;
}

static int mutex_slot(pthread_mutex_t *m) {
    int free_slot = -1;
    for (int i = 0; i < VS_MAXMUTEX; i++) {
        if (M[i].m == m) return i;
        if (M[i].m == NULL && free_slot < 0) free_slot = i;
    }
    if (free_slot < 0) vs_die("harness-error:too-many-mutexes", 95);
    M[free_slot].m = m;
    M[free_slot].owner = -1;
    M[free_slot].depth = 0;
    return free_slot;
}

static int thread_enabled(int t) {
    VThread *v = &T[t];
    switch (v->state) {
        case VS_RUNNING:
        case VS_AT_POINT:
        case VS_NEW:
            return 1;
        case VS_AT_LOCK: {
            int s = mutex_slot(v->want);
            return M[s].owner < 0 || M[s].owner == t;
        }
        case VS_AT_POLL: {
            if (v->poll_result > 0) return 1;   /* readiness already captured (edge-triggered events are consumed) */
            int r = __real_epoll_wait(v->epfd, v->events, v->maxevents, 0);
            if (r > 0) { v->poll_result = r; return 1; }
            if (v->timer_armed && *v->timer_armed && *v->timer_when <= vs_vtime_now()) {
                *v->timer_armed = 0;
                v->events[0].events = EPOLLIN;
                v->events[0].data.ptr = v->timerfd_ptr;
                v->poll_result = 1;
                return 1;
            }
            return 0;
        }
        default:
            return 0;
    }
}

/* Pick the next thread to run and hand the baton to it. The caller has already set
 * its own state. Returns after the caller itself is chosen again (unless it is done). */
static void vs_schedule(int kind) {
    int self = vs_self;
    for (;;) {
        int enabled[VS_MAXT];
        int n = 0;
        int cur_enabled = 0;
        if (T[self].state != VS_DONE && thread_enabled(self)) {
            enabled[n++] = self;
            cur_enabled = 1;
        }
        for (int t = 0; t < VS_MAXT; t++) {
            if (t == self || T[t].state == VS_FREE || T[t].state == VS_DONE) continue;
            if (thread_enabled(t)) enabled[n++] = t;
        }
        if (n == 0) {
            /* nobody can run: let virtual time pass to the earliest armed timer */
            int64_t best = -1;
            int waiting = 0;
            for (int t = 0; t < VS_MAXT; t++) {
                if (T[t].state == VS_AT_POLL) {
                    waiting++;
                    if (T[t].timer_armed && *T[t].timer_armed && (best < 0 || *T[t].timer_when < best))
                        best = *T[t].timer_when;
                }
            }
            if (best >= 0) {
                vs_vtime_advance_to(best);
                continue;
            }
            int alive = 0;
            for (int t = 0; t < VS_MAXT; t++) if (T[t].state != VS_FREE && T[t].state != VS_DONE) alive++;
            if (alive == 0) return; /* everything finished (caller is the last thread, exiting) */
            for (int t = 0; t < VS_MAXT; t++) {
                if (T[t].state == VS_FREE || T[t].state == VS_DONE) continue;
                if (T[t].state == VS_AT_LOCK) {
                    int ms = mutex_slot(T[t].want);
                    fprintf(stderr, "vsched: thread %d waits for mutex %d held by thread %d\n", t, ms, M[ms].owner);
                } else if (T[t].state == VS_AT_POLL) {
                    fprintf(stderr, "vsched: thread %d waits in epoll_wait (no event, no timer)\n", t);
                } else {
                    fprintf(stderr, "vsched: thread %d state %d\n", t, T[t].state);
                }
            }
            vs_die("deadlock", 97);
        }
        int choice = 0;
        if (n > 1 || 1) {
            if (point_i >= horizon) vs_die("horizon", 96);
            if (point_i < prefix_n) {
                choice = prefix[point_i];
                if (choice < 0 || choice >= n) vs_die("harness-error:choice-out-of-range", 95);
            }
            trace[point_i].n_enabled = (unsigned char) n;
            trace[point_i].chosen = (unsigned char) choice;
            trace[point_i].cur_enabled = (unsigned char) cur_enabled;
            trace[point_i].kind = (unsigned char) kind;
            point_i++;
        }
        int next = enabled[choice];
        vs_cur = next;
        if (next == self) return;
        sem_post(&T[next].sem);
        if (T[self].state == VS_DONE) return;
        while (sem_wait(&T[self].sem) != 0 && errno == EINTR) {}
        return;
    }
}

/* generic always-enabled point */
void vs_point(int kind) {
    if (!vs_active() || vs_self < 0) return;
    T[vs_self].state = VS_AT_POINT;
    vs_schedule(kind);
    T[vs_self].state = VS_RUNNING;
}

/* ---- mutexes ---- */
int __wrap_pthread_mutex_lock(pthread_mutex_t *m) {
    if (!vs_active() || vs_self < 0) return __real_pthread_mutex_lock(m);
    int self = vs_self;
    T[self].state = VS_AT_LOCK;
    T[self].want = m;
    vs_schedule(1);
    /* we were chosen, so the mutex is free or ours */
    int s = mutex_slot(m);
    M[s].owner = self;
    M[s].depth++;
    T[self].state = VS_RUNNING;
    return __real_pthread_mutex_lock(m);
}

int __wrap_pthread_mutex_unlock(pthread_mutex_t *m) {
    if (!vs_active() || vs_self < 0) return __real_pthread_mutex_unlock(m);
    int self = vs_self;
    int s = mutex_slot(m);
    int r = __real_pthread_mutex_unlock(m);
    if (M[s].owner == self && M[s].depth > 0) {
        M[s].depth--;
        if (M[s].depth == 0) M[s].owner = -1;
    }
    vs_point(2);
    return r;
}

/* ---- atomics ---- */
JanetAtomicInt __wrap_janet_atomic_inc(JanetAtomicInt volatile *x) {
    vs_point(3);
    return __real_janet_atomic_inc(x);
}
JanetAtomicInt __wrap_janet_atomic_dec(JanetAtomicInt volatile *x) {
    vs_point(4);
    return __real_janet_atomic_dec(x);
}

/* ---- epoll (called from vmain's wrapper when active) ---- */
int vs_epoll_wait(int epfd, struct epoll_event *events, int maxevents, int *timer_armed, int64_t *timer_when, void *timerfd_ptr) {
    int self = vs_self;
    T[self].state = VS_AT_POLL;
    T[self].epfd = epfd;
    T[self].events = events;
    T[self].maxevents = maxevents;
    T[self].timer_armed = timer_armed;
    T[self].timer_when = timer_when;
    T[self].timerfd_ptr = timerfd_ptr;
    T[self].poll_result = 0;
    vs_schedule(5);
    T[self].state = VS_RUNNING;
    return T[self].poll_result;
}

/* ---- threads (called from vmain's pthread_create wrapper when active) ---- */
extern __thread uint32_t verif_sbx_floor;
typedef struct { void *(*fn)(void *); void *arg; int id; uint32_t sbx; } VStart;

static void *vs_trampoline(void *p) {
    VStart st = *(VStart *) p;
    free(p);
    vs_self = st.id;
    verif_sbx_floor = st.sbx;
    while (sem_wait(&T[st.id].sem) != 0 && errno == EINTR) {}
    T[st.id].state = VS_RUNNING;
    void *r = st.fn(st.arg);
    T[st.id].state = VS_DONE;
    vs_schedule(7);
    return r;
}

int vs_pthread_create(pthread_t *t, const pthread_attr_t *a, void *(*fn)(void *), void *arg) {
    int id = -1;
    for (int i = 1; i < VS_MAXT; i++) if (T[i].state == VS_FREE) { id = i; break; }
    if (id < 0) vs_die("harness-error:too-many-threads", 95);
    VStart *st = malloc(sizeof(VStart));
    st->fn = fn;
    st->arg = arg;
    st->id = id;
    st->sbx = janet_vm.sandbox_flags | verif_sbx_floor;
    sem_init(&T[id].sem, 0, 0);
    T[id].state = VS_NEW;
    vs_nthreads++;
    int r = __real_pthread_create(t, a, vs_trampoline, st);
    if (r != 0) {
        T[id].state = VS_FREE;
        free(st);
        return r;
    }
    vs_point(6);
    return 0;
}

/* natives */
static Janet v_sched_info(int32_t argc, Janet *argv) {
    (void) argv;
    janet_fixarity(argc, 0);
    Janet t[3] = { janet_wrap_boolean(vs_on), janet_wrap_number(point_i), janet_wrap_number(vs_nthreads) };
    return janet_wrap_tuple(janet_tuple_n(t, 3));
}

static const JanetReg sched_cfuns[] = {
    {"verif/sched-info", v_sched_info, "(verif/sched-info)\n\n[active points threads]."},
    {NULL, NULL, NULL}
};

void verif_register_sched(JanetTable *env) {
    janet_cfuns(env, NULL, sched_cfuns);
}
