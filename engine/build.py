#!/usr/bin/env python3
"""Content-hash keyed builds of /repo's working tree into build/<hash>/<variant>/vjanet.

Every check calls build.get(variant); any edit under /repo/src or in the
harness changes the hash, so checks always run the current tree.
Build failure raises BuildError (callers exit 2, never a VIOLATION).
"""
import fcntl
import hashlib
import os
import shutil
import subprocess
import sys
import time
from concurrent.futures import ThreadPoolExecutor

VERIF = os.path.dirname(os.path.dirname(os.path.abspath(__file__)))
REPO = os.environ.get("VERIF_REPO", "/repo")
BUILD = os.path.join(VERIF, "build")
HARNESS = os.environ.get("VERIF_HARNESS") or os.path.join(VERIF, "engine", "harness")
JOBS = int(os.environ.get("VERIF_JOBS", "16"))

COMMON = ["-std=gnu99", "-I%s/src/include" % REPO, "-I%s/src/conf" % REPO,
          "-fvisibility=hidden", "-DJANET_VERIF", "-w"]

VARIANTS = {
    "fast": dict(cc="gcc", cflags=["-O2"], ldflags=[]),
    "asan": dict(cc="clang", cflags=["-O1", "-g", "-fno-omit-frame-pointer", "-fsanitize=address"],
                 ldflags=["-fsanitize=address"]),
    "asan_dbg": dict(cc="clang", cflags=["-O1", "-g", "-fno-omit-frame-pointer", "-fsanitize=address",
                                         "-DJANET_DEBUG"],
                     ldflags=["-fsanitize=address"]),
    "tsan": dict(cc="clang", cflags=["-O1", "-g", "-fsanitize=thread"], ldflags=["-fsanitize=thread"]),
}

# harness translation units; ones listed in NOSAN are never sanitised
HARNESS_SRCS = ["vmain.c", "vextra.c", "sbxwrap.c", "iowrap.c", "vsched.c"]
NOSAN = {"vsched.c"}


class BuildError(Exception):
    pass


def _wraps():
    p = os.path.join(HARNESS, "wraps.txt")
    syms = []
    for line in open(p):
        line = line.split("#")[0].strip()
        if line:
            syms += line.split()
    return syms


def _hash_tree():
    h = hashlib.sha256()
    roots = [os.path.join(REPO, "src"), HARNESS]
    for root in roots:
        for d, dirs, files in sorted(os.walk(root)):
            dirs.sort()
            for f in sorted(files):
                p = os.path.join(d, f)
                h.update(os.path.relpath(p, root).encode())
                h.update(b"\0")
                with open(p, "rb") as fh:
                    h.update(fh.read())
                h.update(b"\0")
    h.update(repr(sorted(VARIANTS.items())).encode())
    h.update(repr(COMMON).encode())
    return h.hexdigest()[:16]


def _run(cmd, **kw):
    r = subprocess.run(cmd, stdout=subprocess.PIPE, stderr=subprocess.STDOUT, **kw)
    if r.returncode != 0:
        raise BuildError("command failed: %s\n%s" % (" ".join(cmd), r.stdout.decode(errors="replace")[-4000:]))
    return r


def _compile_many(jobs):
    with ThreadPoolExecutor(JOBS) as ex:
        for r in ex.map(lambda c: _run(c), jobs):
            pass


def _core_sources():
    d = os.path.join(REPO, "src", "core")
    return sorted(os.path.join(d, f) for f in os.listdir(d) if f.endswith(".c"))


def _boot_sources():
    d = os.path.join(REPO, "src", "boot")
    return sorted(os.path.join(d, f) for f in os.listdir(d) if f.endswith(".c"))


def _build_image(root):
    """boot interpreter -> core image C file (the Makefile's JANET_NO_AMALG path)."""
    bdir = os.path.join(root, "boot")
    img = os.path.join(bdir, "image.c")
    if os.path.exists(img):
        return img
    os.makedirs(bdir, exist_ok=True)
    flags = ["-DJANET_BOOTSTRAP", "-DJANET_BUILD=\"verif\"", "-O0", "-std=gnu99",
             "-I%s/src/include" % REPO, "-I%s/src/conf" % REPO, "-w"]
    objs, jobs = [], []
    for s in _core_sources() + _boot_sources():
        o = os.path.join(bdir, os.path.basename(s)[:-2] + ".boot.o")
        objs.append(o)
        jobs.append(["gcc"] + flags + ["-c", s, "-o", o])
    _compile_many(jobs)
    exe = os.path.join(bdir, "janet_boot")
    _run(["gcc", "-o", exe] + objs + ["-lm", "-lpthread", "-ldl", "-lrt"])
    r = subprocess.run([exe, REPO, "JANET_PATH", "/usr/local/lib/janet", "image-only"],
                       stdout=subprocess.PIPE, stderr=subprocess.PIPE)
    if r.returncode != 0 or len(r.stdout) < 1000:
        raise BuildError("janet_boot failed: %s" % r.stderr.decode(errors="replace")[-3000:])
    with open(img + ".tmp", "wb") as f:
        f.write(r.stdout)
    os.rename(img + ".tmp", img)
    for o in objs:
        os.unlink(o)
    return img


def _build_variant(root, variant):
    v = VARIANTS[variant]
    vdir = os.path.join(root, variant)
    exe = os.path.join(vdir, "vjanet")
    if os.path.exists(exe):
        return exe
    img = _build_image(root)
    os.makedirs(vdir, exist_ok=True)
    cc = v["cc"]
    objs, jobs = [], []
    for s in _core_sources() + [img]:
        o = os.path.join(vdir, os.path.basename(s)[:-2] + ".o")
        objs.append(o)
        jobs.append([cc] + COMMON + v["cflags"] + ["-c", s, "-o", o])
    for s in HARNESS_SRCS:
        p = os.path.join(HARNESS, s)
        if not os.path.exists(p):
            continue
        o = os.path.join(vdir, "h_" + s[:-2] + ".o")
        objs.append(o)
        cf = [f for f in v["cflags"] if not f.startswith("-fsanitize")] if s in NOSAN else v["cflags"]
        jobs.append([cc] + COMMON + cf + ["-iquote", "%s/src/core" % REPO, "-c", p, "-o", o])
    _compile_many(jobs)
    wraps = ["-Wl,--wrap=%s" % s for s in _wraps()]
    _run([cc] + v["ldflags"] + ["-rdynamic", "-o", exe + ".tmp"] + objs + wraps + ["-lm", "-lpthread", "-ldl", "-lrt"])
    os.rename(exe + ".tmp", exe)
    for o in objs:
        os.unlink(o)
    return exe


def _prune(keep):
    try:
        ds = [os.path.join(BUILD, d) for d in os.listdir(BUILD) if len(d) == 16]
    except FileNotFoundError:
        return
    ds.sort(key=lambda d: os.path.getmtime(d), reverse=True)
    for d in ds[keep:]:
        shutil.rmtree(d, ignore_errors=True)


def get(variant="fast"):
    """Return the path of vjanet for this variant, building it if needed."""
    os.makedirs(BUILD, exist_ok=True)
    h = _hash_tree()
    root = os.path.join(BUILD, h)
    exe = os.path.join(root, variant, "vjanet")
    if os.path.exists(exe):
        os.utime(root)
        return exe
    with open(os.path.join(BUILD, ".lock"), "w") as lk:
        fcntl.flock(lk, fcntl.LOCK_EX)
        try:
            os.makedirs(root, exist_ok=True)
            exe = _build_variant(root, variant)
            os.utime(root)
            _prune(24)
        finally:
            fcntl.flock(lk, fcntl.LOCK_UN)
    return exe


def main():
    vs = sys.argv[1:] or ["fast"]
    t = time.time()
    try:
        for v in vs:
            print(get(v))
    except BuildError as e:
        sys.stderr.write("BUILD FAILED\n%s\n" % e)
        sys.exit(2)
    sys.stderr.write("build: %.1fs\n" % (time.time() - t))


if __name__ == "__main__":
    main()
