#!/bin/sh
# Re-confirm every seeded defect against the current /repo HEAD and the current checks (quick tier).
# usage: engine/seedall.sh [--suite] [name ...]     (names like C06-4; default: all of seeded/)
# Runs against scratch trees write their evidence under build/other-tree/, not evidence/.
cd "$(dirname "$0")/.." || exit 2
suite="--no-suite"
[ "$1" = "--suite" ] && { suite=""; shift; }
names=${*:-$(ls seeded | grep -E '^C[0-9]+-[0-9]+$')}
for n in $names; do
  p=${n%-*}
  timeout 5400 python3 engine/seedtest.py $p /verif/seeded/$n $n $suite 2>&1 | grep -E '^\{"name"' | cut -c1-200
done
python3 engine/seedsummary.py | tail -1
