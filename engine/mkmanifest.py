#!/usr/bin/env python3
"""Regenerate MANIFEST.json from engine/manifest_table.py (single source of truth)."""
import json, os, sys
here = os.path.dirname(os.path.abspath(__file__))
sys.path.insert(0, here)
from manifest_table import CHECKS, NOT_APPLICABLE, HOOK_COMMITS, NOTES

verif = os.path.dirname(here)
checks = []
for c in CHECKS:
    pid = c["id"]
    checks.append({
        "property_id": pid,
        "quick_cmd": "bin/check %s --tier quick" % pid,
        "thorough_cmd": "bin/check %s --tier thorough" % pid,
        "evidence_file": "/verif/evidence/%s.json" % pid,
        "replay_cmd_template": c.get("replay", "/repo/_build/janet {path}"),
        "engine": c.get("engine", "vjanet+mc"),
        "level_claimed": {"category": c.get("category", "model_checking"), "text": c["text"], "design_ref": c.get("design_ref", "DESIGN.md §4 " + pid)},
        "level_note": c["note"],
        "technique": c["technique"],
    })
m = {
    "version": 1,
    "setup_cmd": "python3 engine/build.py fast asan asan_dbg tsan",
    "hooks": {
        "guard": "JANET_VERIF",
        "enable": "engine/build.py compiles /repo/src/core/*.c per file with -DJANET_VERIF and links the harness in engine/harness with -Wl,--wrap interposition",
        "baseline_off_cmd": "cd /repo && meson compile -C _build && meson test -C _build",
        "source_commits": HOOK_COMMITS,
        "add_only": True,
    },
    "engines": [
        {"name": "vjanet+mc", "path": "engine/", "serves_properties": [c["id"] for c in CHECKS],
         "kind_free_text": "real interpreter built per-file from /repo's working tree + harness (GC-schedule hook, virtual time, libc interposition, controlled thread scheduler) driven by Python explicit-state / deviation-bounded explorers with reference models"},
    ],
    "checks": checks,
    "notes": NOTES,
    "not_applicable": NOT_APPLICABLE,
}
with open(os.path.join(verif, "MANIFEST.json"), "w") as f:
    json.dump(m, f, indent=1)
    f.write("\n")
print("wrote MANIFEST.json with %d checks, %d not_applicable" % (len(checks), len(NOT_APPLICABLE)))
