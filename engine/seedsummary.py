#!/usr/bin/env python3
"""Regenerate seeded/README.md from seeded/*/meta.json."""
import json, os
here = os.path.dirname(os.path.dirname(os.path.abspath(__file__)))
rows = []
for name in sorted(os.listdir(os.path.join(here, "seeded"))):
    mp = os.path.join(here, "seeded", name, "meta.json")
    if not os.path.exists(mp):
        continue
    m = json.load(open(mp))
    notes = ""
    np_ = os.path.join(here, "seeded", name, "notes.md")
    what = ""
    if os.path.exists(np_):
        for line in open(np_):
            line = line.strip()
            if line and not line.startswith("#"):
                what = line[:160]
                break
    chk = m.get("checks", {})
    det = ", ".join("%s (%s tier, %.0f s)" % (p, m.get("tier", "quick"), c["wall_s"]) for p, c in chk.items() if c["exit"] == 1 and c["violation_lines"] > 0)
    sig = ""
    for p, c in chk.items():
        if c.get("first_sigs"):
            sig = c["first_sigs"][0][:140]
            break
    rows.append((name, m.get("property"), "yes" if m.get("confirmed_defect") else "NO", "pass" if not m.get("suite_failures") else "FAIL: %s" % m.get("suite_failures"),
                 det or "**not detected**", sig.replace("|", "/"), what.replace("|", "/")))
with open(os.path.join(here, "seeded", "README.md"), "w") as f:
    f.write("# Seeded defects (written by independent agents that saw only the property text)\n\n")
    f.write("Each directory holds patch.diff, the agent's demonstration, its notes and meta.json (what `engine/seedtest.py` "
            "ran: baseline demo passes, patched build passes janet's 31 suites, patched demo fails, then the property's check "
            "with VERIF_REPO pointing at the patched worktree).\n\n")
    f.write("| seed | property | defect confirmed | janet suites with patch | detected by | first signature | what it is |\n|---|---|---|---|---|---|---|\n")
    for r in rows:
        f.write("| " + " | ".join(str(x) for x in r) + " |\n")
print("%d seeds, %d detected" % (len(rows), sum(1 for r in rows if not r[4].startswith("**"))))
