#!/usr/bin/env python3
"""Confirm a seeded defect and run a property check against it.

usage: seedtest.py <prop> <seed-out-dir> <name> [--tier quick|thorough] [--no-suite] [--extra-check Cyy]

<seed-out-dir> contains patch.diff, demo.janet|demo.sh, notes.md (written by an independent agent that saw
only the property text). Steps, all in a scratch worktree of /repo under /tmp (removed afterwards):
  1. baseline build (make), demo must PASS (exit 0);
  2. apply patch, build, janet's 31 suites must pass (suite-ev retried alone), demo must FAIL (exit != 0 or timeout);
  3. run bin/check <prop> with VERIF_REPO=<worktree> and record whether it prints a VIOLATION line.
Result is stored in /verif/seeded/<name>/ (patch.diff, demo, notes.md, meta.json).
"""
import json
import os
import shutil
import subprocess
import sys
import tempfile
import time

VERIF = os.path.dirname(os.path.dirname(os.path.abspath(__file__)))


def sh(cmd, cwd=None, timeout=1800, env=None):
    try:
        r = subprocess.run(cmd, shell=True, cwd=cwd, capture_output=True, text=True, timeout=timeout, env=env)
        return r.returncode, r.stdout + r.stderr
    except subprocess.TimeoutExpired as e:
        return 124, "TIMEOUT\n" + ((e.stdout or b"").decode(errors="replace") if isinstance(e.stdout, bytes) else (e.stdout or ""))


def run_demo(wt, src):
    demo = None
    for cand in ("demo.sh", "demo.janet"):      # prefer the janet file when both exist
        if os.path.exists(os.path.join(src, cand)):
            demo = cand
    if demo is None:
        return None, "no demo"
    shutil.copy(os.path.join(src, demo), os.path.join(wt, "_" + demo))
    cmd = "timeout 180 build/janet _%s" % demo if demo.endswith(".janet") else "timeout 180 sh _%s" % demo
    rc, out = sh(cmd, cwd=wt, timeout=200)
    return rc, out[-800:]


def suites(wt):
    fails = []
    for t in sorted(os.listdir(os.path.join(wt, "test"))):
        if not (t.startswith("suite-") and t.endswith(".janet")):
            continue
        ok = False
        for attempt in range(4 if "suite-ev" in t else 1):
            env = dict(os.environ, JANET_TEST_PORT=str(20000 + os.getpid() % 20000))
            rc, out = sh("timeout 180 build/janet test/%s" % t, cwd=wt, timeout=200, env=env)
            if rc == 0:
                ok = True
                break
            time.sleep(2)
        if not ok:
            fails.append(t)
    return fails


def main():
    args = sys.argv[1:]
    prop, src, name = args[:3]
    tier = "quick"
    extra = []
    do_suite = "--no-suite" not in args
    if "--tier" in args:
        tier = args[args.index("--tier") + 1]
    while "--extra-check" in args:
        i = args.index("--extra-check")
        extra.append(args[i + 1])
        del args[i:i + 2]
    meta = {"property": prop, "name": name, "source_dir": src, "tier": tier}
    wt = tempfile.mkdtemp(prefix="seedchk_", dir="/tmp")
    os.rmdir(wt)
    subprocess.check_call(["git", "-C", "/repo", "worktree", "add", "-q", "--detach", wt, "HEAD"])
    try:
        rc, out = sh("make -j16 >/dev/null 2>&1; test -x build/janet", cwd=wt)
        if rc != 0:
            print("baseline build failed")
            return 2
        rc0, out0 = run_demo(wt, src)
        meta["demo_without_change"] = {"rc": rc0, "tail": out0}
        rc, out = sh("git apply %s" % os.path.join(src, "patch.diff"), cwd=wt)
        if rc != 0:
            rc, out = sh("git apply -3 %s || patch -p1 < %s" % (os.path.join(src, "patch.diff"), os.path.join(src, "patch.diff")), cwd=wt)
        meta["patch_applies"] = (rc == 0)
        if rc != 0:
            print("patch does not apply: %s" % out[-400:])
            meta["verdict"] = "patch-does-not-apply"
        else:
            rc, out = sh("make -j16 >/dev/null 2>&1; test -x build/janet", cwd=wt)
            meta["builds"] = (rc == 0)
            rc1, out1 = run_demo(wt, src)
            meta["demo_with_change"] = {"rc": rc1, "tail": out1}
            if do_suite:
                f = suites(wt)
                meta["suite_failures"] = f
            env = dict(os.environ, VERIF_REPO=wt)
            results = {}
            for p in [prop] + extra:
                t = time.time()
                rc, out = sh("bin/check %s --tier %s" % (p, tier), cwd=VERIF, timeout=3600, env=env)
                lines = out.split("\n")
                viol = [l for l in lines if l.startswith("VIOLATION")]
                sigs = [l.strip()[:300] for l in lines if l.startswith("  sig=")]
                results[p] = {"exit": rc, "violation_lines": len(viol), "first_sigs": sigs[:3], "wall_s": round(time.time() - t, 1),
                              "summary": [l for l in lines if l.startswith(p + " ")][-1:],
                              "tail": [l[:400] for l in lines if l.strip()][-4:] if rc not in (0, 1) else []}
            meta["checks"] = results
            confirmed = (rc0 == 0 and rc1 not in (0, None) and not meta.get("suite_failures"))
            meta["confirmed_defect"] = confirmed
            meta["detected_by"] = [p for p, r in results.items() if r["exit"] == 1 and r["violation_lines"] > 0]
        dst = os.path.join(VERIF, "seeded", name)
        os.makedirs(dst, exist_ok=True)
        for f in os.listdir(src):
            if f in ("patch.diff", "demo.janet", "demo.sh", "notes.md") and os.path.abspath(src) != os.path.abspath(dst):
                shutil.copy(os.path.join(src, f), os.path.join(dst, f))
        with open(os.path.join(dst, "meta.json"), "w") as f:
            json.dump(meta, f, indent=1)
        print(json.dumps({k: meta.get(k) for k in ("name", "patch_applies", "builds", "confirmed_defect", "detected_by", "suite_failures")}))
        for p, r in meta.get("checks", {}).items():
            print(p, r["exit"], r["violation_lines"], r["wall_s"], (r["first_sigs"] or [""])[0][:200])
        print("demo without:", meta["demo_without_change"]["rc"], "with:", meta.get("demo_with_change", {}).get("rc"))
    finally:
        subprocess.call(["git", "-C", "/repo", "worktree", "remove", "--force", wt])
        shutil.rmtree(wt, ignore_errors=True)
    return 0


if __name__ == "__main__":
    sys.exit(main())
