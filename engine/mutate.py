#!/usr/bin/env python3
"""Apply a textual mutation to a scratch worktree of /repo and run a check against it.

usage: mutate.py <Cxx> <file> <old-text> <new-text> [--tier quick] [--suite] [--only X]
The worktree lives under /tmp and is removed afterwards. Prints the check's VIOLATION / summary lines.
Used to demonstrate detection (DESIGN.md section 7); never touches /repo's working tree.
"""
import os
import subprocess
import sys
import tempfile
import shutil


def main():
    args = sys.argv[1:]
    prop, path, old, new = args[:4]
    rest = args[4:]
    suite = "--suite" in rest
    rest = [r for r in rest if r != "--suite"]
    wt = tempfile.mkdtemp(prefix="mut_%s_" % prop, dir="/tmp")
    os.rmdir(wt)
    subprocess.check_call(["git", "-C", "/repo", "worktree", "add", "-q", "--detach", wt, "HEAD"])
    try:
        p = os.path.join(wt, path)
        s = open(p).read()
        n = s.count(old)
        if n != 1:
            print("MUTATION NOT APPLIED: %d occurrences of the old text" % n)
            return 2
        open(p, "w").write(s.replace(old, new))
        if suite:
            r = subprocess.run("cd %s && make -j16 >/dev/null 2>&1 && for t in test/suite-*.janet; do timeout 120 build/janet $t >/dev/null 2>&1 || echo FAIL $t; done" % wt,
                               shell=True, capture_output=True, text=True)
            print("janet suite:", r.stdout.strip() or "all pass")
        env = dict(os.environ, VERIF_REPO=wt)
        verif = os.path.dirname(os.path.dirname(os.path.abspath(__file__)))
        r = subprocess.run([os.path.join(verif, "bin", "check"), prop] + (rest or ["--tier", "quick"]), env=env,
                           capture_output=True, text=True, cwd=verif)
        lines = [l for l in (r.stdout + r.stderr).split("\n") if l.startswith("VIOLATION") or l.startswith("  sig=") or l.startswith(prop) or "ERROR" in l]
        sigs = [l for l in lines if l.startswith("  sig=")]
        print("exit=%d violations_lines=%d" % (r.returncode, len([l for l in lines if l.startswith("VIOLATION")])))
        for l in sigs[:4]:
            print(l[:400])
        for l in lines:
            if l.startswith(prop) or "ERROR" in l:
                print(l[:400])
    finally:
        subprocess.call(["git", "-C", "/repo", "worktree", "remove", "--force", wt])
        shutil.rmtree(wt, ignore_errors=True)
    return 0


if __name__ == "__main__":
    sys.exit(main())
