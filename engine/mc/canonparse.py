"""Parser for the canonical text produced by drv/prelude.janet `canon`.

nil/true/false -> None/True/False; numbers -> int/float; "..." -> str (latin-1
decoded bytes); :kw -> Kw; 'sym -> Sym; (...) -> tuple; [...] -> BTuple (tuple
subclass); {...} -> dict (struct; proto under key PROTO); reference types
`#n=@[..]`, `#n=@{..}`, `#n=@".."`, `#n=<...>` -> Ref objects, `#n` -> the same
Ref object.
"""
from core import Kw, Sym


class BTuple(tuple):
    pass


class Ref:
    __slots__ = ("id", "kind", "val", "proto")

    def __init__(self, id):
        self.id, self.kind, self.val, self.proto = id, None, None, None

    def __repr__(self):
        return "#%d<%s %r>" % (self.id, self.kind, self.val if self.kind != "table" else "...")


PROTO = "^proto"


class _P:
    def __init__(self, s):
        self.s = s
        self.i = 0
        self.refs = {}

    def ws(self):
        while self.i < len(self.s) and self.s[self.i] == " ":
            self.i += 1

    def string(self):
        # at opening quote
        s = self.s
        self.i += 1
        out = []
        while s[self.i] != '"':
            c = s[self.i]
            if c == "\\":
                n = s[self.i + 1]
                if n == "x":
                    out.append(chr(int(s[self.i + 2:self.i + 4], 16)))
                    self.i += 4
                else:
                    out.append(n)
                    self.i += 2
            else:
                out.append(c)
                self.i += 1
        self.i += 1
        return "".join(out)

    def token(self):
        s = self.s
        j = self.i
        while j < len(s) and s[j] not in " ()[]{}^":
            if s[j] == "\\":
                j += 1
            j += 1
        t = s[self.i:j]
        self.i = j
        return t

    def seq(self, close):
        out = []
        while True:
            self.ws()
            if self.s[self.i] == close:
                self.i += 1
                return out
            out.append(self.value())

    def value(self):
        self.ws()
        s = self.s
        c = s[self.i]
        if c == "(":
            self.i += 1
            return tuple(self.seq(")"))
        if c == "[":
            self.i += 1
            return BTuple(self.seq("]"))
        if c == "{":
            self.i += 1
            items = self.seq("}")
            d = {}
            for k in range(0, len(items), 2):
                d[_hashable(items[k])] = items[k + 1]
            if self.i < len(s) and s[self.i] == "^":
                self.i += 1
                d[PROTO] = self.value()
            return d
        if c == '"':
            return self.string()
        if c == ":":
            self.i += 1
            return Kw(_unesc(self.token()))
        if c == "'":
            self.i += 1
            return Sym(_unesc(self.token()))
        if c == "#":
            j = self.i + 1
            while j < len(s) and s[j].isdigit():
                j += 1
            n = int(s[self.i + 1:j])
            self.i = j
            if self.i < len(s) and s[self.i] == "=":
                self.i += 1
                r = Ref(n)
                self.refs[n] = r
                c2 = s[self.i]
                if c2 == "@":
                    c3 = s[self.i + 1]
                    if c3 == "[":
                        self.i += 2
                        r.kind = "array"
                        r.val = self.seq("]")
                    elif c3 == "{":
                        self.i += 2
                        r.kind = "table"
                        items = self.seq("}")
                        r.val = {}
                        for k in range(0, len(items), 2):
                            r.val[_hashable(items[k])] = items[k + 1]
                        if self.i < len(s) and s[self.i] == "^":
                            self.i += 1
                            r.proto = self.value()
                    else:
                        self.i += 1
                        r.kind = "buffer"
                        r.val = self.string()
                elif c2 == "<":
                    j = s.index(">", self.i)
                    r.kind = "opaque"
                    r.val = s[self.i + 1:j]
                    self.i = j + 1
                else:
                    t = self.token()
                    r.kind = "boxed"
                    r.val = t
                return r
            return self.refs[n]
        t = self.token()
        if t == "nil":
            return None
        if t == "true":
            return True
        if t == "false":
            return False
        if t == "nan":
            return float("nan")
        if t == "inf":
            return float("inf")
        if t == "-inf":
            return float("-inf")
        if t == "-0":
            return -0.0
        try:
            return int(t)
        except ValueError:
            return float(t)


def _unesc(t):
    if "\\" not in t:
        return t
    out, i = [], 0
    while i < len(t):
        if t[i] == "\\":
            if t[i + 1] == "x":
                out.append(chr(int(t[i + 2:i + 4], 16)))
                i += 4
            else:
                out.append(t[i + 1])
                i += 2
        else:
            out.append(t[i])
            i += 1
    return "".join(out)


def _hashable(x):
    if isinstance(x, list):
        return tuple(_hashable(v) for v in x)
    if isinstance(x, dict):
        return tuple(sorted((repr(k), repr(v)) for k, v in x.items()))
    return x


def parse(text):
    p = _P(text)
    v = p.value()
    p.ws()
    if p.i != len(text):
        raise ValueError("trailing text in canon: %r" % text[p.i:p.i + 40])
    return v
