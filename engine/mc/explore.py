"""Explorers shared by the properties.

bfs_histories: explicit-state breadth-first search where a state is the
history that reaches it. Every candidate history of a layer is replayed on a
fresh object in the real interpreter (batched), the reference model takes the
same step, the observation is compared, and (model key) is de-duplicated.
"""
from core import HarnessError


class Mismatch(Exception):
    """raised by the `judge` callback: impl observation not allowed by the model"""

    def __init__(self, sig, what):
        Exception.__init__(self, what)
        self.sig = sig
        self.what = what


def bfs_histories(chk, init_model, actions, run_layer, judge, max_depth, label="",
                  max_states=None, on_violation=None, time_frac=0.9, stop_at=None):
    """
    init_model          model object with .key()
    actions(model)      -> list of actions enabled in this model state
    run_layer(hists)    -> list of observation traces (one per history; trace[i] = observation after action i)
    judge(model, action, obs) -> new model (or raises Mismatch)
    Returns dict(states, transitions, depth_completed).
    """
    seen = {init_model.key()}
    frontier = [([], init_model, [])]   # (history, model, recorded observation trace)
    states, transitions = 1, 0
    depth_completed = 0
    rate = None
    limit = chk.budget * time_frac if stop_at is None else min(stop_at, chk.budget * time_frac)
    for depth in range(1, max_depth + 1):
        if chk.elapsed() > limit:
            chk.cap("%s: stopped before depth %d (time slice)" % (label, depth))
            break
        cands = []
        for hist, model, trace in frontier:
            for a in actions(model):
                cands.append((hist, model, trace, a))
        if not cands:
            depth_completed = depth
            break
        # do not start a layer that cannot finish inside the budget (rate measured on earlier layers)
        if rate and len(cands) / rate > max(5.0, limit - chk.elapsed()):
            chk.cap("%s: depth %d (%d histories) skipped, would exceed the time budget" % (label, depth, len(cands)))
            break
        import time as _t
        t_layer = _t.time()
        traces = run_layer([h + [a] for h, _, _, a in cands])
        dt = _t.time() - t_layer
        if len(cands) >= 200 and dt > 0.5:
            rate = len(cands) / dt
        if len(traces) != len(cands):
            raise HarnessError("run_layer returned %d traces for %d histories" % (len(traces), len(cands)))
        nxt = []
        for (hist, model, trace, a), tr in zip(cands, traces):
            transitions += 1
            if tr is None or len(tr) != len(hist) + 1:
                raise HarnessError("%s: bad trace for history %r: %r" % (label, hist + [a], tr))
            if list(tr[:-1]) != list(trace):
                # The same prefix gave two different observations. On a tree that already violates the
                # property this is one more symptom (stale wakeups depend on what ran before); on a clean
                # tree it is a harness problem and must not be reported as a finding.
                if chk.violations > 0 and on_violation:
                    on_violation(hist + [a], Mismatch("nondeterministic-replay", "replaying the prefix gave %r, recorded %r" % (tr[:-1], trace)), tr)
                    continue
                raise HarnessError("%s: replay divergence on prefix of %r:\n recorded %r\n replayed %r" % (
                    label, hist + [a], trace, tr[:-1]))
            try:
                m2 = judge(model, a, tr[-1])
            except Mismatch as e:
                if on_violation:
                    on_violation(hist + [a], e, tr)
                continue
            k = m2.key()
            if k in seen:
                continue
            seen.add(k)
            states += 1
            nxt.append((hist + [a], m2, list(tr)))
        frontier = nxt
        depth_completed = depth
        if max_states and states > max_states:
            chk.cap("%s: state cap %d reached at depth %d" % (label, max_states, depth))
            break
        if not frontier:
            break
    return dict(states=states, transitions=transitions, depth_completed=depth_completed,
                frontier=len(frontier))
