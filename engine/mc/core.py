"""Shared plumbing for every property check: running vjanet, the batch runner,
Janet data emission, evidence, known findings, verdicts.

stdlib only.
"""
import argparse
import json
import os
import re
import shutil
import subprocess
import sys
import tempfile
import threading
import time
from concurrent.futures import ThreadPoolExecutor

_HERE = os.path.dirname(os.path.abspath(__file__))
VERIF = os.path.dirname(os.path.dirname(_HERE))
# Evidence and replay files describe /repo. A run against another tree (VERIF_REPO = a scratch worktree with a
# seeded change) keeps its files apart, under build/, so that it cannot pass for evidence about /repo.
_OTHER_TREE = os.path.realpath(os.environ.get("VERIF_REPO", "/repo")) != os.path.realpath("/repo")
OUT_ROOT = os.path.join(VERIF, "build", "other-tree") if _OTHER_TREE else VERIF
sys.path.insert(0, os.path.join(VERIF, "engine"))
import build as _build  # noqa: E402

REPO = _build.REPO
DRV = os.path.join(VERIF, "engine", "drv")
JOBS = int(os.environ.get("VERIF_JOBS", "16"))
TMPROOT = os.path.join(VERIF, "build", "tmp")

ASAN_OPTIONS = "detect_leaks=0:abort_on_error=0:exitcode=99:allocator_may_return_null=1:handle_abort=1:detect_stack_use_after_return=0"


# --------------------------------------------------------------------------
# Janet data notation from Python values

class Sym(str):
    pass


class Kw(str):
    pass


class Raw(str):
    pass


class Buf(bytes):
    pass


class Arr(list):
    pass


class Tab(dict):
    pass


def _jstr(b):
    if isinstance(b, str):
        b = b.encode("utf-8")
    out = ['"']
    for c in b:
        if c == 34:
            out.append('\\"')
        elif c == 92:
            out.append("\\\\")
        elif 32 <= c < 127:
            out.append(chr(c))
        else:
            out.append("\\x%02x" % c)
    out.append('"')
    return "".join(out)


def jdn(x):
    """Python value -> Janet source text (single line)."""
    if x is None:
        return "nil"
    if x is True:
        return "true"
    if x is False:
        return "false"
    if isinstance(x, Raw):
        return str(x)
    if isinstance(x, Sym):
        return str(x)
    if isinstance(x, Kw):
        return ":" + str(x)
    if isinstance(x, Buf):
        return "@" + _jstr(bytes(x))
    if isinstance(x, int):
        return str(x)
    if isinstance(x, float):
        if x != x:
            return "math/nan"
        if x == float("inf"):
            return "math/inf"
        if x == float("-inf"):
            return "math/-inf"
        return repr(x)
    if isinstance(x, (str, bytes)):
        return _jstr(x)
    if isinstance(x, Arr):
        return "@[" + " ".join(jdn(v) for v in x) + "]"
    if isinstance(x, list):
        return "[" + " ".join(jdn(v) for v in x) + "]"
    if isinstance(x, tuple):
        return "(" + " ".join(jdn(v) for v in x) + ")"
    if isinstance(x, Tab):
        return "@{" + " ".join(jdn(k) + " " + jdn(v) for k, v in x.items()) + "}"
    if isinstance(x, dict):
        return "{" + " ".join(jdn(k) + " " + jdn(v) for k, v in x.items()) + "}"
    raise TypeError("jdn: %r" % (x,))


# --------------------------------------------------------------------------
# running vjanet

class HarnessError(Exception):
    pass


BUILD_TIME = [0.0]   # seconds spent building; not charged to a check's exploration budget
_VJ_CACHE = {}
_VJ_LOCK = threading.Lock()


def vjanet(variant="fast"):
    """Path of the vjanet binary for this variant (built on first use, then pinned for the whole run
    so that a commit to /repo in the middle of a run cannot change the system under test)."""
    with _VJ_LOCK:
        if variant in _VJ_CACHE:
            return _VJ_CACHE[variant]
        t = time.time()
        try:
            exe = _build.get(variant)
        except _build.BuildError as e:
            sys.stderr.write("BUILD FAILED (exit 2)\n%s\n" % e)
            sys.stdout.flush()
            os._exit(2)
        finally:
            BUILD_TIME[0] += time.time() - t
        _VJ_CACHE[variant] = exe
        return exe


def base_env(extra=None):
    env = dict(os.environ)
    env["JANET_PATH"] = DRV
    env["ASAN_OPTIONS"] = ASAN_OPTIONS
    env["TSAN_OPTIONS"] = "exitcode=98:halt_on_error=0:second_deadlock_stack=1"
    env.pop("VERIF_GC", None)
    env.pop("VERIF_VTIME", None)
    if extra:
        env.update({k: str(v) for k, v in extra.items()})
    return env


class Result:
    __slots__ = ("rc", "out", "err", "timed_out", "wall")

    def __init__(self, rc, out, err, timed_out, wall):
        self.rc, self.out, self.err, self.timed_out, self.wall = rc, out, err, timed_out, wall

    @property
    def crashed(self):
        """killed by a signal, sanitizer report, or abort"""
        return self.rc < 0 or self.rc in (98, 99) or self.rc >= 128

    def describe(self):
        return "rc=%s timed_out=%s err=%s" % (self.rc, self.timed_out, self.err[-1500:].decode(errors="replace"))


MEM_LIMIT = int(os.environ.get("VERIF_MEM_LIMIT_MB", "6000")) * 1024 * 1024


try:
    import ctypes
    _libc = ctypes.CDLL(None, use_errno=True)
except Exception:       # pragma: no cover
    _libc = None


def _die_with_parent():
    """child side: SIGKILL when the check that started this process goes away (a killed check must not leave
    blocked interpreters behind; every child is its own session, so nothing else would reach it)"""
    if _libc is not None:
        try:
            _libc.prctl(1, 9, 0, 0, 0)      # PR_SET_PDEATHSIG, SIGKILL
        except Exception:
            pass


def _limit_memory():
    import resource
    _die_with_parent()
    try:
        resource.setrlimit(resource.RLIMIT_AS, (MEM_LIMIT, MEM_LIMIT))
    except (ValueError, OSError):
        pass


def run(exe, args, env=None, stdin=b"", timeout=60, cwd=None):
    """Run one vjanet process. Returns Result (bytes). Unsanitised variants run under an
    address-space limit so that a runaway allocation ends in janet's out-of-memory exit
    instead of exhausting the machine (sanitizers reserve terabytes of shadow, so not there)."""
    t = time.time()
    sanitized = "/asan" in exe or "/tsan" in exe
    p = subprocess.Popen([exe] + list(args), stdin=subprocess.PIPE, stdout=subprocess.PIPE,
                         stderr=subprocess.PIPE, env=base_env(env), cwd=cwd,
                         start_new_session=True, preexec_fn=_die_with_parent if sanitized else _limit_memory)
    try:
        out, err = p.communicate(stdin, timeout=timeout)
        to = False
    except subprocess.TimeoutExpired:
        try:
            os.killpg(p.pid, 9)
        except ProcessLookupError:
            pass
        out, err = p.communicate()
        to = True
    return Result(p.returncode, out, err, to, time.time() - t)


def run_script(variant, text, args=(), env=None, timeout=60, stdin=b"", keep=None):
    """Write `text` to a temp .janet file and run it."""
    d = mktmp()
    try:
        path = os.path.join(d, "s.janet")
        with open(path, "w") as f:
            f.write(text)
        return run(vjanet(variant), [path] + list(args), env=env, timeout=timeout, stdin=stdin)
    finally:
        shutil.rmtree(d, ignore_errors=True)


def mktmp():
    os.makedirs(TMPROOT, exist_ok=True)
    return tempfile.mkdtemp(dir=TMPROOT)


def pmap(fn, items, jobs=None):
    """Ordered parallel map with threads (work is subprocess-bound)."""
    items = list(items)
    if not items:
        return []
    with ThreadPoolExecutor(jobs or JOBS) as ex:
        return list(ex.map(fn, items))


# --------------------------------------------------------------------------
# batch runner

def _parse_out(path):
    res = {}
    begun = -1
    done = False
    fatal = None
    try:
        with open(path, "rb") as f:
            data = f.read()
    except FileNotFoundError:
        return res, begun, done, fatal
    # a worker that died may leave a cut-off last line (stdio flush boundary): only complete lines count
    for line in data.split(b"\n")[:-1]:
        if not line:
            continue
        if line == b"DONE":
            done = True
            continue
        parts = line.split(b"\t", 2)
        if len(parts) < 2:
            continue
        try:
            i = int(parts[0])
        except ValueError:
            continue
        if parts[1] == b"BEGIN":
            begun = i
        elif parts[1] in (b"OK", b"ERR") and len(parts) == 3:
            res[i] = (parts[1].decode(), parts[2].decode("utf-8", errors="surrogateescape"))
        elif parts[1] == b"FATAL":
            fatal = line.decode(errors="replace")
    return res, begun, done, fatal


class _Deaths:
    """shared budget of dead workers (crash/timeout) for one run_batch call"""

    def __init__(self, limit):
        self.limit = limit
        self.n = 0
        self.lock = threading.Lock()

    def exhausted(self):
        return self.limit is not None and self.n >= self.limit

    def add(self):
        with self.lock:
            self.n += 1


def _run_chunk(exe, driver, items, env, timeout, extra_args, deaths=None):
    """Run items through the driver; returns list of (status, text) with
    status in OK / ERR / CRASH / TIMEOUT. Crashes are attributed to one item
    by re-running with per-item flushing."""
    out = [None] * len(items)
    offset = 0
    trace = False
    d = mktmp()
    try:
        while offset < len(items):
            if deaths is not None and deaths.exhausted():
                for i in range(offset, len(items)):
                    out[i] = ("SKIPPED", "not run: too many dead workers in this batch")
                break
            sub = items[offset:]
            ip, op = os.path.join(d, "items.jdn"), os.path.join(d, "out.txt")
            with open(ip, "w") as f:
                f.write("\n".join(sub))
                f.write("\n")
            if os.path.exists(op):
                os.unlink(op)
            e = dict(env or {})
            if trace:
                e["VERIF_BATCH_TRACE"] = "1"
            r = run(exe, [driver, ip, op] + list(extra_args), env=e,
                    timeout=timeout * (1 + len(sub) // 200))
            res, begun, done, fatal = _parse_out(op)
            if fatal:
                raise HarnessError("batch driver fatal: %s" % fatal)
            if done and not r.crashed and not r.timed_out:
                if len(res) != len(sub):
                    raise HarnessError("batch driver %s: %d results for %d items; stderr=%s" % (
                        driver, len(res), len(sub), r.err[-2000:].decode(errors="replace")))
                for i, v in res.items():
                    out[offset + i] = v
                break
            if not trace:
                # keep the results that are certainly complete, redo the rest with tracing
                n = 0
                while n in res:
                    out[offset + n] = res[n]
                    n += 1
                # the unflushed tail may hide completed items: rerun from n with trace
                offset += n
                trace = True
                continue
            # traced run: item `begun` is the culprit
            n = 0
            while n in res:
                out[offset + n] = res[n]
                n += 1
            if begun < n:
                # died between items (e.g. at exit) -- attribute to the batch end
                if n == 0 and not res and not r.timed_out:
                    # nothing was processed at all: the interpreter under test could not load or start the driver, a
                    # fixed, valid Janet program that runs on the unchanged tree
                    raise DriverStartupError("the driver program %s does not run on this tree: %s" % (driver, r.describe()))
                if r.crashed and not r.timed_out and n > 0:
                    # killed by a signal between two items or while exiting (typically the allocator aborting on a heap
                    # that an earlier call corrupted): the driver is a fixed program that ends normally on the unchanged
                    # tree, so this is a failure of the interpreter under test. It is attributed to the last item that
                    # completed before the death (the culprit is that one or an earlier one of this chunk).
                    out[offset + n - 1] = ("CRASH", "driver died after this item, outside any item (heap damaged by this or an "
                                           "earlier call of the chunk?): " + r.describe())
                    if deaths is not None:
                        deaths.add()
                    offset += n
                    continue
                raise HarnessError("batch driver %s died outside an item: %s" % (driver, r.describe()))
            kind = "TIMEOUT" if r.timed_out else "CRASH"
            out[offset + n] = (kind, r.describe())
            if deaths is not None:
                deaths.add()
            offset += n + 1
    finally:
        shutil.rmtree(d, ignore_errors=True)
    return out


def run_batch(variant, driver, items, env=None, chunk=1000, timeout=120, extra_args=(), jobs=None, max_deaths=None):
    """items: list of single-line Janet forms (strings). Returns list of (status, text).
    max_deaths: after that many crashed/hung workers the remaining items come back as SKIPPED
    (a tree on which everything hangs would otherwise cost a timeout per item)."""
    exe = vjanet(variant)
    items = list(items)
    for it in items:
        if "\n" in it:
            raise HarnessError("batch item contains a newline")
    chunks = [items[i:i + chunk] for i in range(0, len(items), chunk)]
    deaths = _Deaths(max_deaths)
    results = pmap(lambda c: _run_chunk(exe, driver, c, env, timeout, extra_args, deaths), chunks, jobs)
    flat = []
    for r in results:
        flat.extend(r)
    return flat


# --------------------------------------------------------------------------
# known findings

def load_known():
    known = {}
    fixed = []
    p = os.path.join(VERIF, "known_findings.txt")
    if not os.path.exists(p):
        return known, fixed
    for line in open(p):
        line = line.strip()
        if not line or line.startswith("#"):
            continue
        m = re.match(r"finding:\s+property=(\S+)\s+sig=(\S+)\s+(.*)$", line)
        if m:
            known[(m.group(1), m.group(2))] = m.group(3)
            continue
        m = re.match(r"fixed:\s+property=(\S+)\s+(\S+)\s+(.*)$", line)
        if m:
            fixed.append((m.group(1), m.group(2), m.group(3)))
    return known, fixed


# --------------------------------------------------------------------------
# the check object

class Check:
    current = None      # the check object of this process (harness_guard consults it)

    def __init__(self, prop, level="model_checking", argv=None, description=""):
        ap = argparse.ArgumentParser(description=description or prop)
        ap.add_argument("--tier", default=os.environ.get("VERIF_TIER", "quick"), choices=["quick", "thorough"])
        ap.add_argument("--replay", default=None)
        ap.add_argument("--budget", type=float, default=None, help="soft deadline in seconds")
        ap.add_argument("--only", default=None, help="restrict to a sub-check (debugging)")
        self.args = ap.parse_args(argv)
        self.prop = prop
        self.level = level
        self.tier = self.args.tier
        self.seed = int(os.environ.get("VERIF_SEED", "0") or 0)
        self.t0 = time.time()
        default_budget = 240 if self.tier == "quick" else 1500
        self.budget = self.args.budget or float(os.environ.get("VERIF_BUDGET", default_budget))
        self.cov = dict(states=0, transitions=0, traces_validated_against_impl=0, evaluations=0,
                        distinct_nontrivial=0, rule="", samples=[], exhaustive=True, bound_completed="",
                        caps_hit=[], distinct_outcomes=0, parts={})
        self.outcomes = set()
        self.nontrivial = set()
        self.assumptions = []
        self.violations = 0
        self.known, self.fixed = load_known()
        Check.current = self
        self.known_printed = set()
        self.viol_sigs = set()
        self.lock = threading.Lock()
        self.quick = self.tier == "quick"

    # -- time
    def elapsed(self):
        return time.time() - self.t0 - BUILD_TIME[0]

    def out_of_time(self, frac=1.0):
        return self.elapsed() > self.budget * frac

    def cap(self, what):
        """Record that a bound was not completed."""
        with self.lock:
            self.cov["exhaustive"] = False
            if what not in self.cov["caps_hit"]:
                self.cov["caps_hit"].append(what)

    # -- counters
    def add(self, **kw):
        with self.lock:
            for k, v in kw.items():
                self.cov[k] = self.cov.get(k, 0) + v

    def part(self, name, **kw):
        with self.lock:
            d = self.cov["parts"].setdefault(name, {})
            for k, v in kw.items():
                if isinstance(v, (int, float)) and not isinstance(v, bool):
                    d[k] = d.get(k, 0) + v
                else:
                    d[k] = v

    def outcome(self, key, nontrivial=True):
        with self.lock:
            self.outcomes.add(key)
            if nontrivial:
                self.nontrivial.add(key)

    def sample(self, x, limit=6):
        with self.lock:
            if len(self.cov["samples"]) < limit:
                self.cov["samples"].append(x)

    def rule(self, text):
        self.cov["rule"] = text

    def assume(self, text):
        if text not in self.assumptions:
            self.assumptions.append(text)

    # -- verdicts
    def violation(self, sig, what, replay_text=None, replay_ext=".janet", replay_cmd=None):
        """Report one violation with stable signature `sig`.
        Known findings print KNOWN-FINDING once and do not count."""
        with self.lock:
            key = (self.prop, sig)
            if key in self.known:
                if key not in self.known_printed:
                    self.known_printed.add(key)
                    print("KNOWN-FINDING: property=%s %s [sig=%s]" % (self.prop, self.known[key], sig))
                    sys.stdout.flush()
                return False
            if sig in self.viol_sigs:
                self.violations += 1
                return True
            self.viol_sigs.add(sig)
            self.violations += 1
            rd = os.path.join(OUT_ROOT, "replays")
            os.makedirs(rd, exist_ok=True)
            safe = re.sub(r"[^A-Za-z0-9_.-]+", "_", sig)[:80]
            path = os.path.join(rd, "%s_%s%s" % (self.prop, safe, replay_ext))
            with open(path, "w") as f:
                if replay_ext == ".janet":
                    f.write("# property %s violation: %s\n# signature: %s\n" % (self.prop, what.replace("\n", " ")[:500], sig))
                    if replay_cmd:
                        f.write("# replay: %s\n" % replay_cmd)
                f.write(replay_text or "")
            print("VIOLATION property=%s replay=%s" % (self.prop, path))
            print("  sig=%s %s" % (sig, what[:1000]))
            sys.stdout.flush()
            return True

    def finish(self):
        self.cov["distinct_outcomes"] = len(self.outcomes)
        self.cov["distinct_nontrivial"] = max(self.cov.get("distinct_nontrivial", 0), len(self.nontrivial))
        if self.cov["traces_validated_against_impl"] == 0:
            self.cov["traces_validated_against_impl"] = self.cov["evaluations"]
        ev = dict(property_id=self.prop, tier=self.tier, seed=self.seed, level=self.level,
                  coverage=self.cov, assumptions=self.assumptions,
                  wall_s=round(time.time() - self.t0, 2), violations=self.violations)
        os.makedirs(os.path.join(OUT_ROOT, "evidence"), exist_ok=True)
        p = os.path.join(OUT_ROOT, "evidence", "%s.json" % self.prop)
        with open(p + ".tmp", "w") as f:
            json.dump(ev, f, indent=1, default=str)
        os.rename(p + ".tmp", p)
        c = self.cov
        print("%s %s: states=%d transitions=%d evaluations=%d outcomes=%d exhaustive=%s caps=%s violations=%d wall=%.1fs" % (
            self.prop, self.tier, c["states"], c["transitions"], c["evaluations"], c["distinct_outcomes"],
            c["exhaustive"], c["caps_hit"], self.violations, time.time() - self.t0))
        sys.stdout.flush()
        sys.exit(1 if self.violations else 0)


class DriverStartupError(HarnessError):
    """the interpreter built from the tree under test fails on the check's own driver before any item is run"""


def harness_guard(fn):
    """Run a check's main; harness errors exit 3 (never a VIOLATION line). Exception: when violations have already
    been reported in this run, an internal inconsistency met afterwards (a driver that dies, an outcome that does not
    reproduce, ...) is most likely one more symptom of the same broken tree: the run is closed as a capped run with the
    violations found so far (exit 1) instead of hiding them behind exit 3."""
    try:
        fn()
    except HarnessError as e:
        chk = Check.current
        if chk is not None and isinstance(e, DriverStartupError):
            # A valid program (the driver and the prelude it imports) is rejected or dies on this tree. It is reported
            # as a violation: the interpreter misbehaves on an input that the unchanged tree runs. (If the cause were the
            # installation - a missing file, an unwritable directory - the check is broken either way.)
            chk.violation("driver-program-fails", "%s" % str(e)[:1500],
                          "# the interpreter built from this tree cannot run the check's driver (engine/drv/prelude.janet + the "
                          "property's driver), which the unchanged tree runs; error:\n# %s\n" % str(e)[:1500].replace("\n", "\n# "))
            chk.cap("no exploration: the driver does not run on this tree")
            chk.finish()
        if chk is not None and chk.violations > 0:
            print("NOTE: stopped early after %d violation(s): %s" % (chk.violations, str(e)[:600]))
            chk.cap("stopped early: inconsistent harness state after violations were found (%s)" % str(e)[:200])
            chk.finish()
        sys.stderr.write("HARNESS ERROR: %s\n" % e)
        sys.exit(3)
