"""Reference model of single-threaded Janet channels (DESIGN.md Appendix A.1).

Spec level: stale registrations (a fiber whose wait already ended) are inert.
The model is deterministic FIFO except for ev/rselect, where any ready clause
may be chosen, so `step` returns a list of candidate outcomes.

Values are opaque unique ints. Results are written exactly as the driver
prints them (after canon parsing):
  give   -> Kw('c0')          take -> value | None
  select -> (Kw('give'), Kw('c0')) | (Kw('take'), Kw('c0'), v) | (Kw('close'), Kw('c0'))
  close  -> Kw('c0')          error -> ('error',)
"""
import copy
import itertools
import os
import sys

sys.path.insert(0, os.path.join(os.path.dirname(os.path.abspath(__file__)), "..", "..", "engine", "mc"))
from core import Kw  # noqa: E402

ERR = ("error",)


def cname(c):
    return Kw("c%d" % c)


class Chan:
    __slots__ = ("cap", "closed", "items", "readers")

    def __init__(self, cap):
        self.cap = cap
        self.closed = False
        self.items = []    # [value, owner] ; owner = None | (w, wid, mode)
        self.readers = []  # (w, wid, mode)


class Model:
    def __init__(self, caps, nworkers):
        self.ch = [Chan(c) for c in caps]
        self.nw = nworkers
        self.wait = {}        # w -> (wid, opdesc)
        self.nextwid = 0
        self.given = {}       # value -> (giver, chan, seq)
        self.received = set()
        self.lastseq = {}     # (giver, taker, chan) -> last seq received
        self.giveseq = 0
        # hidden implementation state that the abstract channel cannot see: position of the items ring
        # buffer (4 slots initially). With ring_key the canonical key keeps enqueues/dequeues mod 4 so that
        # histories differing only in the ring position are explored separately.
        self.ring_key = False
        self.enq = [0] * len(caps)
        self.deq = [0] * len(caps)

    def clone(self):
        return copy.deepcopy(self)

    # ---- helpers
    def live(self, ent):
        if ent is None:
            return False
        w, wid, _ = ent
        return w in self.wait and self.wait[w][0] == wid

    def idle(self):
        return [w for w in range(self.nw) if w not in self.wait]

    def blocked(self):
        return sorted(self.wait)

    def _note_give(self, w, c, v):
        self.given[v] = (w, c, self.giveseq)
        self.giveseq += 1

    def _note_recv(self, taker, c, v):
        """conservation / order bookkeeping; returns error text or None"""
        if v not in self.given:
            return "value %r received but never given" % (v,)
        if v in self.received:
            return "value %r received twice" % (v,)
        g, gc, seq = self.given[v]
        if gc != c:
            return "value %r given on c%d received on c%d" % (v, gc, c)
        self.received.add(v)
        k = (g, taker, c)
        if self.lastseq.get(k, -1) > seq:
            return "order violated between giver %d and taker %d on c%d" % (g, taker, c)
        self.lastseq[k] = seq
        return None

    def _finish(self, ent, result, comps):
        """complete the blocked operation of entry `ent` with result"""
        w = ent[0]
        del self.wait[w]
        comps.append((w, result))

    # ---- primitive channel moves (spec)
    def _live_reader(self, c):
        ch = self.ch[c]
        while ch.readers and not self.live(ch.readers[0]):
            ch.readers.pop(0)   # stale readers are inert and skipped
        return ch.readers[0] if ch.readers else None

    def _do_give(self, w, c, v, mode, wid, comps):
        """returns True if completed at once, False if w must block (entry registered)"""
        ch = self.ch[c]
        self._note_give(w, c, v)
        r = self._live_reader(c)
        if r is not None:
            ch.readers.pop(0)
            msg = self._note_recv(r[0], c, v)
            assert msg is None, msg
            self._finish(r, v if r[2] == "plain" else (Kw("take"), cname(c), v), comps)
            return True
        ch.items.append([v, None])
        self.enq[c] += 1
        if len(ch.items) > ch.cap:
            ch.items[-1][1] = (w, wid, mode)
            return False
        return True

    def _do_take(self, w, c, comps):
        """precondition: items non-empty, not closed. returns value"""
        ch = self.ch[c]
        idx = ch.cap
        rel = ch.items[idx][1] if idx < len(ch.items) else None
        if idx < len(ch.items):
            ch.items[idx][1] = None
        v, _ = ch.items.pop(0)
        self.deq[c] += 1
        msg = self._note_recv(w, c, v)
        assert msg is None, msg
        if self.live(rel):
            self._finish(rel, cname(c) if rel[2] == "plain" else (Kw("give"), cname(c)), comps)
        return v

    # ---- operations; each returns list of candidate (completions, model)
    def step(self, w, op):
        assert w not in self.wait
        kind = op[0]
        if kind == "give":
            return [self.clone()._give(w, op[1], op[2])]
        if kind == "take":
            return [self.clone()._take(w, op[1])]
        if kind == "close":
            return [self.clone()._close(w, op[1])]
        if kind == "select":
            return [self.clone()._select(w, list(op[1]))]
        if kind == "rselect":
            outs = []
            seen = set()
            for perm in itertools.permutations(op[1]):
                m = self.clone()
                comps, m2 = m._select(w, list(perm))
                k = (tuple(sorted(map(repr, comps))), m2.key())
                if k not in seen:
                    seen.add(k)
                    outs.append((comps, m2))
            return outs
        raise ValueError(op)

    def _give(self, w, c, v):
        comps = []
        if self.ch[c].closed:
            comps.append((w, ERR))
            return comps, self
        wid = self.nextwid
        self.nextwid += 1
        if self._do_give(w, c, v, "plain", wid, comps):
            comps.insert(0, (w, cname(c)))
        else:
            self.wait[w] = (wid, ("give", c))
        return comps, self

    def _take(self, w, c):
        comps = []
        ch = self.ch[c]
        if ch.closed:
            comps.append((w, None))
            return comps, self
        if ch.items:
            v = self._do_take(w, c, comps)
            comps.insert(0, (w, v))
            return comps, self
        wid = self.nextwid
        self.nextwid += 1
        ch.readers.append((w, wid, "plain"))
        self.wait[w] = (wid, ("take", c))
        return comps, self

    def _select(self, w, clauses):
        comps = []
        # pass 1: first ready clause in order
        for cl in clauses:
            c = cl[1]
            ch = self.ch[c]
            if ch.closed:
                comps.append((w, (Kw("close"), cname(c))))
                return comps, self
            if cl[0] == "g":
                if self._live_reader(c) is not None or len(ch.items) < ch.cap:
                    ok = self._do_give(w, c, cl[2], "choice", -1, comps)
                    assert ok
                    comps.insert(0, (w, (Kw("give"), cname(c))))
                    return comps, self
            else:
                if ch.items:
                    v = self._do_take(w, c, comps)
                    comps.insert(0, (w, (Kw("take"), cname(c), v)))
                    return comps, self
        # pass 2: register on every clause
        wid = self.nextwid
        self.nextwid += 1
        self.wait[w] = (wid, ("select", tuple((cl[0], cl[1]) for cl in clauses)))
        for cl in clauses:
            c = cl[1]
            ch = self.ch[c]
            if cl[0] == "g":
                ok = self._do_give(w, c, cl[2], "choice", wid, comps)
                assert not ok
            else:
                ch.readers.append((w, wid, "choice"))
        return comps, self

    def _close(self, w, c):
        comps = [(w, cname(c))]
        ch = self.ch[c]
        if ch.closed:
            return comps, self
        ch.closed = True
        for it in ch.items[ch.cap:]:
            ent = it[1]
            it[1] = None
            if self.live(ent):
                self._finish(ent, None if ent[2] == "plain" else (Kw("close"), cname(c)), comps)
        for ent in ch.readers:
            if self.live(ent):
                self._finish(ent, None if ent[2] == "plain" else (Kw("close"), cname(c)), comps)
        ch.readers = []
        return comps, self

    # ---- observation the implementation must show at quiescence
    def chan_obs(self):
        return tuple((len(ch.items), len(ch.items) >= ch.cap, ch.cap) for ch in self.ch)

    def worker_obs(self):
        return tuple(Kw("blocked") if w in self.wait else Kw("idle") for w in range(self.nw))

    # ---- canonical key (values renamed by first appearance, wait ids by liveness)
    def key(self):
        ren = {}

        def rv(v):
            if v not in ren:
                ren[v] = len(ren)
            return ren[v]

        def ent(e):
            if e is None:
                return None
            return (e[0], e[2]) if self.live(e) else ("stale", e[2])

        chans = []
        for ch in self.ch:
            chans.append((ch.cap, ch.closed,
                          tuple((rv(v), ent(o), self.given[v][0]) for v, o in ch.items),
                          tuple(ent(e) for e in ch.readers)))
        waits = tuple((w, self.wait[w][1]) for w in sorted(self.wait))
        # order bookkeeping that can still matter: last seq per (giver,taker,chan) relative to queued items
        ring = tuple((self.enq[i] % 4, self.deq[i] % 4) for i in range(len(self.ch))) if self.ring_key else ()
        return (tuple(chans), waits, ring)
