# K3 director: worker fibers parked at (yield), a director (the calling fiber)
# that starts one operation on one idle worker at a time and observes the
# system at quiescence. Shared by C06 / C07 / C20 / C16 drivers.
#
# (director/new n-workers) -> world table
# (director/start world w opid thunk)   start thunk on idle worker w
# (director/quiesce world)              run the event loop until nothing moves
# (director/observe world)              -> {:workers [...] :done [...] :spurious [...]}

(defn new-world [nworkers]
  (def world @{:progress 0 :state @{} :done @[] :spurious @[] :workers @[] :cur @{}})
  (for w 0 nworkers
    (def fib
      (ev/go
        (fn worker []
          (forever
            (def x (yield :parked))
            (put world :progress (inc (world :progress)))
            (if (and (tuple? x) (= (get x 0) :verif-op))
              (do
                (def [_ opid thunk] x)
                (put (world :state) w :busy)
                (put (world :cur) w opid)
                (def r (try [:ok (thunk)] ([e] [:error (if (bytes? e) (string e) e)])))
                (put world :progress (inc (world :progress)))
                (array/push (world :done) [w opid r (verif/now)])
                (put (world :cur) w nil)
                (put (world :state) w :idle))
              # resumed by something that is not the director: a spurious wakeup
              (array/push (world :spurious) [w :parked x]))))))
    (put (world :state) w :idle)
    (array/push (world :workers) fib))
  world)

(defn quiesce
  "Let the event loop run until no worker makes progress. One (ev/sleep 0)
  drains the whole run queue (janet_loop1 runs every scheduled fiber before it
  polls); we repeat until the progress counter is stable."
  [world]
  (var last -1)
  (var rounds 0)
  (while (not= last (world :progress))
    (set last (world :progress))
    (ev/sleep 0)
    (ev/sleep 0)
    (++ rounds)
    (when (> rounds 200) (error "director: no quiescence after 200 rounds")))
  rounds)

(defn start
  "Start thunk as operation opid on idle worker w."
  [world w opid thunk]
  (unless (= :idle (get (world :state) w)) (errorf "director: worker %d is not idle" w))
  (ev/go (get (world :workers) w) [:verif-op opid thunk]))

(defn worker-status [world w]
  (def fib (get (world :workers) w))
  (def st (get (world :state) w))
  (def fs (fiber/status fib))
  (cond
    (= fs :dead) :dead
    (= fs :error) :dead
    (= st :idle) :idle
    :blocked))

(defn observe
  "Snapshot since the last observe: worker states, completions (in order), spurious wakeups."
  [world]
  (def res {:workers (tuple ;(seq [w :range [0 (length (world :workers))]] (worker-status world w)))
            :done (tuple ;(world :done))
            :spurious (tuple ;(world :spurious))})
  (array/clear (world :done))
  (array/clear (world :spurious))
  res)
