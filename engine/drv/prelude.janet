# Driver prelude: canonical printer and batch protocol shared by every
# property driver. Loaded through JANET_PATH (see engine/mc/core.py).

(defn- hexbytes [b into]
  (each c b
    (cond
      (= c 34) (buffer/push into "\\\"")
      (= c 92) (buffer/push into "\\\\")
      (and (>= c 32) (< c 127)) (buffer/push-byte into c)
      (buffer/format into "\\x%02x" c))))

(defn canon-num [x]
  (cond
    (not= x x) "nan"
    (= x math/inf) "inf"
    (= x (- math/inf)) "-inf"
    (and (= x 0) (< (/ 1 x) 0)) "-0"
    (and (= x (math/trunc x)) (< (math/abs x) 1e15)) (string/format "%d" x)
    (string/format "%.17g" x)))

(defn- type-rank [x]
  (case (type x)
    :nil 0 :boolean 1 :number 2 :string 3 :symbol 4 :keyword 5
    :tuple 6 :struct 7 :buffer 8 :array 9 :table 10 11))

(varfn canon-into [x into seen] nil)

(defn- canon-plain [x]
  (def b @"")
  (canon-into x b @{})
  (string b))

(defn- sorted-pairs [ds]
  # sort by (type rank, canonical text of the key)
  (def ks (seq [k :keys ds] [(type-rank k) (canon-plain k) k]))
  (sort ks (fn [a b] (if (= (a 0) (b 0)) (< (a 1) (b 1)) (< (a 0) (b 0)))))
  (map |($ 2) ks))

(varfn canon-into [x into seen]
  (def t (type x))
  (case t
    :nil (buffer/push into "nil")
    :boolean (buffer/push into (if x "true" "false"))
    :number (buffer/push into (canon-num x))
    :string (do (buffer/push into "\"") (hexbytes x into) (buffer/push into "\""))
    :symbol (do (buffer/push into "'") (hexbytes x into))
    :keyword (do (buffer/push into ":") (hexbytes x into))
    :tuple (do
             (buffer/push into (if (= :brackets (tuple/type x)) "[" "("))
             (var first true)
             (each v x (if first (set first false) (buffer/push into " ")) (canon-into v into seen))
             (buffer/push into (if (= :brackets (tuple/type x)) "]" ")")))
    :struct (do
              (buffer/push into "{")
              (var first true)
              (each k (sorted-pairs x)
                (if first (set first false) (buffer/push into " "))
                (canon-into k into seen)
                (buffer/push into " ")
                (canon-into (in x k) into seen))
              (buffer/push into "}")
              (when-let [p (struct/getproto x)]
                (buffer/push into "^")
                (canon-into p into seen)))
    (if-let [id (in seen x)]
      (buffer/format into "#%d" id)
      (do
        (def id (length seen))
        (put seen x id)
        (buffer/format into "#%d=" id)
        (case t
          :array (do
                   (buffer/push into "@[")
                   (var first true)
                   (each v x (if first (set first false) (buffer/push into " ")) (canon-into v into seen))
                   (buffer/push into "]"))
          :buffer (do (buffer/push into "@\"") (hexbytes x into) (buffer/push into "\""))
          :table (do
                   (buffer/push into "@{")
                   (var first true)
                   (each k (sorted-pairs x)
                     (if first (set first false) (buffer/push into " "))
                     (canon-into k into seen)
                     (buffer/push into " ")
                     (canon-into (table/rawget x k) into seen))
                   (buffer/push into "}")
                   (when-let [p (table/getproto x)]
                     (buffer/push into "^")
                     (canon-into p into seen)))
          :function (buffer/format into "<fn %s>" (or (get (disasm x) :name) "?"))
          :cfunction (buffer/format into "<cfn %s>" (string/format "%v" x))
          :fiber (buffer/format into "<fiber %s>" (fiber/status x))
          (cond
            (= t :core/s64) (buffer/format into "s64:%s" (string x))
            (= t :core/u64) (buffer/format into "u64:%s" (string x))
            (buffer/format into "<%s>" t)))))))

(defn canon
  "Canonical text of a value: shape plus identity structure (#n= / #n back-references)."
  [x]
  (def b @"")
  (canon-into x b @{})
  (string b))

(defn err-text
  "Stable text for an error payload."
  [e]
  (if (bytes? e) (string e) (canon e)))

(defn batch-run
  ```Batch protocol. args: items-file out-file. One Janet form per line in the
  items file; for item i writes `i\tOK\t<text>` or `i\tERR\t<text>`.
  The handler returns a string. A line `i\tBEGIN` is written (and flushed)
  before items when VERIF_BATCH_TRACE is set, for crash attribution.```
  [handler &opt setup]
  (def args (dyn :args))
  (def items-path (get args 1))
  (def out-path (get args 2))
  (def trace (os/getenv "VERIF_BATCH_TRACE"))
  (def out (file/open out-path :w))
  (def src (slurp items-path))
  (def p (parser/new))
  (var i 0)
  (defn handle [item]
    (when trace (file/write out (string i "\tBEGIN\n")) (file/flush out))
    (def res (try
               (string i "\tOK\t" (handler item) "\n")
               ([e] (string i "\tERR\t" (string/replace-all "\n" "\\n" (err-text e)) "\n"))))
    (file/write out res)
    (when (or trace (= 0 (% i 64))) (file/flush out))
    (++ i))
  (when setup (setup))
  (parser/consume p src)
  (parser/eof p)
  (while (parser/has-more p)
    (handle (parser/produce p)))
  (when (= :error (parser/status p))
    (file/write out (string i "\tFATAL\tparse error in items: " (parser/error p) "\n")))
  (file/write out "DONE\n")
  (file/close out)
  # a fiber blocked for ever keeps the loop alive (specified behaviour): leave explicitly
  (unless (os/getenv "VERIF_BATCH_NOEXIT") (os/exit 0)))
