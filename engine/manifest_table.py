HOOK_COMMITS = ["d7b8c4f"]
NOTES = "See DESIGN.md. Every check rebuilds vjanet from /repo's working tree (content-hash cache under build/)."
CHECKS = [
 dict(id="C06",
      technique="explicit-state BFS over director histories on the real event loop vs. abstract channel model",
      text="Explicit-state model checking on the implementation: every history of director actions (give/take/select with 1-2 clauses in both orders/rselect/close on 1-3 channels of capacity 0..2 with 2-4 fibers) up to a depth bound is replayed on fresh channels in the real interpreter; after each action the loop runs to quiescence and worker states, completions with results and ev/count/full/capacity must equal the abstract channel model. Plus exhaustive give/take sequences over the ring-buffer queue under ASan.",
      note="Trusted: the Python channel model (FIFO service, stale registrations inert, abandoned select give-items stay queued), quiescence detection by repeated (ev/sleep 0) under virtual time, deterministic run queue. Bounds in evidence; thread channels are C08."),
]
_ALL = ["C%02d" % i for i in range(1, 21)]
def _na():
    done = {c["id"] for c in CHECKS}
    return [{"property_id": p, "reason": "check under construction in this session (design in DESIGN.md §4); not yet registered"} for p in _ALL if p not in done]
NOT_APPLICABLE = _na()
