HOOK_COMMITS = ["d7b8c4f"]
NOTES = "See DESIGN.md. Every check rebuilds vjanet from /repo's working tree (content-hash cache under build/)."
CHECKS = [
 dict(id="C06",
      technique="explicit-state BFS over director histories on the real event loop vs. abstract channel model",
      text="Explicit-state model checking on the implementation: every history of director actions (give/take/select with 1-2 clauses in both orders/rselect/close on 1-3 channels of capacity 0..2 with 2-4 fibers) up to a depth bound is replayed on fresh channels in the real interpreter; after each action the loop runs to quiescence and worker states, completions with results and ev/count/full/capacity must equal the abstract channel model. Plus exhaustive give/take sequences over the ring-buffer queue under ASan.",
      note="Trusted: the Python channel model (FIFO service, stale registrations inert, abandoned select give-items stay queued), quiescence detection by repeated (ev/sleep 0) under virtual time, deterministic run queue. Bounds in evidence; thread channels are C08."),
 dict(id="C07",
      technique="explicit-state BFS over director histories under virtual time vs. model of current waits",
      text="Explicit-state model checking on the implementation under interposed virtual time: every history (to a depth bound) of {start sleep/give/take/close/select/pipe read|chunk with or without timeout/pipe write/close-writer, each optionally under ev/with-deadline; ev/cancel of a blocked fiber; advance time to the next live or stale timer} over 2-3 fibers, 0-2 channels (capacity 0..2) and 0-2 pipes is replayed in the real event loop; every completion (fiber, value or error payload, virtual instant), the suspended set and channel counts must equal the reference model in which stale registrations are inert; a parked fiber resumed by anything but the director is a spurious wakeup.",
      note="Trusted: virtual time (clock_gettime/timerfd_settime/epoll_wait/nanosleep interposed with -Wl,--wrap), the Python model of waits, quiescence detection. Subprocess waits and thread waits are exercised in C20/C08, not here."),
 dict(id="C14",
      technique="bounded-exhaustive operand products on the real interpreter vs. Python big-int/IEEE/Fraction reference",
      text="Exhaustive enumeration of (operator, call route, ordered operand tuple) over boundary-dense operand sets (2^k, 2^k+-1 for every k, INT64/UINT64 extremes, fractions, infinities, numeric strings) for all arithmetic, bitwise, shift, comparison and compare-family operators on int/s64, int/u64, numbers and strings in every type pairing and both orders, executed in the real interpreter and compared value-for-value with an independent Python reference (big ints mod 2^64, IEEE doubles, exact rationals).",
      note="Trusted: the Python reference model (props/C14/model.py) and the conventions listed in props/C14/NOTES.md; cases where C leaves the result undefined (shift counts outside 0..63 / 0..31) are excluded and counted."),
 dict(id="C18",
      technique="exhaustive product flags x core functions x argument shapes x thread, judged by a libc interposer on the real interpreter",
      text="Exhaustive product of capability configurations (each flag, each group, all pairs in the thorough tier) x every function binding of the core environment (enumerated at run time) x argument tuples of length 0..2 over an 18-shape menu x {calling thread, thread started after sandboxing}. Every libc entry made by janet's own objects is intercepted with -Wl,--wrap and classified; a call whose class is disabled in the calling thread's flag word is a violation whatever the function returned. Plus all ordered pairs of sandbox options for monotonicity.",
      note="Trusted: the classification table in engine/harness/sbxwrap.c; calls made by libc on its own behalf are not attributed to janet; opening /dev/urandom for os/cryptorand is not counted as a file-system read; os/environ and raw-pointer FFI use are outside what a libc interposer can see. 25 functions are never called (props/C18/check.py BLOCK, with reasons)."),
 dict(id="C20",
      technique="exhaustive enumeration of task programs with known completions (process-level, virtual time) + exhaustive cycle/pair repetition with resource-counter comparison",
      text="Termination: every program of a task grammar (1-3 tasks x operation sequences over sleep, waiting thread call, detached thread + thread channel, subprocess spawn+wait, os/execute, firing and non-firing deadlines, timed-out stream read x 6 link kinds: channel, pipe, thread channel, cancel of a channel wait, cancel of a stream read) is run as a stand-alone process of the real interpreter under virtual time; it must exit by itself with status 0 and must have printed every expected completion line. Steady state: each of 24 operation cycles and every ordered pair is repeated n, 2n, 4n times; descriptors, child processes, threads, GC roots, heap blocks, timer-heap size and listener count (read from janet_vm and /proc) must not grow in proportion to the repetitions, and the pending-work counters must be zero when nothing is outstanding.",
      note="Trusted: virtual time waits for live OS threads before jumping; subprocess exit and thread completion timing are the kernel's (exhaustive over programs, not over kernel interleavings); a constant growth (caches) is not a leak, only growth proportional to n at two scales."),
]
_ALL = ["C%02d" % i for i in range(1, 21)]
def _na():
    done = {c["id"] for c in CHECKS}
    return [{"property_id": p, "reason": "check under construction in this session (design in DESIGN.md §4); not yet registered"} for p in _ALL if p not in done]
NOT_APPLICABLE = _na()
