HOOK_COMMITS = ["d7b8c4f"]
NOTES = "See DESIGN.md. Every check rebuilds vjanet from /repo's working tree (content-hash cache under build/)."
CHECKS = []
_ALL = ["C%02d" % i for i in range(1, 21)]
def _na():
    done = {c["id"] for c in CHECKS}
    return [{"property_id": p, "reason": "check under construction in this session (design in DESIGN.md §4); not yet registered"} for p in _ALL if p not in done]
NOT_APPLICABLE = _na()
