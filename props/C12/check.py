#!/usr/bin/env python3
"""C12 -- PEG matching conforms to the PEG semantics for every grammar and text.

Bounded-exhaustive comparison of the real interpreter (vjanet built from /repo) against the
reference PEG interpreter in model.py.  See NOTES.md for the enumerated space, conventions and
findings."""
import itertools
import multiprocessing
import os
import sys
import time

HERE = os.path.dirname(os.path.abspath(__file__))
sys.path.insert(0, os.path.join(HERE, "..", "..", "engine", "mc"))
sys.path.insert(0, HERE)
from core import Check, run_batch, vjanet, mktmp, HarnessError, harness_guard, JOBS  # noqa: E402
import model as M  # noqa: E402
from model import Kw, Sym  # noqa: E402

DRIVER = os.path.join(HERE, "driver.janet")


# ---------------------------------------------------------------------------
# pattern construction and emission

def T(head, *a):
    return (Sym(head),) + a


class TabG(dict):
    """a grammar given as a table @{...} instead of a struct"""


def jstr(b):
    out = ['"']
    for c in b:
        if c == 34:
            out.append('\\"')
        elif c == 92:
            out.append("\\\\")
        elif 32 <= c < 127:
            out.append(chr(c))
        else:
            out.append("\\x%02x" % c)
    out.append('"')
    return "".join(out)


def emit(p, fn_unquote=False):
    """pattern / value -> Janet source text (data, not evaluated)"""
    if p is None:
        return "nil"
    if p is True:
        return "true"
    if p is False:
        return "false"
    t = type(p)
    if t is int:
        return str(p)
    if t is bytes:
        return jstr(p)
    if t is Kw:
        return ":" + p
    if t is Sym:
        if fn_unquote and p in M.FUNS:
            return "," + p
        return str(p)
    if t is tuple:
        return "(" + " ".join([emit(x, fn_unquote) for x in p]) + ")"
    if t is list:
        return "[" + " ".join([emit(x, fn_unquote) for x in p]) + "]"
    if t is dict or t is TabG:
        body = " ".join([(":" + k if type(k) is str else emit(k, fn_unquote)) + " " + emit(v, fn_unquote)
                         for k, v in p.items()])
        return ("@{" if t is TabG else "{") + body + "}"
    raise TypeError("emit %r" % (p,))


def heads(p, acc=None):
    """set of special-form names occurring in a pattern"""
    if acc is None:
        acc = set()
    if type(p) is tuple and p:
        if type(p[0]) is Sym:
            acc.add(M.ALIAS.get(str(p[0]), str(p[0])))
        for x in p[1:]:
            heads(x, acc)
    elif isinstance(p, dict):
        for v in p.values():
            heads(v, acc)
    return acc


# ---------------------------------------------------------------------------
# case sets: (text, start | None, extra args)

def texts_ab(maxlen, alphabet=(b"a", b"b")):
    out = [b""]
    for n in range(1, maxlen + 1):
        for tup in itertools.product(alphabet, repeat=n):
            out.append(b"".join(tup))
    return out


SPECIAL_TEXTS = [b"\n", b"a\nb", b"\x01\x02", b"\x02ab", b"\x01a"]
ARGS = (1, b"b")


def make_cases(texts, args=ARGS, starts="0,1,len", nostart=False):
    cases = []
    for t in texts:
        ss = []
        for s in (0, 1, len(t)) if starts == "0,1,len" else range(len(t) + 1):
            if s <= len(t) and s not in ss:
                ss.append(s)
        for s in ss:
            cases.append((t, s, tuple(args)))
        if nostart:
            cases.append((t, None, ()))
    return cases


def emit_cases(sets):
    parts = []
    for name, cases in sets.items():
        cs = " ".join(["[%s %s [%s]]" % (jstr(t), "nil" if s is None else s, " ".join(emit(a) for a in args))
                       for t, s, args in cases])
        parts.append(":%s [%s]" % (name, cs))
    return "{" + "\n".join(parts) + "}\n"


# ---------------------------------------------------------------------------
# the pattern universe

def atoms_leaf():
    return [b"a", b"b", b"ab", b"", 1, 2, 0, -1, -2, True, False,
            T("range", b"aa"), T("range", b"ab"), T("set", b"b"), T("set", b"ab"),
            T("range", b"aa", b"bb")]


def atoms_cap():
    t, u = Kw("t"), Kw("u")
    return [T("<-", b"a"), T("<-", 1, t), T("<-", b""), T("quote", b"ab"),
            T("$"), T("$", t), T("constant", Kw("k")), T("constant", b"ab", t), T("constant", 2),
            T("argument", 0), T("argument", 1, t), T("argument", 2),
            T("line"), T("column", t),
            T("->", t), T("->", t, u), T("->", u), T("<-", b"a", u), T("backmatch"), T("backmatch", t),
            T("uint", 1), T("int", 1, t), T("uint-be", 2), T("int-be", 2),
            T("number", 1, 16), T("number", 2, 16, t)]


def probes():
    t = Kw("t")
    return [T("*", T("<-", b"a"), b"b"),
            T("*", T("<-", 1, t), b"b"),
            T("*", T("constant", Kw("k")), b"a"),
            T("+", T("<-", b"ab"), T("<-", b"a", t)),
            T("any", T("<-", b"a")),
            T("%", T("*", T("<-", 1), T("<-", 1, t))),
            T("group", T("<-", 1, t)),
            T("*", T("<-", 1, t), T("backmatch", t)),
            T("*", T("<-", 1, t), T("<-", 1, t)),
            T("drop", T("<-", 1, t)),
            T("only-tags", T("<-", 1, t)),
            T("error", T("<-", b"b")),
            T("sub", 2, T("<-", 1)),
            T("to", b"b"),
            T("thru", T("<-", b"b")),
            T("*", T("<-", 1), T("->", t)),
            T("*", T("<-", 1, t), T("<-", 1, Kw("u"))),
            T("lenprefix", T("$"), T("<-", 1, t))]


def core_operands():
    t = Kw("t")
    return [b"a", b"ab", b"", 1, -1, T("set", b"b"), False,
            T("<-", b"a"), T("<-", 1, t), T("$"), T("constant", 2), T("argument", 0),
            T("->", t), T("backmatch", t), T("backmatch"), T("uint", 1),
            T("*", T("<-", b"a"), b"b"),
            T("*", T("<-", 1, t), b"b"),
            T("+", T("<-", b"ab"), T("<-", b"a", t)),
            T("any", T("<-", b"a")),
            T("%", T("*", T("<-", 1), T("<-", 1, t))),
            T("group", T("<-", 1, t)),
            T("drop", T("<-", 1, t)),
            T("to", b"b"),
            T("thru", T("<-", b"b")),
            T("error", T("<-", b"b"))]


def unary_forms():
    """functions x -> pattern, one per unary combinator form"""
    t = Kw("t")
    F = []

    def add(name, fn):
        F.append((name, fn))
    add("any", lambda x: T("any", x))
    add("some", lambda x: T("some", x))
    add("opt", lambda x: T("?", x))
    add("at-least2", lambda x: T("at-least", 2, x))
    add("at-least0", lambda x: T("at-least", 0, x))
    add("at-most1", lambda x: T("at-most", 1, x))
    add("at-most2", lambda x: T("at-most", 2, x))
    add("at-most0", lambda x: T("at-most", 0, x))
    add("between12", lambda x: T("between", 1, 2, x))
    add("between23", lambda x: T("between", 2, 3, x))
    add("between02", lambda x: T("between", 0, 2, x))
    add("between21", lambda x: T("between", 2, 1, x))
    add("repeat2", lambda x: T("repeat", 2, x))
    add("repeat0", lambda x: T("repeat", 0, x))
    add("tuple3", lambda x: (3, x))
    add("not", lambda x: T("!", x))
    add("look0", lambda x: T(">", 0, x))
    add("look", lambda x: T("look", x))
    add("look-1", lambda x: T(">", -1, x))
    add("look-2", lambda x: T(">", -2, x))
    add("look1", lambda x: T(">", 1, x))
    add("look2", lambda x: T(">", 2, x))
    add("to", lambda x: T("to", x))
    add("thru", lambda x: T("thru", x))
    add("capture", lambda x: T("<-", x))
    add("capture:t", lambda x: T("<-", x, t))
    add("accumulate", lambda x: T("%", x))
    add("accumulate:t", lambda x: T("%", x, t))
    add("group", lambda x: T("group", x))
    add("group:t", lambda x: T("group", x, t))
    add("drop", lambda x: T("drop", x))
    add("only-tags", lambda x: T("only-tags", x))
    add("replace-const", lambda x: T("/", x, Kw("k")))
    add("replace-str:t", lambda x: T("/", x, b"s", t))
    add("replace-struct", lambda x: T("/", x, {b"a": Kw("A"), b"b": 2, 0: b"z"}))
    add("replace-count", lambda x: T("/", x, Sym("$count")))
    add("replace-tup", lambda x: T("/", x, Sym("$tup")))
    add("replace-last:t", lambda x: T("/", x, Sym("$last"), t))
    add("cmt-count", lambda x: T("cmt", x, Sym("$count")))
    add("cmt-last", lambda x: T("cmt", x, Sym("$last")))
    add("cmt-even", lambda x: T("cmt", x, Sym("$even")))
    add("cmt-tup:t", lambda x: T("cmt", x, Sym("$tup"), t))
    add("cmt-nil", lambda x: T("cmt", x, Sym("$nil")))
    add("nth0", lambda x: T("nth", 0, x))
    add("nth1", lambda x: T("nth", 1, x))
    add("nth0:t", lambda x: T("nth", 0, x, t))
    add("error", lambda x: T("error", x))
    add("unref", lambda x: T("unref", x))
    add("unref:t", lambda x: T("unref", x, t))
    add("number16", lambda x: T("number", x, 16))
    add("number", lambda x: T("number", x))
    add("number16:t", lambda x: T("number", x, 16, t))
    return F


def binary_forms():
    F = []
    for h in ("+", "*", "if", "if-not", "sub", "til", "split", "lenprefix"):
        F.append((M.ALIAS.get(h, h), (lambda h: lambda x, y: T(h, x, y))(h)))
    return F


def context_forms():
    """one-hole contexts that make leaked captures, tags, capture mode and window ends
    observable after the pattern in the hole has succeeded or failed"""
    t = Kw("t")
    rest = T("<-", T("any", 1))
    F = []

    def add(name, fn):
        F.append((name, fn))
    add("seq-rest", lambda p: T("*", p, rest))
    add("alt-rest", lambda p: T("+", p, rest))
    add("acc-seq-rest", lambda p: T("%", T("*", p, rest)))
    add("acc-alt-rest", lambda p: T("%", T("+", p, rest)))
    add("acc:t-seq-rest", lambda p: T("%", T("*", T("<-", 1), p, rest), t))
    add("group-pre-tag", lambda p: T("group", T("*", T("<-", 1, t), p, T("?", T("->", t)))))
    add("two-tags", lambda p: T("group", T("*", T("<-", 1, Kw("u")), p, T("?", T("->", t)), T("?", T("->", Kw("u"))),
                                            T("?", T("backmatch")))))
    add("any", lambda p: T("any", p))
    add("acc-any", lambda p: T("%", T("any", p)))
    add("window", lambda p: T("*", T("sub", 2, p), rest))
    add("to", lambda p: T("*", T("to", p), rest))
    add("thru", lambda p: T("*", T("thru", p), rest))
    add("split", lambda p: T("split", b"b", p))
    add("not-alt", lambda p: T("*", T("+", T("*", p, False), T("!", p), True), T("?", T("->", t)), rest))
    add("twice", lambda p: T("*", p, p))
    add("til", lambda p: T("*", T("til", b"b", p), rest))
    add("lenprefix", lambda p: T("%", T("+", T("lenprefix", T("*", T("$"), p), T("<-", 1)), rest)))
    return F


# ---------------------------------------------------------------------------
# work units, executed in worker processes

class Unit:
    """one chunk of items of the same kind run in one vjanet process"""
    __slots__ = ("part", "variant", "kind", "setname", "pats", "env")

    def __init__(self, part, variant, kind, setname, pats, env=None):
        self.part, self.variant, self.kind, self.setname, self.pats, self.env = part, variant, kind, setname, pats, env


G = {}   # per-process globals (set by pool initializer): case sets, path of the cases file


def _init_worker(cases_path, sets):
    G["cases_path"] = cases_path
    G["sets"] = sets


QUIRKS = [("lenprefix-mode-not-restored-when-length-pattern-fails", dict(q_lenprefix=True)),
          ("accumulate-number-appends-text-unless-grammar-has-backref", dict(q_accnum=True)),
          ("lenprefix-mode+accumulate-number", dict(q_lenprefix=True, q_accnum=True))]


def _split_flags(field):
    """'text!Sx!Cy' -> (text, {'S': x, 'C': y})"""
    if "!" not in field:
        return field, {}
    # flags are introduced by '!' followed by one of S C U M; result texts never contain '!'
    # (strings in the enumerated alphabets have no '!', the generic error is printed E#)
    parts = field.split("!")
    base = parts[0]
    flags = {}
    for p in parts[1:]:
        flags[p[0]] = p[1:]
    return base, flags


def _crash_summary(text):
    """the sanitizer's headline if there is one, else the tail of the description"""
    for line in text.replace("\\n", "\n").split("\n"):
        if "AddressSanitizer" in line or "runtime error" in line or "LeakSanitizer" in line:
            return line.strip()[:300]
    return text[-400:]


def _drop_last(got):
    """text of the wrapped result without its last element (the end position, a plain integer)"""
    if not got.startswith("@["):
        return got
    inner = got[2:-1]
    i = inner.rfind(" ")
    return "@[" + (inner[:i] if i >= 0 else "") + "]"


def run_unit(u):
    """-> dict(part, n_pats, n_cases, outcomes(set), mismatches(list), crashes(list))"""
    sets = G["sets"]
    cases = sets[u.setname]
    res = dict(part=u.part, n_pats=len(u.pats), n_cases=0, outcomes=set(), mism=[], sigs=set(), n_mism=0,
               n_ok=0, n_fail=0, n_err=0)
    if u.kind == "m":
        items = ['["m" %s :%s]' % (emit(p), u.setname) for p in u.pats]
    else:
        items = ['["api" %s %s :%s]' % (emit(p), emit(s), u.setname) for p, s in u.pats]
    out = run_batch(u.variant, DRIVER, items, env=u.env, chunk=len(items) + 1, jobs=1,
                    extra_args=[G["cases_path"]], timeout=300)
    # a result without the END field is a fragment left by a later crash: run that item again alone
    for i, (status, text) in enumerate(out):
        if status == "OK" and not text.endswith("\tEND"):
            out[i] = run_batch(u.variant, DRIVER, [items[i]], env=u.env, chunk=2, jobs=1,
                               extra_args=[G["cases_path"]], timeout=300)[0]
            if out[i][0] == "OK" and not out[i][1].endswith("\tEND"):
                raise HarnessError("driver result without END marker: %s" % out[i][1][:200])
    out = [(st, tx[:-4] if st == "OK" else tx) for st, tx in out]
    for pat, (status, text) in zip(u.pats, out):
        if u.kind == "m":
            _check_match(u, pat, cases, status, text, res)
        else:
            _check_api(u, pat, cases, status, text, res)
    return res


def _note(res, u, sig, what, pat, case, expected, got, kind="m", subst=None):
    res["n_mism"] += 1
    if sig in res["sigs"]:
        return
    if len(res["mism"]) < 20:
        res["sigs"].add(sig)
        res["mism"].append(dict(sig=sig, what=what, pat=pat, case=case, expected=expected, got=got,
                                kind=kind, subst=subst, variant=u.variant, part=u.part))


def _check_match(u, pat, cases, status, text, res):
    ptxt = emit(pat)
    if status != "OK":
        # CRASH / TIMEOUT / ERR: memory error, sanitizer report, or driver failure on this pattern
        _note(res, u, "%s:%s" % (status.lower(), ptxt), "%s under %s: %s" % (status, u.variant, _crash_summary(text)),
              pat, cases[0], "a result for every case", status)
        res["n_cases"] += len(cases)
        return
    fields = M.normalize(text).split("\t")
    header, fields = fields[0], fields[1:]
    if header.startswith("CE:"):
        _note(res, u, "compile-error:" + ptxt, "pattern does not compile: " + header, pat, cases[0],
              "compiles", header)
        return
    if len(fields) != len(cases):
        raise HarnessError("driver returned %d fields for %d cases: %s" % (len(fields), len(cases), text[:300]))
    if header != "ok":
        hs = heads(pat)
        if hs & {"int", "int-be", "uint-be"}:
            sig = "unmarshal-rejects-compiled-peg-with-int-or-be-reader"
        else:
            sig = "unmarshal-error:" + ptxt
        _note(res, u, sig, "(unmarshal (marshal (peg/compile g))) raises: " + header[3:], pat, cases[0],
              "a peg equivalent to g", header, kind="unmarshal")
    try:
        peg = M.Peg(pat)
    except RecursionError:
        raise HarnessError("model recursion while compiling " + ptxt)
    outcomes = res["outcomes"]
    for case, field in zip(cases, fields):
        text_, start, args = case
        res["n_cases"] += 1
        r = peg.run(text_, start or 0, args)
        exp = M.result_text(r)
        k = r[0]
        if k == "ok":
            res["n_ok"] += 1
        elif k == "fail":
            res["n_fail"] += 1
        else:
            res["n_err"] += 1
        if field == exp:
            outcomes.add(exp)
            continue
        got, flags = _split_flags(field)
        outcomes.add(got)
        if got != exp:
            sig = None
            for name, q in QUIRKS:
                if M.result_text(peg.run(text_, start or 0, args, **q)) == got:
                    sig = name
                    break
            if sig is None:
                sig = "mismatch:" + ptxt
            _note(res, u, sig, "peg/match differs from the reference semantics", pat, case, exp, got)
        for fl, val in flags.items():
            if val == _drop_last(got):
                continue    # differed only by the address inside "<array 0x...>" text
            which = {"S": "source grammar", "C": "(peg/compile g)", "U": "(unmarshal (marshal (peg/compile g)))",
                     "M": "(:match compiled ...)"}[fl]
            _note(res, u, "variant-%s-differs:%s" % (fl, ptxt),
                  "%s gives %s but (peg/compile ~(* ,g ($))) gives %s" % (which, val, got), pat, case, got, val,
                  kind="variant" + fl)


def _api_expect(peg, subst, case, q):
    text_, start, args = case
    start = start or 0
    outs = []

    def guard(fn):
        try:
            return M.show(fn())
        except M.PegError as e:
            return "E#" if e.value is M.GENERIC else "E:" + M.show(e.value)
    sfn = M.FUNS[str(subst)] if isinstance(subst, Sym) else subst
    outs.append(guard(lambda: M.find(peg, text_, start, args, **q)))
    outs.append(guard(lambda: M.find_all(peg, text_, start, args, **q)))
    outs.append(guard(lambda: M.replace(peg, sfn, text_, start, args, True, **q)))
    outs.append(guard(lambda: M.replace(peg, sfn, text_, start, args, False, **q)))
    return outs


API_NAMES = ["peg/find", "peg/find-all", "peg/replace", "peg/replace-all"]


def _check_api(u, ps, cases, status, text, res):
    pat, subst = ps
    ptxt = emit(pat) + " subst " + emit(subst)
    if status != "OK":
        _note(res, u, "%s:api:%s" % (status.lower(), ptxt), "%s under %s: %s" % (status, u.variant, text[-600:]),
              pat, cases[0], "a result", status, kind="api", subst=subst)
        res["n_cases"] += len(cases)
        return
    fields = M.normalize(text).split("\t")
    header, fields = fields[0], fields[1:]
    if header != "ok":
        _note(res, u, "compile-error:" + ptxt, header, pat, cases[0], "compiles", header, kind="api", subst=subst)
        return
    if len(fields) != 4 * len(cases):
        raise HarnessError("driver returned %d api fields for %d cases" % (len(fields), len(cases)))
    peg = M.Peg(pat)
    for i, case in enumerate(cases):
        res["n_cases"] += 1
        exp = _api_expect(peg, subst, case, {})
        gotf = fields[4 * i:4 * i + 4]
        if gotf == exp:
            res["outcomes"].update(exp)
            res["n_ok"] += 1
            continue
        alt = None
        for j in range(4):
            got, flags = _split_flags(gotf[j])
            res["outcomes"].add(got)
            if got != exp[j]:
                if alt is None:
                    alt = [(name, _api_expect(peg, subst, case, q)) for name, q in QUIRKS]
                sig = None
                for name, e2 in alt:
                    if e2[j] == got:
                        sig = name
                        break
                if sig is None:
                    sig = "api-mismatch:%s:%s" % (API_NAMES[j], ptxt if j >= 2 else emit(pat))
                _note(res, u, sig, "%s differs from repeated matching" % API_NAMES[j], pat, case, exp[j], got,
                      kind="api%d" % j, subst=subst)
            for fl, val in flags.items():
                if val == got:
                    continue    # differed only by an address inside "<tuple 0x...>" text
                _note(res, u, "api-source-vs-compiled:%s:%s" % (API_NAMES[j], ptxt),
                      "%s on the source grammar gives %s, on the compiled one %s" % (API_NAMES[j], val, got),
                      pat, case, got, val, kind="api%d" % j, subst=subst)


# ---------------------------------------------------------------------------
# replay files

REPLAY_PRELUDE = """(def $count (fn [& xs] (length xs)))
(def $last (fn [& xs] (last xs)))
(def $tup tuple)
(def $even (fn [& xs] (even? (length xs))))
(def $first (fn [& xs] (first xs)))
(def $nil (fn [& xs] nil))
"""


def replay_text(m):
    pat = "~" + emit(m["pat"], fn_unquote=True)
    text_, start, args = m["case"]
    call_args = jstr(text_) + ("" if start is None else " %d" % start) + "".join(" " + emit(a) for a in args)
    kind = m["kind"]
    lines = [REPLAY_PRELUDE, "(def g %s)" % pat]
    if kind == "unmarshal":
        lines.append("(def r (try (unmarshal (marshal (peg/compile g) make-image-dict) load-image-dict) ([e] [:error e])))")
        lines.append('(printf "got      %q" r)')
        lines.append('(print  "expected a <core/peg> that matches like g")')
        lines.append("(when (tuple? r) (os/exit 1))")
    elif kind.startswith("api"):
        j = int(kind[3:]) if len(kind) > 3 else 0
        fn = API_NAMES[j]
        sub = emit(m["subst"], fn_unquote=False)
        extra = (" " + sub) if j >= 2 else ""
        lines.append("(def r (try (%s g%s %s) ([e] [:error e])))" % (fn, extra, call_args))
        lines.append('(printf "got      %q" r)')
        lines.append('(print  "expected (from repeated peg/match) " %s)' % jstr(m["expected"].encode()))
    else:
        if kind.startswith("variant"):
            which = kind[-1]
            g2 = {"S": "g", "C": "(peg/compile g)", "M": "(peg/compile g)",
                  "U": "(unmarshal (marshal (peg/compile g) make-image-dict) load-image-dict)"}[which]
            lines.append("(def r (try (peg/match %s %s) ([e] [:error e])))" % (g2, call_args))
            lines.append("(def w (try (peg/match (peg/compile ~(* ,g ($))) %s) ([e] [:error e])))" % call_args)
            lines.append('(printf "got      %q" r)')
            lines.append('(printf "but with the end position appended as last capture: %q" w)')
        else:
            lines.append("(def r (try (peg/match ~(* ,g ($)) %s) ([e] [:error e])))" % call_args)
            lines.append('(printf "got      %q   (captures, then end position)" r)')
            lines.append('(print  "expected " %s)' % jstr(m["expected"].encode()))
    return "\n".join(lines) + "\n"


# ---------------------------------------------------------------------------
# parts

def chunked(seq, n):
    seq = list(seq)
    return [seq[i:i + n] for i in range(0, len(seq), n)]


def dedupe(pats):
    seen = set()
    out = []
    for p in pats:
        k = emit(p)
        if k not in seen:
            seen.add(k)
            out.append(p)
    return out


def level0():
    return atoms_leaf() + atoms_cap() + probes()


def level1(full_binary):
    x = level0()
    xc = x if full_binary else core_operands()
    out = []
    for _, f in unary_forms():
        for a in x:
            out.append(f(a))
    for name, f in binary_forms():
        for a in xc:
            if name == "lenprefix" and type(a) is tuple and a[0] in ("uint-be", "int-be") and a[1] == 2:
                # pruned: a two-byte length read from letters is ~25000 repetitions per case
                continue
            for b in xc:
                out.append(f(a, b))
    return out


def ternary():
    xs = [b"a", b"", T("<-", 1, Kw("t")), T("*", T("<-", b"a"), b"b"), T("->", Kw("t")), False, T("$")]
    out = []
    for h in ("+", "*"):
        for a in xs:
            for b in xs:
                for c in xs:
                    out.append(T(h, a, b, c))
        out.append(T(h))
        for a in xs:
            out.append(T(h, a))
    return out


def alias_patterns():
    t = Kw("t")
    xs = [b"a", T("<-", 1, t), T("*", T("<-", b"a"), b"b"), T("->", t)]
    out = []
    for x in xs:
        out += [T("not", x), T("accumulate", x), T("accumulate", x, t), T("capture", x), T("capture", x, t),
                T("quote", x), T("look", -1, x), T("look", 1, x), T("opt", x),
                T("replace", x, Kw("k")), T("replace", x, Sym("$count"), t)]
        for y in xs:
            out += [T("sequence", x, y), T("choice", x, y)]
    out += [T("position"), T("position", t), T("*", T("<-", 1, t), T("backref", t)),
            T("*", T("<-", 1, t), T("backref", t, Kw("u")), T("backref", Kw("u")))]
    return out


def number_patterns():
    t = Kw("t")
    inner = [1, 2, 3, T("some", 1), T("any", 1), T("some", T("set", b"1a")), T("*", T("?", b"-"), T("some", T("set", b"1ab")))]
    out = []
    for x in inner:
        for form in (T("number", x), T("number", x, None), T("number", x, 16), T("number", x, 2), T("number", x, 11),
                     T("number", x, None, t), T("number", x, 16, t), T("number", x, 36)):
            out.append(form)
            out.append(T("%", form))
            out.append(T("%", T("*", form, T("<-", 0), form)))
            out.append(T("*", T("%", form), T("?", T("->", t))))
            out.append(T("*", T("%", T("*", form, T("<-", 0))), T("?", T("backmatch", t))))
            out.append(T("group", T("*", form, form)))
    return out


def readint_patterns():
    out = []
    for h in ("int", "uint", "int-be", "uint-be"):
        for w in range(0, 9):
            out.append((w, T(h, w)))
            out.append((w, T("*", T(h, w, Kw("t")), T("->", Kw("t")))))
            out.append((w, T("%", T("*", T(h, w), T("<-", 0)))))
            out.append((w, T("sub", w, T(h, w))))
            if w > 0:
                out.append((w, T("sub", w - 1, T(h, w))))
    return out


def default_grammar_patterns():
    out = []
    for k in sorted(M.DEFAULT_GRAMMAR):
        out.append(T("<-", Kw(k)))
        out.append(T("*", T("<-", Kw(k)), T("<-", T("any", 1))))
    return out


def linecol_patterns():
    t = Kw("t")
    return [T("*", T("any", T("*", T("line"), T("column"), 1)), T("line"), T("column")),
            T("*", T("line"), T("column")),
            T("*", T("to", -1), T("line"), T("column")),
            T("sub", T("to", b"\n"), T("*", T("any", 1), T("line"), T("column"))),
            T("any", T("*", T("%", T("*", T("line"), T("constant", b":"), T("column"))), 1)),
            T("*", T("thru", b"\n"), T("line", t), T("column", t), T("->", t)),
            # the first line/column of a match taken inside a narrowed window (sub, til, split), later ones outside it
            T("*", T("sub", 2, T("line")), T("any", T("*", T("line"), T("column"), 1)), T("line"), T("column")),
            T("*", T("sub", T("to", b"\n"), T("column")), T("to", -1), T("line"), T("column")),
            T("*", T("til", b"\n", T("line")), T("any", T("*", T("line"), T("column"), 1))),
            T("split", b"\n", T("*", T("line"), T("column"), T("any", 1))),
            T("*", 1, T("error")),
            T("*", T("to", b"\n"), T("error", 0))]


def grammar_bodies(three):
    t = Kw("t")
    e = [b"a", b"b", T("<-", 1), T("<-", b"a", t), b"", Kw("main"), Kw("x"), T("?", Kw("main")), T("?", Kw("x")),
         T("group", Kw("x")), T("->", t)]
    out = []
    for h in ("*", "+"):
        for a in e:
            for b in e:
                out.append(T(h, a, b))
    if three:
        e3 = [b"a", b"b", T("<-", 1), Kw("main"), Kw("x"), T("?", Kw("x")), b""]
        for a in e3:
            for b in e3:
                for c in e3:
                    out.append(T("*", a, b, c))
                    out.append(T("+", a, T("*", b, c)))
    return out


def _nullable_and_left(body, rules, nullable):
    """-> (may match without consuming, set of rule names reachable at the same position).
    Over-approximates: anything that is not an obviously consuming literal is nullable."""
    t = type(body)
    if t is bytes:
        return (len(body) == 0, set())
    if t is int:
        return (body <= 0, set())
    if t is bool:
        return (True, set())
    if t is Kw:
        return (nullable.get(str(body), True), {str(body)})
    if t is tuple:
        h = M.ALIAS.get(str(body[0]), str(body[0]))
        if h == "sequence":
            nl, left = True, set()
            for x in body[1:]:
                n2, l2 = _nullable_and_left(x, rules, nullable)
                if nl:
                    left |= l2
                nl = nl and n2
            return nl, left
        if h == "choice":
            nl, left = False, set()
            for x in body[1:]:
                n2, l2 = _nullable_and_left(x, rules, nullable)
                nl = nl or n2
                left |= l2
            return nl, left
        if h in ("capture", "group", "accumulate", "drop"):
            return _nullable_and_left(body[1], rules, nullable)
        if h in ("opt", "any"):
            return (True, _nullable_and_left(body[1], rules, nullable)[1])
        if h == "backref":
            return (True, set())
    raise ValueError("left-recursion analysis: %r" % (body,))


def left_recursive(rules):
    nullable = {k: False for k in rules}
    changed = True
    while changed:
        changed = False
        for k, b in rules.items():
            n, _ = _nullable_and_left(b, rules, nullable)
            if n and not nullable[k]:
                nullable[k] = True
                changed = True
    left = {k: _nullable_and_left(b, rules, nullable)[1] for k, b in rules.items()}
    # cycle detection in the left-call graph restricted to rules reachable from main
    for k in rules:
        seen = set()
        stack = list(left[k])
        while stack:
            x = stack.pop()
            if x == k:
                return True
            if x in seen or x not in left:
                continue
            seen.add(x)
            stack.extend(left[x])
    return False


def grammar_patterns(tier_quick):
    mains = grammar_bodies(False)
    xs = grammar_bodies(False)
    out = []
    for mb in mains:
        uses_x = "x" in _refs(mb)
        if not uses_x:
            g = {"main": mb}
            if not left_recursive(g):
                out.append(g)
            continue
        for xb in xs:
            g = {"main": mb, "x": xb}
            if not left_recursive(g):
                out.append(g)
    return out


def grammar_patterns3():
    out = []
    xs = [T("*", b"a", T("?", Kw("main"))), T("+", T("*", T("<-", 1), Kw("x")), b"b"), T("group", T("*", 1, T("?", Kw("x")))),
          T("*", T("<-", b"a", Kw("t")), T("?", Kw("main")), T("->", Kw("t")))]
    for mb in grammar_bodies(True):
        uses_x = "x" in _refs(mb)
        for xb in (xs if uses_x else [None]):
            g = {"main": mb} if xb is None else {"main": mb, "x": xb}
            if not left_recursive(g):
                out.append(g)
    return out


def _refs(p, acc=None):
    if acc is None:
        acc = set()
    if type(p) is Kw:
        acc.add(str(p))
    elif type(p) is tuple:
        for x in p[1:]:
            _refs(x, acc)
    return acc


def scope_patterns():
    """nested grammars, shadowing, keyword aliases, tables, the same tuple in two scopes"""
    out = []
    abc = [b"a", b"b", T("<-", 1)]
    for a in abc:
        for b in abc:
            for c in abc + [None]:
                inner = {"main": T("*", T("<-", Kw("x")), Kw("y"))}
                if c is not None:
                    inner["x"] = c
                for tab_outer in (False, True):
                    for tab_inner in (False, True):
                        i2 = TabG(inner) if tab_inner else dict(inner)
                        g = {"main": T("*", T("<-", Kw("x")), i2, T("?", T("<-", Kw("x")))), "x": a, "y": b}
                        out.append(TabG(g) if tab_outer else g)
    # an outer rule that is already compiled (or being compiled) is referenced inside a nested grammar BEFORE a name the
    # nested grammar shadows or defines on its own: the scope must still be the inner one afterwards
    for a in abc:
        for c in abc:
            for tab_inner in (False, True):
                inner = {"main": T("*", Kw("y"), T("<-", Kw("x")), T("?", Kw("z"))), "x": c, "z": b"b"}
                i2 = TabG(inner) if tab_inner else dict(inner)
                out.append({"main": T("*", Kw("y"), i2, T("?", T("<-", Kw("x")))), "x": a, "y": T("<-", 1)})
                out.append({"main": T("*", Kw("y"), i2), "x": a, "y": T("*", T("?", Kw("x")), 1)})
    out.append({"a": b"a", "b": T("*", Kw("a"), 1), "main": T("*", Kw("b"), {"a": b"b", "main": T("*", Kw("b"), T("<-", Kw("a")))}, -1)})
    out.append({"main": T("+", T("*", b"a", {"sep": b"b", "main": T("*", Kw("item"), Kw("sep"))}), b""), "item": T("<-", 1), "sep": b"a"})
    out.append({"main": Kw("x"), "x": Kw("y"), "y": T("<-", b"a")})
    out.append({"main": T("*", Kw("x"), {"main": Kw("x"), "x": Kw("y")}), "x": T("<-", 1), "y": T("<-", b"b")})
    out.append({"main": T("*", Kw("d"), Kw("x")), "d": T("<-", b"a"), "x": T("<-", Kw("d"))})
    out.append(T("*", {"main": T("<-", Kw("x")), "x": b"a"}, {"main": T("<-", Kw("x")), "x": b"b"}))
    out.append({"main": T("*", {"main": T("<-", 1, Kw("t"))}, T("->", Kw("t")))})
    out.append({"main": T("+", T("*", b"a", Kw("main"), b"b"), b"")})
    out.append({"main": T("*", T("<-", T("+", T("*", b"a", Kw("main"), b"b"), b"")), T("$"))})
    return out


def api_patterns(quick):
    x = level0()
    out = list(x)
    for name, f in unary_forms():
        if name in ("any", "some", "opt", "not", "look-1", "look1", "to", "thru", "capture:t", "accumulate", "group",
                    "drop", "replace-tup", "cmt-last", "error", "between12"):
            for a in (x if not quick else core_operands()):
                out.append(f(a))
    xc = core_operands()
    for name, f in binary_forms():
        for a in xc:
            for b in xc:
                if quick and name not in ("choice", "sequence", "sub"):
                    continue
                out.append(f(a, b))
    return out


API_SUBSTS = [b"X", b"", Sym("$tup"), Sym("$count"), Sym("$last"), Kw("kw"), 12]


def main():
    chk = Check("C12")
    quick = chk.quick
    only = chk.args.only
    chk.rule("patterns are enumerated as data: every combinator form of peg.c's specials table applied to every "
             "operand of a fixed operand set (leaf matchers, capturing atoms in every capture mode, and composite "
             "probes that capture and then fail), then every such pattern placed in every one-hole context that "
             "exposes leaked captures/tags/mode/window; each pattern is run on every text over {a,b} up to the "
             "length bound plus control/newline texts, at start offsets {0,1,len}, with extra arguments. A case is "
             "one (pattern, text, start, args); it is non-trivial when its observable result (captures, end "
             "position, failure or raised value) is new.")
    chk.assume("the Python reference interpreter (model.py) states the documented meaning of each combinator; "
               "conventions where the in-repo documentation is silent are listed in NOTES.md")
    chk.assume("ASan/UBSan reports and crashes are observed through the process exit status (engine batch runner)")

    maxlen = 3 if quick else 4
    texts_main = texts_ab(maxlen) + SPECIAL_TEXTS
    texts_small = texts_ab(3) + SPECIAL_TEXTS
    texts_num = texts_ab(3, (b"1", b"a", b"-")) + [b"b1", b"1b", b"ab1"]
    sets = {
        "main": make_cases(texts_main),
        "mainx": make_cases(texts_main, nostart=True, args=()),     # no extra args / no start argument
        "small": make_cases(texts_small),
        "tiny": make_cases(texts_ab(2) + [b"aab", b"aba", b"abb", b"bab", b"a\nb", b"\x02ab", b"\x01a"]),
        "num": make_cases(texts_num, starts="all"),
        "nl": make_cases(texts_ab(5, (b"a", b"\n")), starts="all"),
        "bytes": [(bytes([c]), 0, ()) for c in range(256)] + [(bytes([c, c]), 1, ()) for c in range(0, 256, 5)],
        # ASan: exact-capacity buffers need length >= 4; every start offset
        "asan": make_cases([t for t in texts_ab(4 if quick else 5) if len(t) >= 4] + [b"\x01\x02ab", b"ab\x02a\x01"],
                           starts="all"),
        "api": make_cases(texts_ab(4) + [b"\x02ab"], starts="0,1,len"),
    }
    for w in range(0, 9):
        al = (b"\x00", b"\x01", b"\x7f", b"\x80", b"\xff") if w <= 3 else (b"\x00", b"\x80", b"\xff")
        ts = []
        for n in (w - 1, w, w + 1):
            if n < 0:
                continue
            if n <= 4 or n == w:
                ts += [b"".join(x) for x in itertools.product(al, repeat=n)]
            else:
                ts += [b"".join(x) for x in itertools.product((b"\x00", b"\xff"), repeat=n)]
        sets["int%d" % w] = [(t, 0, ()) for t in ts] + [(t, 1, ()) for t in ts if len(t) == w + 1]

    d = mktmp()
    cases_path = os.path.join(d, "cases.jdn")
    with open(cases_path, "w") as f:
        f.write(emit_cases(sets))

    # ---- assemble the parts in order (simplest first); each part is a list of Units
    parts = []

    def add_part(name, pats, setname="main", variant="fast", kind="m", chunk=None, env=None):
        """pats: a list, or a thunk returning the list (built only when the part runs)"""
        if only and only not in name:
            return
        parts.append(dict(name=name, pats=pats, setname=setname, variant=variant, kind=kind, chunk=chunk, env=env))

    def units_of(part):
        pats = part["pats"]
        pats = list(pats() if callable(pats) else pats)
        ncase = len(sets[part["setname"]])
        chunk = part["chunk"] or max(8, min(400, 60000 // max(1, ncase)))
        return [Unit(part["name"], part["variant"], part["kind"], part["setname"], c, part["env"])
                for c in chunked(pats, chunk)], len(pats), ncase

    l0 = dedupe(level0())
    add_part("atoms", l0)
    add_part("atoms-noargs-nostart", [p for p in l0 if "argument" in heads(p)] + [b"a", T("<-", 1)], "mainx")
    l1 = dedupe(level1(full_binary=not quick))
    add_part("level1", l1)
    add_part("level1-noargs", [p for p in l1 if "argument" in heads(p)][:: (7 if quick else 1)], "mainx")
    add_part("ternary", dedupe(ternary()))
    add_part("aliases", dedupe(alias_patterns()))
    add_part("number", dedupe(number_patterns()), "num")
    for w in range(0, 9):
        add_part("readint-w%d" % w, [p for ww, p in readint_patterns() if ww == w], "int%d" % w)
    add_part("line-column", linecol_patterns(), "nl")
    add_part("default-grammar", default_grammar_patterns(), "bytes")
    add_part("grammar-scopes", scope_patterns())
    add_part("grammar-recursive", grammar_patterns(quick), "small")
    if not quick:
        add_part("grammar-recursive-3", grammar_patterns3(), "small")

    # window / bounds related patterns under the address sanitizer, texts in exact-size buffers
    winheads = {"sub", "til", "split", "lenprefix", "look", "backmatch", "int", "uint", "int-be", "uint-be", "to", "thru"}
    asan_pats = [p for p in l1 if heads(p) & winheads]
    if quick:
        asan_pats = [p for p in dedupe(level1(False)) if heads(p) & winheads]
    add_part("asan-windows", asan_pats, "asan", variant="asan", env={"C12_TEXTBUF": "1"})
    add_part("asan-readint", [p for w, p in readint_patterns() if w in (0, 1, 2, 8)], "asan", variant="asan",
             env={"C12_TEXTBUF": "1"})

    apis = dedupe(api_patterns(quick))
    add_part("api", [(p, s) for p in apis for s in (API_SUBSTS if not quick else API_SUBSTS[:3])],
             "tiny" if quick else "api", kind="api")

    # contexts around every level-1 pattern (depth 3), one part per context form
    ctx_base = l1 if not quick else dedupe(level1(False))
    for name, f in context_forms():
        add_part("ctx-" + name, (lambda f: lambda: dedupe([f(p) for p in ctx_base]))(f), "tiny" if quick else "main")

    # two nested contexts around every level-1 pattern with core operands (depth 4), thorough only
    if not quick:
        outer = [c for c in context_forms() if c[0] in ("acc-seq-rest", "acc-alt-rest", "two-tags", "any",
                                                        "window", "split", "to", "not-alt")]
        base2 = dedupe(level1(False))
        for oname, fo in outer:
            for iname, fi in context_forms():
                add_part("ctx2-%s-%s" % (oname, iname),
                         (lambda fo, fi: lambda: dedupe([fo(fi(p)) for p in base2]))(fo, fi), "small")

    # ---- run
    vjanet("fast")
    if any(p["variant"] == "asan" for p in parts):
        vjanet("asan")
    t_run0 = time.time()    # the budget for the parts is counted from the end of the builds
    print("C12 %s: %d parts (builds ready after %.0fs)" % (chk.tier, len(parts), chk.elapsed()))
    sys.stdout.flush()
    pool = multiprocessing.Pool(JOBS, initializer=_init_worker, initargs=(cases_path, sets))

    all_mism = []
    samples = []
    try:
        done_parts = []
        for part in parts:
            name = part["name"]
            if time.time() - t_run0 > chk.budget * 0.85:
                chk.cap("time budget reached before part %s" % name)
                continue
            units, npats, ncase = units_of(part)
            if units:
                u = units[len(units) // 2]
                samples.append((u.part, u.kind, u.pats[len(u.pats) // 2], sets[u.setname][len(sets[u.setname]) // 2]))
            t0 = time.time()
            agg = dict(n_pats=0, n_cases=0, n_mism=0, n_ok=0, n_fail=0, n_err=0)
            outcomes = set()
            for r in pool.imap(run_unit, units):
                for k in agg:
                    agg[k] += r[k]
                outcomes |= r["outcomes"]
                all_mism.extend(r["mism"])
            for o in outcomes:
                chk.outcome(o)
            chk.add(evaluations=agg["n_cases"], transitions=agg["n_cases"], states=agg["n_pats"])
            chk.part(name, patterns=agg["n_pats"], cases=agg["n_cases"], matched=agg["n_ok"], failed=agg["n_fail"],
                     raised=agg["n_err"], distinct_results=len(outcomes), mismatches=agg["n_mism"],
                     variant=units[0].variant if units else "", wall_s=round(time.time() - t0, 1))
            done_parts.append(name)
            print("  part %-28s patterns=%-7d cases=%-9d distinct=%-6d mismatches=%-5d %.1fs" % (
                name, agg["n_pats"], agg["n_cases"], len(outcomes), agg["n_mism"], time.time() - t0))
            sys.stdout.flush()
    finally:
        pool.terminate()
        pool.join()
        import shutil
        shutil.rmtree(d, ignore_errors=True)

    # ---- verdicts: one violation per signature, at most 8 unexplained signatures
    shown_unexplained = 0
    explained = {q[0] for q in QUIRKS} | {"unmarshal-rejects-compiled-peg-with-int-or-be-reader"}
    for m in all_mism:
        sig = m["sig"]
        if sig not in explained and sig not in chk.viol_sigs:
            if shown_unexplained >= 8:
                chk.violations += 1
                continue
            shown_unexplained += 1
        text_, start, args = m["case"]
        what = "%s: pattern %s text %s start %s args %s [%s build, part %s]: expected %s got %s" % (
            m["what"], emit(m["pat"]), jstr(text_), start, emit(list(args)), m["variant"], m["part"],
            m["expected"], m["got"])
        chk.violation(sig=sig, what=what, replay_text=replay_text(m), replay_cmd="janet <this file>")

    if samples:
        for part_, kind, p, case in (samples[0], samples[len(samples) // 2], samples[-1]):
            chk.sample({"part": part_, "pattern": emit(p) if kind == "m" else emit(p[0]) + " subst " + emit(p[1]),
                        "text": jstr(case[0]), "start": case[1], "args": emit(list(case[2]))})
    chk.cov["bound_completed"] = "parts completed: %s; texts over {a,b} up to length %d" % (", ".join(done_parts), maxlen)
    chk.finish()


if __name__ == "__main__":
    harness_guard(main)
