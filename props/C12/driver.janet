# C12 driver: runs one pattern against a whole set of (text, start, extra args) cases in the real
# interpreter and prints one compact line.
#
# args: items-file out-file cases-file
#   cases-file : one Janet struct  {:setname [[text start [arg ...]] ...] ...}
# items:
#   ["m" pattern setname]            peg/match on every case, four ways:
#                                       A (peg/compile ~(* ,pattern ($)))   -> printed (captures + end position)
#                                       S source pattern (compiled on the fly by peg/match)
#                                       C (peg/compile pattern)
#                                       U (unmarshal (marshal C))
#                                     S, C, U must all equal A without its last element; a disagreement
#                                     is appended to the case's field as  !S<text> !C<text> !U<text>
#   ["api" pattern subst setname]    peg/find, find-all, replace, replace-all (source and compiled)
# Output: header TAB field TAB field ...   header = ok | UE:<unmarshal error>
#         a pattern that does not compile gives the single field CE:<message>
(use prelude)

(def fnmap
  {'$count (fn [& xs] (length xs))
   '$last (fn [& xs] (last xs))
   '$tup tuple
   '$even (fn [& xs] (even? (length xs)))
   '$first (fn [& xs] (first xs))
   '$nil (fn [& xs] nil)})

(defn subst-fns [x]
  (case (type x)
    :symbol (get fnmap x x)
    :tuple (tuple/slice (map subst-fns x))
    :struct (let [t @{}] (eachp [k v] x (put t k (subst-fns v))) (table/to-struct t))
    x))

(defn- esc-into [b s]
  (each c s
    (cond
      (= c 34) (buffer/push b "\\\"")
      (= c 92) (buffer/push b "\\\\")
      (and (>= c 32) (< c 127)) (buffer/push-byte b c)
      (buffer/format b "\\x%02x" c))))

(defn show-into [b x]
  (case (type x)
    :nil (buffer/push b "nil")
    :boolean (buffer/push b (if x "true" "false"))
    :number (buffer/push b (canon-num x))
    :string (do (buffer/push b "\"") (esc-into b x) (buffer/push b "\""))
    :buffer (do (buffer/push b "@\"") (esc-into b x) (buffer/push b "\""))
    :keyword (do (buffer/push b ":") (esc-into b x))
    :symbol (do (buffer/push b "'") (esc-into b x))
    :array (do
             (buffer/push b "@[")
             (var first true)
             (each v x (if first (set first false) (buffer/push b " ")) (show-into b v))
             (buffer/push b "]"))
    :tuple (do
             (buffer/push b "(")
             (var first true)
             (each v x (if first (set first false) (buffer/push b " ")) (show-into b v))
             (buffer/push b ")"))
    :core/u64 (buffer/push b "u64:" (string x))
    :core/s64 (buffer/push b "s64:" (string x))
    (buffer/push b "<" (string (type x)) ">")))

(defn show [x] (def b @"") (show-into b x) b)

(defn- show-err [b e]
  (if (and (bytes? e) (string/has-prefix? "match error at" e))
    (buffer/push b "E#")
    (do (buffer/push b "E:") (show-into b e))))

# result of a guarded call: the value, or the tuple [:err payload]
(defn show-result
  "text of a match result; with drop-last, an array is printed without its last element"
  [b r drop-last]
  (cond
    (nil? r) (buffer/push b "nil")
    (tuple? r) (show-err b (r 1))
    (do
      (buffer/push b "@[")
      (def n (if drop-last (- (length r) 1) (length r)))
      (for i 0 n
        (when (> i 0) (buffer/push b " "))
        (show-into b (in r i)))
      (buffer/push b "]")))
  b)

(defn one-line [e]
  (string/replace-all "\t" " " (string/replace-all "\n" " " (if (bytes? e) (string e) (string/format "%q" e)))))

(defmacro guard [& body]
  ~(try (do ,;body) ([e] [:err e])))

(def args (dyn :args))
(def case-sets (parse (slurp (get args 3))))
(def as-buffer (os/getenv "C12_TEXTBUF"))

# texts as exact-capacity buffers (ASan sees a read past either end)
(def- buf-cache @{})
(defn text-of [s]
  (if as-buffer
    (or (get buf-cache s)
        (let [b (buffer/trim (buffer/push (buffer/new (length s)) s))]
          (put buf-cache s b)
          b))
    s))

(defn do-match [pat0 setname]
  (def pat (subst-fns pat0))
  (def wrapped (tuple '* pat '($)))
  (def out @"")
  (def cw (guard (peg/compile wrapped)))
  (def cg (guard (peg/compile pat)))
  (if (or (tuple? cw) (tuple? cg))
    (buffer/push out "CE:" (one-line (get (if (tuple? cw) cw cg) 1)))
    (do
      (def ug (guard (unmarshal (marshal cg make-image-dict) load-image-dict)))
      (if (tuple? ug)
        (buffer/push out "UE:" (one-line (ug 1)))
        (buffer/push out "ok"))
      (def tmp @"")
      (def exp @"")
      (each [text0 start xargs] (get case-sets setname)
        (def text (text-of text0))
        (buffer/push out "\t")
        (def av (if (nil? start) [text] [text start ;xargs]))
        (def a (guard (peg/match cw ;av)))
        (show-result out a false)
        (buffer/clear exp)
        (show-result exp a true)
        (def s (guard (peg/match pat ;av)))
        (buffer/clear tmp)
        (show-result tmp s false)
        (unless (= (string tmp) (string exp)) (buffer/push out "!S" tmp))
        (def c (guard (peg/match cg ;av)))
        (buffer/clear tmp)
        (show-result tmp c false)
        (unless (= (string tmp) (string exp)) (buffer/push out "!C" tmp))
        (unless (tuple? ug)
          (def u (guard (peg/match ug ;av)))
          (buffer/clear tmp)
          (show-result tmp u false)
          (unless (= (string tmp) (string exp)) (buffer/push out "!U" tmp)))
        # the method form goes through the same entry point
        (def m (guard (:match cg ;av)))
        (buffer/clear tmp)
        (show-result tmp m false)
        (unless (= (string tmp) (string exp)) (buffer/push out "!M" tmp)))))
  (string out))

(defn- show-val [b r]
  (if (tuple? r) (show-err b (r 1)) (show-into b r))
  b)

(defn do-api [pat0 subst0 setname]
  (def pat (subst-fns pat0))
  (def subst (subst-fns subst0))
  (def out @"")
  (def cg (guard (peg/compile pat)))
  (if (tuple? cg)
    (buffer/push out "CE:" (one-line (cg 1)))
    (do
      (buffer/push out "ok")
      (def tmp @"")
      (def tmp2 @"")
      (each [text0 start xargs] (get case-sets setname)
        (def text (text-of text0))
        (each f [peg/find peg/find-all]
          (buffer/push out "\t")
          (buffer/clear tmp)
          (show-val tmp (guard (f cg text start ;xargs)))
          (buffer/push out tmp)
          (buffer/clear tmp2)
          (show-val tmp2 (guard (f pat text start ;xargs)))
          (unless (= (string tmp) (string tmp2)) (buffer/push out "!S" tmp2)))
        (each f [peg/replace peg/replace-all]
          (buffer/push out "\t")
          (buffer/clear tmp)
          (show-val tmp (guard (f cg subst text start ;xargs)))
          (buffer/push out tmp)
          (buffer/clear tmp2)
          (show-val tmp2 (guard (f pat subst text start ;xargs)))
          (unless (= (string tmp) (string tmp2)) (buffer/push out "!S" tmp2))))))
  (string out))

# every result ends with the field END: when the process dies, the output file can end in the
# middle of an already finished item's line (stdio flushes whole blocks), and the batch runner
# would take that fragment for a result. check.py re-runs items whose END is missing.
(batch-run
  (fn [item]
    (string
      (case (item 0)
        "m" (do-match (item 1) (item 2))
        "api" (do-api (item 1) (item 2) (item 3))
        (error (string "unknown item kind " (item 0))))
      "\tEND")))
