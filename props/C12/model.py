"""Reference PEG interpreter for property C12.

Written from the documented meaning of each combinator (the specials table
and comments in src/core/peg.c, docstrings of peg/match, peg/find, peg/find-all,
peg/replace, peg/replace-all, default-peg-grammar in boot.janet).  The model is
purely functional in the capture state: a matcher is a function
    m(pos, st) -> None | (pos', st')
with st = (captures, tagged, scratch) immutable, so "captures made inside a
failed alternative vanish" holds by construction -- a failing sub-match simply
never hands its state back.  The capture mode and the end of the current
sub-window are dynamically scoped fields of the match context and are restored
by every combinator that sets them, on every path.

Patterns are plain Python data mirroring the Janet source:
    bytes        literal string          int / bool     n chars, -n, true, false
    Kw           reference to a rule     dict           grammar (struct), needs "main"
    tuple        (Sym head, operands...) special form

Values (captures): None, bool, int, bytes (string), Kw (keyword), list (array),
TupV (tuple), U64, S64.

Two deliberately *separate* switches reproduce behaviours of the implementation
that the strict semantics does not have; they are used only to give a stable
signature to a mismatch (never to excuse it):
    q_lenprefix : mode not restored when the length pattern of `lenprefix` fails
    q_accnum    : `number` inside accumulate appends the matched text instead of
                  the number when the grammar contains no backref/backmatch
"""

import re

NORMAL, ACC = 0, 1


class Kw(str):
    pass


class Sym(str):
    pass


class TupV(tuple):
    pass


class U64(int):
    pass


class S64(int):
    pass


class PegError(Exception):
    """raised by the `error` combinator; .value is the payload or GENERIC"""

    def __init__(self, value):
        Exception.__init__(self)
        self.value = value


class Generic:
    def __repr__(self):
        return "GENERIC"


GENERIC = Generic()


class ModelUnsupported(Exception):
    pass


# ---------------------------------------------------------------------------
# printing (must agree with `show` in driver.janet)

_ESC = {}
for _c in range(256):
    if _c == 34:
        _ESC[_c] = '\\"'
    elif _c == 92:
        _ESC[_c] = "\\\\"
    elif 32 <= _c < 127:
        _ESC[_c] = chr(_c)
    else:
        _ESC[_c] = "\\x%02x" % _c


def esc(b):
    return "".join([_ESC[c] for c in b])


def show(v):
    if v is None:
        return "nil"
    if v is True:
        return "true"
    if v is False:
        return "false"
    t = type(v)
    if t is bytes:
        return '"' + esc(v) + '"'
    if t is int:
        return str(v)
    if t is Kw:
        return ":" + v
    if t is list:
        return "@[" + " ".join([show(x) for x in v]) + "]"
    if t is TupV:
        return "(" + " ".join([show(x) for x in v]) + ")"
    if t is U64:
        return "u64:%d" % v
    if t is S64:
        return "s64:%d" % v
    if t is bytearray:
        return '@"' + esc(v) + '"'
    raise TypeError("show %r" % (v,))


def tostr(v):
    """janet_to_string_b: what accumulate / text substitution appends."""
    if v is None:
        return b""
    if v is True:
        return b"true"
    if v is False:
        return b"false"
    t = type(v)
    if t is bytes:
        return v
    if t is int or t is U64 or t is S64:
        return b"%d" % v
    if t is Kw:
        return v.encode()
    if t is list:
        return b"<array>"
    if t is TupV:
        return b"<tuple>"
    if t is bytearray:
        return bytes(v)
    raise TypeError("tostr %r" % (v,))


def truthy(v):
    return not (v is None or v is False)


# ---------------------------------------------------------------------------
# functions usable in replace / cmt / as peg/replace substitution
# (mirrored in driver.janet's fnmap)

def _f_count(*xs):
    return len(xs)


def _f_last(*xs):
    return xs[-1] if xs else None


def _f_tup(*xs):
    return TupV(xs)


def _f_even(*xs):
    return len(xs) % 2 == 0


def _f_first(*xs):
    return xs[0] if xs else None


def _f_nil(*xs):
    return None


FUNS = {
    "$count": _f_count,
    "$last": _f_last,
    "$tup": _f_tup,      # the cfunction `tuple`
    "$even": _f_even,
    "$first": _f_first,
    "$nil": _f_nil,
}

ALIAS = {
    "!": "not", "$": "position", "%": "accumulate", "*": "sequence", "+": "choice",
    "->": "backref", "/": "replace", "<-": "capture", ">": "look", "?": "opt",
    "quote": "capture",
}

# default-peg-grammar of boot.janet, written out
_DEFAULT_SRC = {
    "a": (Sym("range"), b"az", b"AZ"),
    "d": (Sym("range"), b"09"),
    "h": (Sym("range"), b"09", b"af", b"AF"),
    "s": (Sym("set"), b" \t\r\n\0\f\v"),
    "w": (Sym("range"), b"az", b"AZ", b"09"),
}
DEFAULT_GRAMMAR = {}
for _k, _v in list(_DEFAULT_SRC.items()):
    DEFAULT_GRAMMAR[_k] = _v
    DEFAULT_GRAMMAR[_k.upper()] = (Sym("if-not"), Kw(_k), 1)
for _k in list(DEFAULT_GRAMMAR):
    DEFAULT_GRAMMAR[_k + "+"] = (Sym("some"), Kw(_k))
    DEFAULT_GRAMMAR[_k + "*"] = (Sym("any"), Kw(_k))


class Ctx:
    __slots__ = ("text", "n", "end", "mode", "args", "q_lenprefix", "q_accnum", "has_backref",
                 "nl")

    def __init__(self):
        self.q_lenprefix = False
        self.q_accnum = False
        self.has_backref = False


def _linecol(C, pos):
    """1-based line and column of byte offset pos; a newline belongs to the line it ends.
    Always relative to the whole text, never to a sub-window."""
    text = C.text
    k = text.count(b"\n", 0, pos)
    last = text.rfind(b"\n", 0, pos)
    return k + 1, pos - last


class Peg:
    """A compiled model pattern."""

    def __init__(self, src):
        self.C = Ctx()
        self.has_backref = False
        self.src = src
        self.m = self._compile(src, None)
        self.C.has_backref = self.has_backref

    # -- running ------------------------------------------------------------
    def run(self, text, start=0, args=(), q_lenprefix=False, q_accnum=False):
        """-> ("ok", captures list, endpos) | ("fail",) | ("error", value)"""
        C = self.C
        C.text = text
        C.n = len(text)
        C.end = len(text)
        C.mode = NORMAL
        C.args = args
        C.q_lenprefix = q_lenprefix
        C.q_accnum = q_accnum
        try:
            r = self.m(start, ((), (), b""))
        except PegError as e:
            return ("error", e.value)
        if r is None:
            return ("fail",)
        return ("ok", list(r[1][0]), r[0])

    # -- helpers ------------------------------------------------------------
    def _push(self, st, v, tag):
        caps, tags, scr = st
        if self.C.mode:
            return (caps, tags + ((tag, v),), scr + tostr(v))
        return (caps + (v,), tags + ((tag, v),), scr)

    def _tag(self, args, i):
        if len(args) > i:
            t = args[i]
            if not isinstance(t, Kw):
                raise ModelUnsupported("tag must be a keyword")
            return str(t)
        return 0

    # -- compilation --------------------------------------------------------
    def _compile(self, p, scope):
        C = self.C
        push = self._push
        comp = self._compile
        t = type(p)
        if t is bool:
            if p:
                return lambda pos, st: (pos, st)
            return lambda pos, st: None
        if t is int:
            if p >= 0:
                def nchar(pos, st, n=p):
                    return (pos + n, st) if pos + n <= C.end else None
                return nchar

            def notnchar(pos, st, n=-p):
                return (pos, st) if pos + n > C.end else None
            return notnchar
        if t is bytes or t is bytearray:
            lit = bytes(p)
            ln = len(lit)

            def literal(pos, st):
                if pos + ln <= C.end and C.text.startswith(lit, pos):
                    return (pos + ln, st)
                return None
            return literal
        if t is Kw:
            name = str(p)
            s = scope
            while s is not None:
                if name in s[0]:
                    return self._rule(s, name)
                s = s[1]
            if name in DEFAULT_GRAMMAR:
                return comp(DEFAULT_GRAMMAR[name], None)
            raise ModelUnsupported("unknown rule " + name)
        if isinstance(p, dict):
            if "main" not in p:
                raise ModelUnsupported("grammar requires :main")
            ns = ({k: v for k, v in p.items()}, scope, {})
            return self._rule(ns, "main")
        if t is not tuple or not p:
            raise ModelUnsupported("bad pattern %r" % (p,))
        head = p[0]
        a = p[1:]
        if type(head) is int:
            head, a = "repeat", p
        head = ALIAS.get(str(head), str(head))

        if head == "range":
            rs = [(x[0], x[1]) for x in a]
            for lo, hi in rs:
                if hi < lo:
                    raise ModelUnsupported("empty range")

            def rng(pos, st):
                if pos < C.end:
                    c = C.text[pos]
                    for lo, hi in rs:
                        if lo <= c <= hi:
                            return (pos + 1, st)
                return None
            return rng
        if head == "set":
            members = frozenset(a[0])

            def cset(pos, st):
                if pos < C.end and C.text[pos] in members:
                    return (pos + 1, st)
                return None
            return cset
        if head == "look":
            if len(a) == 2:
                off, sub = a[0], comp(a[1], scope)
            else:
                off, sub = 0, comp(a[0], scope)

            def look(pos, st):
                q = pos + off
                if q < 0 or q > C.end:
                    return None
                r = sub(q, st)
                if r is None:
                    return None
                return (pos, r[1])      # convention: captures of the looked-at pattern are kept
            return look
        if head == "choice":
            alts = [comp(x, scope) for x in a]

            def choice(pos, st):
                for alt in alts:
                    r = alt(pos, st)
                    if r is not None:
                        return r
                return None
            return choice
        if head == "sequence":
            parts = [comp(x, scope) for x in a]

            def sequence(pos, st):
                for part in parts:
                    r = part(pos, st)
                    if r is None:
                        return None
                    pos, st = r
                return (pos, st)
            return sequence
        if head == "if":
            cond, body = comp(a[0], scope), comp(a[1], scope)

            def pif(pos, st):
                r = cond(pos, st)
                if r is None:
                    return None
                return body(pos, r[1])  # convention: captures of the condition are kept
            return pif
        if head == "if-not":
            cond, body = comp(a[0], scope), comp(a[1], scope)

            def ifnot(pos, st):
                if cond(pos, st) is not None:
                    return None
                return body(pos, st)
            return ifnot
        if head == "not":
            sub = comp(a[0], scope)

            def pnot(pos, st):
                if sub(pos, st) is not None:
                    return None
                return (pos, st)
            return pnot
        if head in ("to", "thru"):
            sub = comp(a[0], scope)
            thru = head == "thru"

            def search(pos, st):
                q = pos
                while q <= C.end:
                    r = sub(q, st)
                    if r is not None:
                        return r if thru else (q, st)
                    q += 1
                return None
            return search
        if head in ("between", "any", "some", "at-least", "at-most", "opt", "repeat"):
            if head == "between":
                lo, hi, sub = a[0], a[1], a[2]
            elif head == "any":
                lo, hi, sub = 0, None, a[0]
            elif head == "some":
                lo, hi, sub = 1, None, a[0]
            elif head == "at-least":
                lo, hi, sub = a[0], None, a[1]
            elif head == "at-most":
                lo, hi, sub = 0, a[0], a[1]
            elif head == "opt":
                lo, hi, sub = 0, 1, a[0]
            else:
                lo, hi, sub = a[0], a[0], a[1]
            if lo < 0 or (hi is not None and hi < 0):
                raise ModelUnsupported("negative repetition bound")
            sub = comp(sub, scope)

            def between(pos, st):
                n = 0
                while hi is None or n < hi:
                    r = sub(pos, st)
                    if r is None:
                        break
                    if hi is None and r[0] == pos:
                        # convention: an unbounded repetition stops at (and discards) an
                        # iteration that consumes nothing
                        break
                    n += 1
                    pos, st = r
                if n < lo:
                    return None
                return (pos, st)
            return between

        # ---- captures -----------------------------------------------------
        if head == "backref":
            self.has_backref = True
            search = self._tag(a, 0)
            tag = self._tag(a, 1)

            def backref(pos, st):
                for tg, v in reversed(st[1]):
                    if tg == search:
                        return (pos, push(st, v, tag))
                return None
            return backref
        if head == "position":
            tag = self._tag(a, 0)
            return lambda pos, st: (pos, push(st, pos, tag))
        if head == "line":
            tag = self._tag(a, 0)
            return lambda pos, st: (pos, push(st, _linecol(C, pos)[0], tag))
        if head == "column":
            tag = self._tag(a, 0)
            return lambda pos, st: (pos, push(st, _linecol(C, pos)[1], tag))
        if head == "argument":
            idx = a[0]
            tag = self._tag(a, 1)

            def argument(pos, st):
                v = C.args[idx] if idx < len(C.args) else None
                return (pos, push(st, v, tag))
            return argument
        if head == "constant":
            val = a[0]
            if isinstance(val, Sym) or type(val) in (tuple, dict):
                raise ModelUnsupported("constant kind")
            tag = self._tag(a, 1)
            return lambda pos, st: (pos, push(st, val, tag))
        if head == "capture":
            sub = comp(a[0], scope)
            tag = self._tag(a, 1)

            def capture(pos, st):
                r = sub(pos, st)
                if r is None:
                    return None
                return (r[0], push(r[1], C.text[pos:r[0]], tag))
            return capture
        if head == "number":
            sub = comp(a[0], scope)
            base = a[1] if len(a) > 1 and a[1] is not None else 10
            tag = self._tag(a, 2)

            def number(pos, st):
                r = sub(pos, st)
                if r is None:
                    return None
                raw = C.text[pos:r[0]]
                v = scan_int(raw, base)
                if v is None:
                    return None
                if C.q_accnum and C.mode and not C.has_backref:
                    caps, tags, scr = r[1]
                    return (r[0], (caps, tags, scr + raw))
                return (r[0], push(r[1], v, tag))
            return number
        if head == "accumulate":
            sub = comp(a[0], scope)
            tag = self._tag(a, 1)

            def accumulate(pos, st):
                old = C.mode
                if tag == 0 and old:
                    return sub(pos, st)
                C.mode = ACC
                try:
                    r = sub(pos, st)
                finally:
                    C.mode = old
                if r is None:
                    return None
                caps, tags, scr = st
                return (r[0], push((caps, r[1][1], scr), r[1][2][len(scr):], tag))
            return accumulate
        if head == "drop":
            sub = comp(a[0], scope)

            def drop(pos, st):
                r = sub(pos, st)
                if r is None:
                    return None
                return (r[0], st)
            return drop
        if head == "only-tags":
            sub = comp(a[0], scope)

            def only_tags(pos, st):
                r = sub(pos, st)
                if r is None:
                    return None
                return (r[0], (st[0], r[1][1], st[2]))
            return only_tags
        if head in ("group", "nth", "replace", "cmt"):
            if head == "group":
                sub, tag = comp(a[0], scope), self._tag(a, 1)
                nth = subst = None
            elif head == "nth":
                nth, sub, tag = a[0], comp(a[1], scope), self._tag(a, 2)
                subst = None
            else:
                sub, subst, tag = comp(a[0], scope), a[1], self._tag(a, 2)
                nth = None
                if isinstance(subst, Sym):
                    if str(subst) not in FUNS:
                        raise ModelUnsupported("unknown function " + subst)
                    subst = FUNS[str(subst)]
                elif head == "cmt":
                    raise ModelUnsupported("cmt needs a function")
                elif type(subst) is tuple:
                    raise ModelUnsupported("replace constant kind")

            def collect(pos, st):
                old = C.mode
                C.mode = NORMAL
                try:
                    r = sub(pos, st)
                finally:
                    C.mode = old
                if r is None:
                    return None
                caps, tags, scr = st
                allcaps = r[1][0]
                inner = allcaps[len(caps):]
                if head == "group":
                    v = list(inner)
                elif head == "nth":
                    if len(inner) <= nth:
                        return None
                    v = inner[nth]
                elif callable(subst):
                    v = subst(*inner)
                elif type(subst) is dict:
                    # convention (implementation): the key is the last capture on the whole
                    # capture stack, not only among those of the sub-pattern
                    v = None
                    if allcaps:
                        k = allcaps[-1]
                        if type(k) in (bytes, int, Kw, bool) or k is None:
                            v = subst.get(k)
                else:
                    v = subst
                if head == "cmt" and not truthy(v):
                    return None
                return (r[0], push((caps, r[1][1], scr), v, tag))
            return collect
        if head == "error":
            sub = comp(a[0], scope) if a else comp(0, scope)

            def error(pos, st):
                old = C.mode
                C.mode = NORMAL
                try:
                    r = sub(pos, st)
                finally:
                    C.mode = old
                if r is None:
                    return None
                if len(r[1][0]) > len(st[0]):
                    raise PegError(r[1][0][-1])
                raise PegError(GENERIC)
            return error
        if head == "backmatch":
            self.has_backref = True
            search = self._tag(a, 0)

            def backmatch(pos, st):
                for tg, v in reversed(st[1]):
                    if tg == search:
                        if type(v) is not bytes:
                            return None
                        if pos + len(v) <= C.end and C.text.startswith(v, pos):
                            return (pos + len(v), st)
                        return None
                return None
            return backmatch
        if head == "lenprefix":
            lenp, sub = comp(a[0], scope), comp(a[1], scope)

            def lenprefix(pos, st):
                old = C.mode
                C.mode = NORMAL
                r = None
                try:
                    r = lenp(pos, st)
                finally:
                    # strict semantics: the mode is restored on every path. The switch
                    # reproduces the implementation, which skips it when lenp fails.
                    if not (C.q_lenprefix and r is None):
                        C.mode = old
                if r is None:
                    return None
                inner = r[1][0][len(st[0]):]
                if not inner:
                    return None
                n = inner[0]
                if type(n) is not int or not (-2 ** 31 <= n < 2 ** 31):
                    return None
                pos = r[0]
                # all captures (and tags) of the length pattern are dropped
                for _ in range(n):
                    r = sub(pos, st)
                    if r is None:
                        return None
                    pos, st = r
                return (pos, st)
            return lenprefix
        if head in ("int", "uint", "int-be", "uint-be"):
            width = a[0]
            if not 0 <= width <= 8:
                raise ModelUnsupported("width")
            tag = self._tag(a, 1)
            signed = head.startswith("int")
            order = "big" if head.endswith("-be") else "little"

            def readint(pos, st):
                if pos + width > C.end:
                    return None
                v = int.from_bytes(C.text[pos:pos + width], order, signed=signed)
                if width > 6:
                    v = S64(v) if signed else U64(v)
                return (pos + width, push(st, v, tag))
            return readint
        if head == "unref":
            sub = comp(a[0], scope)
            tag = self._tag(a, 1)

            def unref(pos, st):
                r = sub(pos, st)
                if r is None:
                    return None
                caps, tags, scr = r[1]
                base = len(st[1])
                if tag == 0:
                    kept = ()
                else:
                    kept = tuple([x for x in tags[base:] if x[0] != tag])
                return (r[0], (caps, tags[:base] + kept, scr))
            return unref
        if head == "sub":
            win, sub = comp(a[0], scope), comp(a[1], scope)

            def psub(pos, st):
                w = win(pos, st)
                if w is None:
                    return None
                old = C.end
                C.end = w[0]
                try:
                    r = sub(pos, w[1])
                finally:
                    C.end = old
                if r is None:
                    return None
                return (w[0], r[1])
            return psub
        if head == "til":
            term, sub = comp(a[0], scope), comp(a[1], scope)

            def til(pos, st):
                q = pos
                t_end = None
                while q <= C.end:
                    r = term(q, st)
                    if r is not None:
                        t_end = r[0]        # captures of the terminus are dropped
                        break
                    q += 1
                if t_end is None:
                    return None
                old = C.end
                C.end = q
                try:
                    r = sub(pos, st)
                finally:
                    C.end = old
                if r is None:
                    return None
                return (t_end, r[1])
            return til
        if head == "split":
            sep, sub = comp(a[0], scope), comp(a[1], scope)

            def split(pos, st):
                outer = C.end
                chunk_start = pos
                q = pos
                while q <= outer:
                    # next separator at or after q (its captures are dropped), else end of input
                    chunk_end = outer
                    nxt = outer + 1
                    while q <= outer:
                        r = sep(q, st)
                        if r is not None:
                            chunk_end = q
                            nxt = r[0]
                            break
                        q += 1
                    C.end = chunk_end
                    try:
                        r = sub(chunk_start, st)
                    finally:
                        C.end = outer
                    if r is None:
                        return None
                    st = r[1]
                    if nxt == chunk_start:
                        return None     # an empty separator at the chunk start: no progress
                    chunk_start = q = nxt
                return (outer, st)
            return split
        raise ModelUnsupported("unknown special %s" % head)

    def _rule(self, ns, name):
        """reference to rule `name` of grammar scope ns = (rules, parent, cache)."""
        cache = ns[2]
        if name in cache:
            cell = cache[name]
        else:
            cell = cache[name] = [None]
            body = ns[0][name]
            # a keyword bound to another keyword is resolved in the scope where it was found
            cell[0] = self._compile(body, ns)
        if cell[0] is not None:
            return cell[0]
        return lambda pos, st: cell[0](pos, st)


_DIG = {}
for _i, _c in enumerate(b"0123456789abcdefghijklmnopqrstuvwxyz"):
    _DIG[_c] = _i
for _i, _c in enumerate(b"ABCDEFGHIJKLMNOPQRSTUVWXYZ"):
    _DIG[_c] = _i + 10


def scan_int(raw, base):
    """The fragment of janet's number syntax reachable with the alphabets used here:
    optional sign, then one or more digits of the base. Anything else is outside the model."""
    if not raw:
        return None
    i = 0
    neg = False
    if raw[0] in b"+-":
        neg = raw[0] == 45
        i = 1
    if i >= len(raw):
        return None
    v = 0
    for c in raw[i:]:
        if c in b"._&xXrRpPeE" or c == 48:
            raise ModelUnsupported("number syntax outside the model: %r" % raw)
        d = _DIG.get(c)
        if d is None or d >= base:
            return None
        v = v * base + d
    return -v if neg else v


# ---------------------------------------------------------------------------
# entry points mirrored from the documented API

def result_text(res, with_pos=True):
    """Text the driver prints for the wrapped match `(* g ($))`."""
    if res[0] == "fail":
        return "nil"
    if res[0] == "error":
        if res[1] is GENERIC:
            return "E#"
        return "E:" + show(res[1])
    caps = res[1] + [res[2]] if with_pos else res[1]
    return "@[" + " ".join([show(x) for x in caps]) + "]"


def find(peg, text, start, args, **q):
    """least index i in [start, len) at which the peg matches; None if there is none"""
    for i in range(start, len(text)):
        r = peg.run(text, i, args, **q)
        if r[0] == "error":
            raise PegError(r[1])
        if r[0] == "ok":
            return i
    return None


def find_all(peg, text, start, args, **q):
    out = []
    for i in range(start, len(text)):
        r = peg.run(text, i, args, **q)
        if r[0] == "error":
            raise PegError(r[1])
        if r[0] == "ok":
            out.append(i)
    return out


def replace(peg, subst, text, start, args, only_one, **q):
    """scan i from start; at a match replace text[i:end] by the substitution and continue
    after the match (after one more byte when the match is empty); stop after the first
    replacement for peg/replace. subst: bytes | value | python function(matched, *caps)."""
    out = bytearray()
    trail = 0
    i = start
    n = len(text)
    while i < n:
        r = peg.run(text, i, args, **q)
        if r[0] == "error":
            raise PegError(r[1])
        if r[0] == "ok":
            out += text[trail:i]
            end = r[2]
            if callable(subst):
                s = tostr(subst(text[i:end], *r[1]))
            else:
                s = tostr(subst)
            out += s
            trail = end
            i = end + 1 if end == i else end
            if only_one:
                break
        else:
            i += 1
    if trail < n:
        out += text[trail:]
    return bytearray(out)


_ADDR = re.compile(r"<(array|tuple) 0x[0-9A-Fa-f]+>")


def normalize(s):
    """remove addresses from the text of arrays/tuples that went through accumulate"""
    if "0x" in s:
        return _ADDR.sub(r"<\1>", s)
    return s
