# C16 driver: one scenario per batch item. Writers send position-coded bytes over a
# pipe / unix socket / subprocess stdin; readers collect until end of stream. The
# driver verifies order per writer while receiving and returns a compact report.
(use prelude)

(def exe (dyn :executable))

(defn payload
  "byte i of writer k is 64k + (i mod 61): the receiver can check order per writer"
  [k size]
  (def b (buffer/new size))
  (for i 0 size (buffer/push-byte b (+ (* 64 k) (% i 61))))
  b)

(defn make-pair [kind scratch]
  (case kind
    :pipe (let [[r w] (os/pipe)] [r w nil])
    :unix (let [path (string scratch "/c16-" (os/getpid) "-" (math/floor (* 1e9 (math/random))) ".sock")
                srv (net/listen :unix path)
                cli (net/connect :unix path)
                conn (net/accept srv)]
            (os/rm path)
            [conn cli srv])
    (errorf "bad kind %p" kind)))

(defn new-tracker []
  @{:count @[0 0 0 0] :bad nil :chunks @[] :total 0})

(defn track [t buf]
  (array/push (t :chunks) (length buf))
  (each byte buf
    (def k (div byte 64))
    (def pos (get (t :count) k))
    (when (and (nil? (t :bad)) (not= (% byte 64) (% pos 61)))
      (put t :bad [k pos (% byte 64)]))
    (put (t :count) k (inc pos)))
  (put t :total (+ (t :total) (length buf))))

(defn run-stream [item]
  (def [rd wr extra] (make-pair (item :kind) (item :scratch)))
  (def done (ev/chan 16))
  (def res @{})
  (def trackers @[])
  (def nw (length (item :writers)))
  (var wleft nw)
  # writers
  (eachp [k [size pieces]] (item :writers)
    (def data (payload k size))
    (ev/go (fn []
             (def r (try
                      (do
                        (if (<= pieces 1)
                          (ev/write wr data)
                          (let [step (max 1 (div (+ size pieces -1) pieces))]
                            (var off 0)
                            (while (< off size)
                              (ev/write wr (buffer/slice data off (min size (+ off step))))
                              (+= off step))))
                        :ok)
                      ([e] [:error (string e)])))
             (put res [:w k] r)
             (-- wleft)
             (when (and (= 0 wleft) (= :writers-done (item :close))) (ev/close wr))
             (ev/give done [:w k]))))
  # readers
  (def [rmode rn] (item :reader))
  (for j 0 (item :nreaders)
    (def t (new-tracker))
    (array/push trackers t)
    (ev/go (fn []
             (def r (try
                      (do
                        (var eof false)
                        (var rounds 0)
                        (while (not eof)
                          (def b (case rmode
                                   :read (ev/read rd rn)
                                   :chunk (ev/chunk rd rn)
                                   :nread (net/read rd rn)
                                   :nchunk (net/chunk rd rn)
                                   :all (ev/read rd :all)))
                          (++ rounds)
                          (if (nil? b) (set eof true) (track t b))
                          (when (and (= rmode :all) b) (set eof true)))
                        :eof)
                      ([e] [:error (string e)])))
             (put res [:r j] r)
             (ev/give done [:r j]))))
  # optional extra actions by the director
  (when (= :close-write-early (item :close))
    (ev/go (fn [] (ev/sleep 1) (ev/close wr) (ev/give done [:x 0]))))
  (when (= :close-read-early (item :close))
    (ev/go (fn [] (ev/sleep 1) (ev/close rd) (ev/give done [:x 0]))))
  (def expect (+ nw (item :nreaders) (if (index-of (item :close) [:close-write-early :close-read-early]) 1 0)))
  (var got 0)
  (def stuck (try
               (do (ev/with-deadline 1000 (repeat expect (ev/take done) (++ got))) false)
               ([e] true)))
  (when extra (protect (ev/close extra)))
  (protect (ev/close rd))
  (protect (ev/close wr))
  [(if stuck [:stuck got expect] :finished)
   (tuple ;(seq [k :range [0 nw]] (get res [:w k] :pending)))
   (tuple ;(seq [j :range [0 (item :nreaders)]] (get res [:r j] :pending)))
   (tuple ;(map (fn [t] [(tuple ;(t :count)) (t :bad) (t :total)
                          (length (t :chunks))
                          (if (empty? (t :chunks)) 0 (min ;(t :chunks)))
                          (if (empty? (t :chunks)) 0 (max ;(t :chunks)))
                          # number of chunks whose length differs from rn, and whether only the last one does
                          (count |(not= $ rn) (t :chunks))
                          (if (empty? (t :chunks)) nil (last (t :chunks)))])
                trackers))])

(def child-script
  ``(def data (file/read stdin :all))
    (def mode (get (dyn :args) 1))
    (def code (scan-number (get (dyn :args) 2)))
    (when data
      (file/write stdout (if (= mode "upper") (string/ascii-upper data) data))
      (when (= mode "both") (file/write stderr (string/reverse data))))
    (file/flush stdout) (file/flush stderr)
    (os/exit code)``)

(defn run-proc [item]
  (def size (item :size))
  (def script (string (item :scratch) "/child-" (os/getpid) ".janet"))
  (spit script child-script)
  (def data (buffer/new size))
  (for i 0 size (buffer/push-byte data (+ 97 (% i 26))))
  (def p (os/spawn [exe script (item :mode) (string (item :code))] :p {:in :pipe :out :pipe :err :pipe}))
  (def out @"")
  (def err @"")
  (def done (ev/chan 4))
  (ev/go (fn [] (try (do (when (> size 0) (ev/write (p :in) data)) (ev/close (p :in))) ([e] nil)) (ev/give done :w)))
  (ev/go (fn [] (try (while (def b (ev/read (p :out) 4096)) (buffer/push out b)) ([e] nil)) (ev/give done :o)))
  (ev/go (fn [] (try (while (def b (ev/read (p :err) 4096)) (buffer/push err b)) ([e] nil)) (ev/give done :e)))
  (def stuck (try (do (ev/with-deadline 1000 (repeat 3 (ev/take done))) false) ([e] true)))
  (def code (if stuck :stuck (os/proc-wait p)))
  (os/proc-close p)
  (def want-out (if (= (item :mode) "upper") (string/ascii-upper data) (string data)))
  (def want-err (if (= (item :mode) "both") (string/reverse data) ""))
  [(if stuck :stuck :finished) code (= (string out) want-out) (length out) (= (string err) want-err) (length err)])

(defn run-execute [item]
  # os/execute while another fiber forces collections: status and redirected output must be exact
  (def path (string (item :scratch) "/exec-" (os/getpid) ".out"))
  (def f (file/open path :w))
  (var stop false)
  (ev/go (fn [] (while (not stop) (gccollect) (ev/sleep 0.001))))
  (def code (os/execute ["/bin/sh" "-c" (string "sleep 0.05; echo done-" (item :code) "; exit " (item :code))] :p {:out f}))
  (set stop true)
  (file/close f)
  (def out (slurp path))
  (os/rm path)
  [:finished code (string out)])

(defn run-queued [item]
  # the whole payload is queued on the stream before the reader asks for it, and the writer then stays idle:
  # a chunked read must complete without any further event from the peer
  (def [rd wr extra] (make-pair (item :kind) (item :scratch)))
  (def size (item :size))
  (def data (payload 0 size))
  (def done (ev/chan 2))
  (var wres :pending) (var rres :pending)
  (ev/go (fn [] (set wres (try (do (ev/write wr data) :ok) ([e] [:error (string e)]))) (ev/give done :w)))
  (def t (new-tracker))
  (def wstuck (try (do (ev/with-deadline 500 (ev/take done)) false) ([e] true)))
  (unless wstuck
    (ev/go (fn [] (set rres (try (do (def b (if (= (item :mode) :chunk) (ev/chunk rd size) (ev/read rd size)))
                                    (when b (track t b)) :done) ([e] [:error (string e)])))
             (ev/give done :r)))
    (try (ev/with-deadline 500 (ev/take done)) ([e] nil)))
  (when extra (protect (ev/close extra)))
  (protect (ev/close rd)) (protect (ev/close wr))
  [(if wstuck :writer-blocked :ran) wres rres (t :total) (t :bad)])

(defn run-duplex [item]
  # one stream object with a parked reader AND a writer at the same time: the client's reader waits for the reply while
  # the client's writer pushes a payload larger than the socket buffer; the server reads everything, then replies
  (def [conn cli srv] (make-pair :unix (item :scratch)))
  (def size (item :size))
  (def data (payload 0 size))
  (def done (ev/chan 4))
  (var wres :pending) (var rres :pending) (var sres :pending)
  (def t (new-tracker))
  (def reply @"")
  # the two client tasks are started from a frame of their own, so that no dead register of this frame keeps them alive:
  # while they are parked, the stream is the only path to them
  ((fn []
     (ev/go (fn [] (set rres (try (do (while (def b (ev/read cli 64)) (buffer/push reply b)) :eof) ([e] [:error (string e)])))
              (ev/give done :r)))
     (ev/go (fn [] (ev/sleep 0)     # the reader is parked first
              (set wres (try (do (ev/write cli data) :ok) ([e] [:error (string e)])))
              (ev/give done :w)))
     nil))
  (def go (ev/chan 1))
  (ev/go (fn [] (set sres (try (do
                                 (when (item :gc) (ev/take go))     # the server starts draining after the collection
                                 (var left size)
                                 (while (> left 0)
                                   (def b (ev/read conn (min left 65536)))
                                   (if (nil? b) (break))
                                   (track t b)
                                   (-= left (length b)))
                                 (ev/write conn (string "done:" (t :total)))
                                 (ev/close conn)
                                 :ok) ([e] [:error (string e)])))
           (ev/give done :s)))
  (var got 0)
  (when (item :gc)
    # both client fibers are parked and referenced by nothing but the stream: they must survive collections
    (ev/sleep 0.01) (gccollect) (gccollect) (ev/give go true))
  (def stuck (try (do (ev/with-deadline 1000 (repeat 3 (ev/take done) (++ got))) false) ([e] true)))
  (protect (ev/close srv)) (protect (ev/close cli)) (protect (ev/close conn))
  [(if stuck [:stuck got] :finished) wres rres sres (string reply) (t :total) (t :bad)])

(defn run-close-both [item]
  # a reader and a writer are both parked on one stream (the peer neither writes nor reads), then a third fiber closes
  # the stream: both operations must end (with nil, a partial result or an error) - none may stay suspended
  (def [conn cli srv] (make-pair :unix (item :scratch)))
  (def done (ev/chan 4))
  (var wres :pending) (var rres :pending)
  (def data (payload 0 (item :size)))
  (when (item :reader)
    (ev/go (fn [] (set rres (try (do (ev/read cli 64) :returned) ([e] :raised))) (ev/give done :r))))
  (when (item :writer)
    (ev/go (fn [] (ev/sleep 0) (set wres (try (do (ev/write cli data) :returned) ([e] :raised))) (ev/give done :w))))
  (ev/sleep 1)
  (def before [rres wres])
  (ev/close cli)
  (def expect (+ (if (item :reader) 1 0) (if (item :writer) 1 0)))
  (var got 0)
  (def stuck (try (do (ev/with-deadline 1000 (repeat expect (ev/take done) (++ got))) false) ([e] true)))
  (protect (ev/close conn)) (protect (ev/close srv))
  [(if stuck [:stuck got] :finished) before rres wres])

(defn run-accept-burst [item]
  # n clients connect in the same loop turn; the accept loop must serve every one of them
  (def n (item :n))
  (def path (string (item :scratch) "/c16-acc-" (os/getpid) "-" (math/floor (* 1e9 (math/random))) ".sock"))
  (def srv (net/listen :unix path))
  (def served @[])
  (ev/go (fn [] (protect (net/accept-loop srv (fn [conn]
                                              (defer (ev/close conn)
                                                (def req (ev/read conn 64))
                                                (array/push served (string req))
                                                (ev/write conn (string "echo:" req))))))))
  (def done (ev/chan n))
  (def replies @{})
  (for i 0 n
    (ev/go (fn []
             (def r (try (do
                           (def c (net/connect :unix path))
                           (ev/write c (string "req-" i))
                           (def rep (ev/read c 64))
                           (ev/close c)
                           (string rep))
                         ([e] [:error (string e)])))
             (put replies i r)
             (ev/give done i))))
  (var got 0)
  (def stuck (try (do (ev/with-deadline 1000 (repeat n (ev/take done) (++ got))) false) ([e] true)))
  (ev/close srv)
  (protect (os/rm path))
  [(if stuck [:stuck got] :finished) n (length served)
   (tuple ;(seq [i :range [0 n] :when (not= (get replies i) (string "echo:req-" i))] [i (get replies i :none)]))])

(defn run-halfclose [item]
  # the client writes a payload, half-closes its sending side, and still receives the reply
  (def [conn cli srv] (make-pair :unix (item :scratch)))
  (def size (item :size))
  (def data (payload 0 size))
  (def done (ev/chan 2))
  (var sres :pending) (var cres :pending)
  (def t (new-tracker))
  (ev/go (fn [] (set sres (try (do (while (def b (ev/read conn 65536)) (track t b))
                                    (ev/write conn (string "got:" (t :total)))
                                    (ev/close conn) :ok) ([e] [:error (string e)])))
           (ev/give done :s)))
  (ev/go (fn [] (set cres (try (do (when (> size 0) (ev/write cli data))
                                    (net/shutdown cli (item :how))
                                    (def reply @"")
                                    (while (def b (ev/read cli 64)) (buffer/push reply b))
                                    (string reply)) ([e] [:error (string e)])))
           (ev/give done :c)))
  (var got 0)
  (def stuck (try (do (ev/with-deadline 1000 (repeat 2 (ev/take done) (++ got))) false) ([e] true)))
  (protect (ev/close srv)) (protect (ev/close cli)) (protect (ev/close conn))
  [(if stuck [:stuck got] :finished) sres cres (t :total) (t :bad)])

(defn run-shared [item]
  # a child whose standard streams share one duplex stream (inetd arrangement and its variants)
  (def [conn cli srv] (make-pair :unix (item :scratch)))
  (def devnull-r (file/open "/dev/null" :r))
  (def devnull-w (file/open "/dev/null" :w))
  (def script "read line; echo \"out:$line\"; echo \"err:$line\" >&2; exit 7")
  (def tab (case (item :share)
             :in-out {:in conn :out conn :err devnull-w}
             :in-err {:in conn :err conn :out devnull-w}
             :out-err {:in devnull-r :out conn :err conn}
             :all {:in conn :out conn :err conn}))
  (unless (= :out-err (item :share))
    (ev/write cli "ping\n"))     # queued on the connection before the child starts (nobody would read it in :out-err)
  (def r (protect (os/proc-wait (os/spawn ["/bin/sh" "-c" script] :p tab))))
  (ev/close conn)
  (def out @"")
  (def stuck (try (do (ev/with-deadline 1000 (while (def b (ev/read cli 4096)) (buffer/push out b))) false)
                  ([e] (if (= e "deadline expired") true [:error (string e)]))))
  (file/close devnull-r) (file/close devnull-w)
  (protect (ev/close cli)) (protect (ev/close srv))
  [(case stuck true :stuck false :finished stuck) (if (r 0) (r 1) [:error (string (r 1))]) (string out)])

(defn run-signal [item]
  # a child that sleeps is killed with a signal: the wait result must report it
  (def p (os/spawn ["/bin/sleep" "100"] :p))
  (os/proc-kill p false (item :signal))
  (def code (os/proc-wait p))
  (os/proc-close p)
  [:finished code])

(batch-run
  (fn [item]
    (def eintr (item :eintr))
    (when eintr (verif/io-eintr eintr))
    (def c0 ((verif/io-calls) 0))
    (def r (case (item :what)
             :stream (run-stream item)
             :proc (run-proc item)
             :signal (run-signal item)
             :execute (run-execute item)
             :queued (run-queued item)
             :close-both (run-close-both item)
             :accept-burst (run-accept-burst item)
             :halfclose (run-halfclose item)
             :duplex (run-duplex item)
             :shared (run-shared item)))
    (def c1 (verif/io-calls))
    (canon [r (- (c1 0) c0)])))
