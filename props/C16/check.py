#!/usr/bin/env python3
"""C16 - stream and subprocess I/O delivers every byte once, in order.

Exhaustive scenario grid on the real event loop (one process, both ends of every
stream inside it, so the kernel's behaviour is a deterministic function of the
call sequence): stream kind x writer payload sizes around the pipe/socket buffer
size x number of writer fibers x pieces per writer x reader mode/size x number of
reader fibers x close policy; subprocess stdin/stdout/stderr x payload size x exit
code / signal. Position-coded payloads let the receiver verify per-writer order.
On top (K5): every scenario below a call-count cap is re-run with EINTR injected
at each numbered read/write-family call (deviation bound 1, pairs for the smallest).
"""
import itertools
import os
import shutil
import sys

HERE = os.path.dirname(os.path.abspath(__file__))
sys.path.insert(0, os.path.join(HERE, "..", "..", "engine", "mc"))
from core import *  # noqa
HERE = os.path.dirname(os.path.abspath(__file__))
import canonparse  # noqa

DRIVER = os.path.join(HERE, "driver.janet")


def stream_item(scratch, kind, writers, reader, nreaders=1, close="writers-done", eintr=None):
    d = {Kw("what"): Kw("stream"), Kw("kind"): Kw(kind), Kw("scratch"): scratch,
         Kw("writers"): [[s, p] for s, p in writers], Kw("reader"): [Kw(reader[0]), reader[1]],
         Kw("nreaders"): nreaders, Kw("close"): Kw(close), Kw("eintr"): list(eintr) if eintr else None}
    return d


def proc_item(scratch, size, mode, code, eintr=None):
    return {Kw("what"): Kw("proc"), Kw("scratch"): scratch, Kw("size"): size, Kw("mode"): mode, Kw("code"): code,
            Kw("eintr"): list(eintr) if eintr else None}


def describe(d):
    keys = ["what", "kind", "writers", "reader", "nreaders", "close", "size", "mode", "code", "signal", "share", "n", "how", "eintr"]
    return " ".join("%s=%s" % (k, jdn(d[Kw(k)])) for k in keys if Kw(k) in d and d[Kw(k)] is not None)


def shape_sig(d):
    """stable, size-class based signature of a scenario"""
    def cls(n):
        return "0" if n == 0 else ("small" if n < 4096 else ("page" if n <= 4097 else ("buf" if n <= 65537 else "big")))
    if d[Kw("what")] == "stream":
        ws = d[Kw("writers")]
        return "%s:w%d[%s]:%s:r%d:%s" % (d[Kw("kind")], len(ws), ",".join(sorted({cls(w[0]) for w in ws})),
                                         d[Kw("reader")][0], d[Kw("nreaders")], d[Kw("close")])
    if d[Kw("what")] == "proc":
        return "proc:%s:%s:code%s" % (cls(d[Kw("size")]), d[Kw("mode")], d[Kw("code")])
    if d[Kw("what")] == "execute":
        return "execute-with-gc:code%s" % d[Kw("code")]
    if d[Kw("what")] == "queued":
        return "queued-then-read:%s:%s:%s" % (d[Kw("kind")], d[Kw("mode")], cls(d[Kw("size")]))
    if d[Kw("what")] == "duplex":
        return "duplex:%s%s" % (cls(d[Kw("size")]), ":gc" if d.get(Kw("gc")) else "")
    if d[Kw("what")] == "shared":
        return "shared-redirect:%s" % d[Kw("share")]
    if d[Kw("what")] == "halfclose":
        return "half-close:%s:%s" % (d[Kw("how")], cls(d[Kw("size")]))
    if d[Kw("what")] == "close-both":
        return "close-with-pending:%s%s" % ("reader" if d[Kw("reader")] else "", "+writer" if d[Kw("writer")] else "")
    if d[Kw("what")] == "accept-burst":
        return "accept-burst:n%d" % d[Kw("n")]
    return "signal:%s" % d[Kw("signal")]


SHARED_EXPECT = {"in-out": "out:ping\n", "in-err": "err:ping\n", "out-err": "out:\nerr:\n", "all": "out:ping\nerr:ping\n"}


def judge_extra(d, r):
    """duplex and shared-redirect scenarios"""
    probs = []
    what = d[Kw("what")]
    if what == "duplex":
        st_, wres, rres, sres, reply, total, bad = r
        size = d[Kw("size")]
        if st_ != "finished":
            probs.append(("operation-left-suspended", "reader and writer parked on one stream, %d bytes: %r writer=%r reader=%r server=%r (server got %r bytes)" % (
                size, st_, wres, rres, sres, total)))
        elif wres != "ok" or sres != "ok" or rres != "eof":
            probs.append(("operation-failed", "writer=%r reader=%r server=%r" % (wres, rres, sres)))
        elif total != size or bad is not None or reply != "done:%d" % size:
            probs.append(("bytes-lost-or-reordered", "sent %d, server received %r (first bad %r), reply %r" % (size, total, bad, reply)))
    if what == "close-both":
        st_, before, rres, wres = r
        if st_ != "finished":
            probs.append(("operation-left-suspended", "stream closed while a reader%s parked on it: %r; reader %r, writer %r "
                          "(before the close: %r)" % (" and a writer were" if d[Kw("writer")] and d[Kw("reader")] else
                                                      (" was" if d[Kw("reader")] else "... a writer was"), st_, rres, wres, before)))
    if what == "halfclose":
        st_, sres, cres, total, bad = r
        size = d[Kw("size")]
        if st_ != "finished":
            probs.append(("operation-left-suspended", "payload of %d bytes, then net/shutdown %s: %r server=%r client=%r" % (size, d[Kw("how")], st_, sres, cres)))
        elif sres != "ok" or cres != "got:%d" % size or total != size or bad is not None:
            probs.append(("half-close", "payload of %d bytes, then net/shutdown %s: server %r received %r bytes (first bad %r), client "
                          "read the reply %r" % (size, d[Kw("how")], sres, total, bad, cres)))
    if what == "accept-burst":
        st_, n, served, wrong = r
        if st_ != "finished" or served != n or wrong:
            probs.append(("connections-not-served", "%d clients connected in one loop turn: %r, server handled %d, wrong or "
                          "missing replies %r" % (n, st_, served, wrong[:6])))
    if what == "shared":
        st_, code, out = r
        want = SHARED_EXPECT[str(d[Kw("share")])]
        if st_ == "stuck":
            probs.append(("operation-left-suspended", "reading the child's output never ended"))
        elif st_ != "finished":
            probs.append(("operation-failed", "reading the child's output: %r (exit status %r)" % (st_, code)))
        elif code != 7:
            probs.append(("exit-status", "child (exit 7) with redirection %s: spawn/wait gave %r" % (d[Kw("share")], code)))
        elif out != want:
            probs.append(("subprocess-output", "redirection %s: received %r, expected %r" % (d[Kw("share")], out, want)))
    return probs


def judge_stream(d, r):
    """returns list of (kind, text) problems"""
    status, wres, rres, tr = r
    probs = []
    ws = d[Kw("writers")]
    nreaders = d[Kw("nreaders")]
    close = d[Kw("close")]
    if status != "finished":
        probs.append(("operation-left-suspended", "scenario did not finish: %r writers=%r readers=%r" % (status, wres, rres)))
        return probs
    counts = [0, 0, 0, 0]
    for t in tr:
        for k in range(4):
            counts[k] += t[0][k]
    for k, (size, pieces) in enumerate(ws):
        res = wres[k]
        if res == "ok":
            if close == "writers-done" and counts[k] != size:
                probs.append(("bytes-lost-or-duplicated", "writer %d wrote %d bytes, readers received %d" % (k, size, counts[k])))
        elif isinstance(res, tuple) and res[0] == "error":
            # an operation may raise; what was delivered must be a prefix of its payload
            if counts[k] > size:
                probs.append(("bytes-lost-or-duplicated", "writer %d failed but %d > %d bytes were received" % (k, counts[k], size)))
            if close == "writers-done" and len(ws) == 1 and nreaders == 1:
                probs.append(("spurious-error", "single writer/single reader: write raised %r" % (res,)))
        else:
            probs.append(("operation-left-suspended", "writer %d never completed: %r" % (k, res)))
    for j in range(nreaders):
        res = rres[j]
        if res == "pending":
            probs.append(("operation-left-suspended", "reader %d never completed" % j))
        elif isinstance(res, tuple) and res[0] == "error" and nreaders == 1 and close == "writers-done":
            probs.append(("spurious-error", "reader raised %r" % (res,)))
    if nreaders == 1 and tr:
        cnt, bad, total, nchunks, mn, mx, ndiff, last = tr[0]
        rmode, rn = d[Kw("reader")]
        if bad is not None:
            probs.append(("order-violated", "writer %d: at position %d received byte code %d" % tuple(bad)))
        if rres[0] == "eof":
            if rmode in ("read", "nread") and nchunks and (mn < 1 or mx > rn):
                probs.append(("read-size", "ev/read %d returned chunk sizes in [%d,%d]" % (rn, mn, mx)))
            if rmode in ("chunk", "nchunk") and nchunks:
                if ndiff > 1 or (ndiff == 1 and last == rn) or mx > rn:
                    probs.append(("chunk-size", "ev/chunk %d returned %d chunks not of the requested size (last=%r max=%d)" % (
                        rn, ndiff, last, mx)))
            if rmode == "all" and nchunks > 1:
                probs.append(("read-all", "ev/read :all returned %d buffers" % nchunks))
    return probs


def judge_proc(d, r):
    status, code, out_ok, out_len, err_ok, err_len = r
    probs = []
    if status != "finished":
        probs.append(("operation-left-suspended", "subprocess scenario stuck"))
        return probs
    if code != d[Kw("code")]:
        probs.append(("exit-status", "child exited with %s, os/proc-wait returned %r" % (d[Kw("code")], code)))
    if not out_ok:
        probs.append(("subprocess-output", "stdout of the child differs (received %d bytes for %d sent)" % (out_len, d[Kw("size")])))
    if not err_ok:
        probs.append(("subprocess-output", "stderr of the child differs (received %d bytes)" % err_len))
    return probs


def replay_for(d):
    return ("# scenario: %s\n# run: JANET_PATH=/verif/engine/drv <vjanet> /verif/props/C16/driver.janet items.jdn out.txt\n"
            "# with items.jdn containing the line below\n%s\n" % (describe(d), jdn(d)))


def run_items(chk, part, ds, variant="fast", chunk=8):
    items = [jdn(d) for d in ds]
    res = run_batch(variant, DRIVER, items, env={"VERIF_VTIME": "1"}, chunk=chunk, timeout=90, max_deaths=10)
    calls = []
    confirmed = [0]
    for d, (st, text) in zip(ds, res):
        chk.add(evaluations=1, transitions=1, states=1)
        inj = ":eintr" if d.get(Kw("eintr")) else ""
        if st == "SKIPPED":
            chk.cap("%s: scenarios not run after 10 dead workers" % part)
            calls.append(None)
            continue
        if st != "OK":
            chk.violation("%s:%s%s" % (st.lower(), shape_sig(d), inj), "%s: %s %s" % (describe(d), st, text[:600]), replay_for(d))
            calls.append(None)
            continue
        r, ncalls = canonparse.parse(text)
        calls.append(ncalls)
        what = d[Kw("what")]
        probs = judge_stream(d, r) if what == "stream" else (judge_proc(d, r) if what == "proc" else [])
        if what == "execute":
            if r[0] != "finished" or r[1] != d[Kw("code")] or r[2] != "done-%d\n" % d[Kw("code")]:
                probs.append(("exit-status", "os/execute (exit %d) while collecting: returned %r, output %r" % (d[Kw("code")], r[1], r[2])))
        if what == "queued":
            st_, wres, rres, total, bad = r
            if st_ == "ran":       # (if the kernel buffer was too small for the payload the scenario is void)
                if rres != "done":
                    probs.append(("operation-left-suspended", "all %d bytes were queued before the read, reader result %r" % (d[Kw("size")], rres)))
                elif d[Kw("mode")] == "chunk" and total != d[Kw("size")]:
                    probs.append(("chunk-size", "ev/chunk %d returned %d bytes" % (d[Kw("size")], total)))
                elif bad is not None:
                    probs.append(("order-violated", "position %r" % (bad,)))
        if what in ("duplex", "shared", "close-both", "accept-burst", "halfclose"):
            probs = judge_extra(d, r)
        if what == "signal":
            # killed by a signal: the wait result must not look like a normal small exit code 0
            if r[0] != "finished" or r[1] == 0:
                probs.append(("exit-status", "child killed by signal %s: os/proc-wait returned %r" % (d[Kw("signal")], r)))
        chk.outcome((shape_sig(d), repr(r)[:80]))
        if probs and confirmed[0] < 12:
            # replay before report: the scenario must fail the same way twice more, alone
            kinds = {k for k, _ in probs}
            for _ in range(2):
                (st2, text2), = run_batch(variant, DRIVER, [jdn(d)], env={"VERIF_VTIME": "1"}, chunk=1, timeout=120)
                if st2 != "OK":
                    kinds &= {st2.lower()}
                    continue
                r2, _n = canonparse.parse(text2)
                p2 = judge_stream(d, r2) if what == "stream" else (judge_proc(d, r2) if what == "proc" else [(k, "") for k in kinds])
                if what in ("duplex", "shared", "close-both", "accept-burst", "halfclose"):
                    p2 = judge_extra(d, r2)
                if what in ("execute", "queued", "signal"):
                    # re-judge with the same rules as above
                    ok2 = ((what == "execute" and r2[0] == "finished" and r2[1] == d[Kw("code")]) or
                           (what == "queued" and (r2[0] != "ran" or (r2[2] == "done" and r2[4] is None))) or
                           (what == "signal" and r2[0] == "finished" and r2[1] != 0))
                    p2 = [] if ok2 else [(k, "") for k in kinds]
                kinds &= {k for k, _ in p2}
            if not kinds:
                chk.part("not-reproduced", count=1)
                continue
            confirmed[0] += 1      # only reproduced problems use up the replay allowance
            probs = [(k, t) for k, t in probs if k in kinds]
        for kind, txt in probs:
            chk.violation("%s:%s%s" % (kind, shape_sig(d), inj), "%s: %s" % (describe(d), txt), replay_for(d))
    chk.part(part, scenarios=len(ds))
    return calls


def main():
    chk = Check("C16")
    chk.rule("exhaustive scenario grid: stream kind {pipe, unix socket} x writer payload sizes {0,1,4095,4096,4097,65535,"
             "65536,65537,200000,1 MiB (4 MiB thorough)} x writers {1,2,3} x pieces {1,3} x reader {read n, chunk n, read "
             ":all} with n in {1,7,4096,100000,1000000} x readers {1,2} x close policy; subprocess stdin/stdout/stderr x "
             "sizes x modes x exit codes {0,1,255} and signals; every scenario with at most CAP I/O calls is re-run with "
             "EINTR injected at each numbered read/write/recv/send call. Distinct non-trivial = distinct (scenario shape, report).")
    chk.assume("both ends of each stream live in one single-threaded process, so partial writes and would-blocks are produced "
               "genuinely by the size grid; only EINTR is injected (fabricated short reads/writes are not kernel behaviour "
               "and would hang a correct edge-triggered implementation); TCP loopback and datagrams are not covered")
    scratch = mktmp()
    quick = chk.quick
    try:
        sizes = [0, 1, 4095, 4096, 4097, 65535, 65536, 65537, 200000, 1 << 20] + ([] if quick else [1 << 22])
        ds = []
        for kind in ("pipe", "unix"):
            for size in sizes:
                readers = [("read", 7), ("read", 4096), ("read", 1000000), ("chunk", 7), ("chunk", 4096),
                           ("chunk", 100000), ("all", None)]
                if kind == "unix":
                    # the net/ variants are separate C functions over the same machinery
                    readers += [("nread", 4096), ("nchunk", 7), ("nchunk", 4096), ("nchunk", 100000)]
                if size <= 4097:
                    readers += [("read", 1), ("chunk", 1)]
                if size > 70000:
                    readers = [r for r in readers if r[1] is None or r[1] >= 4096]
                for rd in readers:
                    for pieces in (1, 3):
                        if pieces == 3 and (size < 3 or (quick and size > 70000)):
                            continue
                        ds.append(stream_item(scratch, kind, [(size, pieces)], rd))
            # several writers on one stream (position-coded, order per writer)
            multi = [1, 4096, 70000, 300000]
            for a, b in itertools.product(multi, repeat=2):
                for rd in (("read", 4096), ("chunk", 100000), ("all", None)):
                    ds.append(stream_item(scratch, kind, [(a, 1), (b, 1)], rd))
            for trio in ([(1, 1), (4096, 1), (70000, 1)], [(70000, 1), (70000, 1), (70000, 1)], [(300000, 1), (1, 1), (300000, 3)]):
                ds.append(stream_item(scratch, kind, trio, ("read", 4096)))
            # two reader fibers on one stream: every read completes or raises
            for size in (1, 4096, 70000, 300000):
                for rd in (("read", 4096), ("chunk", 7 if size < 5000 else 4096)):
                    ds.append(stream_item(scratch, kind, [(size, 1)], rd, nreaders=2))
            # closing an end wakes pending readers and writers
            ds.append(stream_item(scratch, kind, [], ("read", 4096), nreaders=1, close="close-read-early"))
            ds.append(stream_item(scratch, kind, [], ("chunk", 4096), nreaders=1, close="close-read-early"))
            ds.append(stream_item(scratch, kind, [(1 << 20, 1)], ("read", 4096), nreaders=0, close="close-write-early"))
            ds.append(stream_item(scratch, kind, [(1 << 20, 1), (1 << 20, 1)], ("read", 4096), nreaders=0, close="close-write-early"))
            ds.append(stream_item(scratch, kind, [(1 << 20, 1)], ("read", 4096), nreaders=0, close="close-read-early"))
        calls = run_items(chk, "streams", ds)
        # subprocesses
        ps = []
        for size in ([0, 1, 4096, 65536, 200000] + ([] if quick else [1 << 20])):
            for mode in ("cat", "upper", "both"):
                for code in (0, 1, 255):
                    if quick and code == 1 and size not in (0, 4096):
                        continue
                    ps.append(proc_item(scratch, size, mode, code))
        pcalls = run_items(chk, "subprocess", ps, chunk=2)
        ex = [{Kw("what"): Kw("execute"), Kw("scratch"): scratch, Kw("code"): c, Kw("eintr"): None} for c in (0, 7, 255)]
        run_items(chk, "execute-with-gc", ex, chunk=1)
        qd = [{Kw("what"): Kw("queued"), Kw("scratch"): scratch, Kw("kind"): Kw(k), Kw("mode"): Kw(m), Kw("size"): n, Kw("eintr"): None}
              for k in ("pipe", "unix") for m in ("chunk", "read") for n in (1, 4096, 60000, 65536, 100000, 150000, 200000)
              if not (k == "pipe" and n > 65536)]
        run_items(chk, "queued-then-read", qd, chunk=4)
        dx = [{Kw("what"): Kw("duplex"), Kw("scratch"): scratch, Kw("size"): n, Kw("gc"): g, Kw("eintr"): None}
              for n in (1, 4096, 65536, 200000, 1 << 20) + (() if quick else (4 << 20,)) for g in (False, True)]
        run_items(chk, "duplex", [d for d in dx if not d[Kw("gc")]], chunk=2)
        # with a collection while reader and writer are parked: under AddressSanitizer, so that a fiber freed while the
        # stream still points at it is seen at once
        run_items(chk, "duplex-gc", [d for d in dx if d[Kw("gc")]], variant="asan", chunk=1)
        cb = [{Kw("what"): Kw("close-both"), Kw("scratch"): scratch, Kw("size"): 4 << 20, Kw("reader"): rd, Kw("writer"): wr, Kw("eintr"): None}
              for rd, wr in ((True, False), (False, True), (True, True))]
        run_items(chk, "close-with-pending", cb, chunk=1)
        hc = [{Kw("what"): Kw("halfclose"), Kw("scratch"): scratch, Kw("size"): n, Kw("how"): Kw("w"), Kw("eintr"): None}
              for n in (0, 1, 1000, 70000, 300000)]
        run_items(chk, "half-close", hc, chunk=2)
        ab = [{Kw("what"): Kw("accept-burst"), Kw("scratch"): scratch, Kw("n"): n, Kw("eintr"): None} for n in (1, 2, 3, 12, 40)]
        run_items(chk, "accept-burst", ab, chunk=1)
        sh = [{Kw("what"): Kw("shared"), Kw("scratch"): scratch, Kw("share"): Kw(m), Kw("eintr"): None}
              for m in ("in-out", "in-err", "out-err", "all")]
        run_items(chk, "shared-redirect", sh, chunk=1)
        sig = [{Kw("what"): Kw("signal"), Kw("scratch"): scratch, Kw("signal"): Kw(s), Kw("eintr"): None}
               for s in ("term", "kill", "int", "hup")]
        run_items(chk, "signals", sig, chunk=2)
        # K5: EINTR at every numbered call of every scenario small enough
        cap = 40 if quick else 400
        inj = []
        for d, n in list(zip(ds, calls)) + list(zip(ps, pcalls)):
            if n is None or n == 0 or n > cap:
                continue
            for i in range(n):
                d2 = dict(d)
                d2[Kw("eintr")] = [i]
                inj.append(d2)
            if n <= (6 if quick else 14):
                for i, j in itertools.combinations(range(n), 2):
                    d2 = dict(d)
                    d2[Kw("eintr")] = [i, j]
                    inj.append(d2)
        run_items(chk, "eintr-deviations", inj, chunk=16)
        chk.part("eintr-deviations", cap_calls=cap)
        chk.sample({"scenario": describe(ds[len(ds) // 2])})
        chk.sample({"scenario": describe(ps[0])})
        if inj:
            chk.sample({"scenario": describe(inj[len(inj) // 2])})
        chk.cov["bound_completed"] = "full grid; EINTR bound 1 for scenarios with <= %d calls" % cap
    finally:
        shutil.rmtree(scratch, ignore_errors=True)
    chk.finish()


if __name__ == "__main__":
    harness_guard(main)
