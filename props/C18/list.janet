# prints every function binding of the core environment, one per line
(def names @[])
(loop [[k v] :pairs root-env :when (symbol? k)]
  (def x (get v :value (get (get v :ref) 0)))
  (when (and (or (function? x) (cfunction? x)) (not (get v :macro)))
    (array/push names (string k))))
(each n (sort names) (print n))
