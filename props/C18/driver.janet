# C18 driver. Env: VERIF_SBX_FLAGS = space separated capability keywords to disable
# before the sweep; VERIF_SBX_SCRATCH = scratch directory with `marker` file in it;
# VERIF_SBX_THREAD=1 runs every call inside a thread spawned after sandboxing.
# item: [fname arg-spec ...] ; arg-spec is a keyword naming a shape or a literal.
(use prelude)

(def scratch (os/getenv "VERIF_SBX_SCRATCH"))
(def thread-mode (os/getenv "VERIF_SBX_THREAD"))   # "1": waiting ev/thread, "2": detached (:n) thread
(def in-thread (or (= "1" thread-mode) (= "2" thread-mode) (= "3" thread-mode)))
(def marker (string scratch "/marker"))
(def newpath (string scratch "/newfile"))

# function table captured before anything can disturb the environment
(def funs @{})
(loop [[k v] :pairs root-env :when (symbol? k)]
  (def x (get v :value (get (get v :ref) 0)))
  (when (and (or (function? x) (cfunction? x)) (not (get v :macro)))
    (put funs (string k) x)))

# pre-opened handles (opened before the sandbox is applied)
(def pre-file-r (file/open marker :r))
(def pre-file-w (file/open (string scratch "/prew." (os/getpid)) :w))
(def [pipe-r pipe-w] (os/pipe))

(defn shape [s]
  (case s
    :marker marker
    :newpath newpath
    :dir scratch
    :hostname "/etc/hostname"
    :addr "127.0.0.1"
    :port "9"
    :cmd ["/bin/true"]
    :envname "VERIF_MARKER_ENV"
    :zero 0
    :r :r
    :w :w
    :rt :rt
    :wct :wct
    :a :a
    :r+ :r+
    :w+ :w+
    :file-r pre-file-r
    :file-w pre-file-w
    :stream-r pipe-r
    :stream-w pipe-w
    :table @{}
    :fn (fn [& args] nil)
    :sig :usr1
    :unix :unix
    :datagram :datagram
    :ffi-int :int
    :ffi-ptr :ptr
    :ffi-str :string
    :bytes8 @"\0\0\0\0\0\0\0\0"
    :str8 "12345678"
    :eight 8
    s))

(defn- log-text [lg]
  (string/join (map (fn [[c n d]] (string c "/" n "(" d ")")) lg) ";"))

# the sandbox is applied by `setup`, after batch-run opened its files
(def flagtext (or (os/getenv "VERIF_SBX_FLAGS") ""))
(def logall (= "1" (os/getenv "VERIF_SBX_LOGALL")))
(def flags (map keyword (filter |(not= "" $) (string/split " " flagtext))))
(var flagword 0)
(defn setup []
  (verif/sbx-deny true)
  (when logall (verif/sbx-logall true))
  (verif/sbx-log)
  (unless (empty? flags) (sandbox ;flags))
  (set flagword (verif/sbx-flags)))

(defn call-direct [f args]
  (try
    (do (ev/with-deadline 5 (f ;args)) "ret")
    ([e] "err")))

(defn- thread-body [[f specs scratch tc]]
  (def marker (string scratch "/marker"))
  (def args (map (fn [s] (case s
                           :marker marker :newpath (string scratch "/newfile") :dir scratch
                           :hostname "/etc/hostname" :addr "127.0.0.1" :port "9" :cmd ["/bin/true"]
                           :envname "VERIF_MARKER_ENV" :zero 0 :table @{} :sig :usr1 :unix :unix s)) specs))
  (def r (try (do (f ;args) "ret") ([e] "err")))
  (when tc (ev/give tc r))
  r)

(defn call-thread [f specs]
  # the function value and the argument specs are sent to a thread started after sandboxing;
  # the thread builds its own arguments. Mode 2 starts a detached thread (the :n path of ev/thread,
  # also used by ev/spawn-thread) and waits for its report on a thread channel.
  (try
    (ev/with-deadline 5
      (if (or (= "2" thread-mode) (= "3" thread-mode))
        (let [tc (ev/thread-chan 1)]
          # mode 3: additionally the :a flag (the thread does not copy the abstract registry)
          (ev/thread thread-body [f specs scratch tc] (if (= "3" thread-mode) :na :n))
          (ev/take tc))
        (do (ev/thread thread-body [f specs scratch nil]) "ret")))
    ([e] (string "thread-failed: " e))))

(batch-run
  (fn [item]
    (def fname (first item))
    (def specs (tuple/slice item 1))
    (def f (get funs fname))
    (unless f (errorf "no function %s" fname))
    (def r (if in-thread
             (call-thread f specs)
             (call-direct f (map shape specs))))
    (def lg (verif/sbx-log))
    (unless (= flagword (verif/sbx-flags)) (errorf "sandbox flags changed by %s" fname))
    (if (empty? lg) r (string "VIOL " (log-text lg))))
  setup)
