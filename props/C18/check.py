#!/usr/bin/env python3
"""C18 - sandboxed capabilities stay disabled for every function and thread.

Exhaustive product: capability configurations x every function binding of the
core environment x argument tuples (length 0..2) over a shape menu aimed at
marker paths, addresses, commands and variables x {calling thread | thread
started after sandboxing}. Oracle: the libc interposer (engine/harness/sbxwrap.c)
classifies every libc entry made by janet's own objects; a call of class K on
a thread whose sandbox flag word contains K is a violation, whatever the
function returned. Destructive calls are answered with EPERM by the interposer.
"""
import itertools
import os
import shutil
import sys

HERE = os.path.dirname(os.path.abspath(__file__))
sys.path.insert(0, os.path.join(HERE, "..", "..", "engine", "mc"))
from core import *  # noqa
HERE = os.path.dirname(os.path.abspath(__file__))
import canonparse  # noqa

DRIVER = os.path.join(HERE, "driver.janet")

FLAGS = ["subprocess", "net-connect", "net-listen", "ffi-define", "fs-write", "fs-read", "hrtime", "env",
         "modules", "fs-temp", "ffi-use", "ffi-jit", "signal", "sandbox"]
GROUPS = ["fs", "net", "ffi", "all"]

SHAPES = ["marker", "newpath", "dir", "hostname", "addr", "port", "cmd", "envname", "zero", "r", "w", "rt", "wct", "a", "r+", "w+",
          "file-r", "file-w", "stream-r", "stream-w", "table", "fn", "sig", "unix", "datagram"]
THREAD_SHAPES = ["marker", "newpath", "dir", "hostname", "addr", "port", "cmd", "envname", "zero", "r", "w", "rt", "wct", "a", "r+", "w+", "table", "sig", "unix"]

# Functions never called by the sweep, with the reason (none of them is a capability-gated operation
# whose omission could hide a violation, except where noted).
BLOCK = {
    "sandbox": "changes the configuration under test (monotonicity is checked separately)",
    "os/exit": "terminates the worker process",
    "repl": "interactive loop on stdin",
    "debugger": "interactive loop on stdin",
    "getline": "reads the terminal",
    "cli-main": "re-enters the command line driver",
    "gcsetinterval": "perturbs the collector for all later calls",
    "setdyn": "redirects the driver's own output",
    "file/close": "closes the pre-opened handles used by later calls",
    "ev/close": "closes the pre-opened handles used by later calls",
    ":close": "",
    "os/posix-fork": "forks the worker (answered EPERM by the interposer; blocked to be safe when not denied)",
    "debug/step": "", "debug/break": "", "debug/fbreak": "",
    "ev/lock": "", "ev/rwlock": "",
    "ev/acquire-lock": "can block the thread", "ev/acquire-wlock": "can block the thread",
    "ev/acquire-rlock": "can block the thread",
    "forever": "",
    "debug": "raises the debug signal through the driver's try",
    "return": "raises a user signal through the driver's try",
    "signal": "raises arbitrary signals through the driver's try",
    "verif/": "harness natives",
}


def exempt(cls, call):
    """Entropy devices are not user data: os/cryptorand opening /dev/urandom is not a file-system read
    in the sense of the capability (convention, see DESIGN.md C18)."""
    return cls == "fs-read" and ("(/dev/urandom)" in call or "(/dev/random)" in call)


def blocked(name):
    return name in BLOCK or name.startswith("verif/")


def list_functions():
    r = run(vjanet("fast"), [os.path.join(HERE, "list.janet")], timeout=60)
    if r.rc != 0:
        raise HarnessError("cannot list core functions: %s" % r.describe())
    return [l for l in r.out.decode().split("\n") if l]


def arg_tuples(shapes, maxlen):
    out = [()]
    for n in range(1, maxlen + 1):
        out += list(itertools.product(shapes, repeat=n))
    return out


# ":ffi-use - disallow using any previously bound FFI functions and memory-unsafe functions": calls that are well formed
# (they return a value when nothing is disabled) and must therefore raise when :ffi-use is disabled
FFI_UNSAFE = {
    "ffi/read": [("ffi-int", "bytes8"), ("ffi-int", "str8"), ("ffi-ptr", "bytes8"), ("ffi-int", "bytes8", "zero")],
    "ffi/write": [("ffi-int", "zero"), ("ffi-int", "zero", "bytes8")],
    "ffi/malloc": [("eight",)],
    "ffi/free": [("zero",)],
}


def make_items(funs, tuples):
    items = []
    for f in funs:
        for t in tuples:
            items.append(jdn([f] + [Kw(s) for s in t]))
    return items


ffi_ok = set()      # FFI items that return a value when nothing is disabled (filled by the baseline sweep)


def run_config(chk, label, flags, items, scratch, thread=False, chunk=3000):
    env = {"VERIF_SBX_FLAGS": " ".join(flags), "VERIF_VTIME": "1",
           "VERIF_SBX_SCRATCH": scratch, "VERIF_SBX_THREAD": str(int(thread))}
    res = run_batch("fast", DRIVER, items, env=env, chunk=chunk, timeout=60)
    nviol = 0
    stats = dict(ret=0, err=0, viol=0, crash=0, timeout=0, drvfail=0)
    for it, (st, text) in zip(items, res):
        chk.add(evaluations=1, transitions=1)
        if st == "OK":
            if text.startswith("VIOL "):
                stats["viol"] += 1
                fname = it.split('"')[1]
                for ent in text[5:].split(";"):
                    cls, _, rest = ent.partition("/")
                    libc = rest.split("(")[0]
                    if exempt(cls, rest):
                        continue
                    sig = "%s:%s:%s%s" % (cls, fname, libc, {0: "", 1: ":thread", 2: ":detached-thread", 3: ":detached-thread-a"}[int(thread)])
                    argtext = it
                    replay = ("(sandbox %s)\n(pp (protect (%s ...)))  # item %s\n"
                              "# the call above reached libc %s while capability %s was disabled\n" % (
                                  " ".join(":" + f for f in flags), fname, argtext, rest, cls))
                    if chk.violation(sig, "config (%s)%s: %s reached %s (class %s)" % (
                            " ".join(flags), {0: "", 1: " in a new thread", 2: " in a detached (:n) thread", 3: " in a detached thread started with :na"}[int(thread)], argtext, rest, cls), replay):
                        nviol += 1
                chk.outcome(("viol", text[:60]))
            else:
                stats[text if text in stats else "ret"] += 1
                chk.outcome((label, text), nontrivial=False)
                fname = it.split('"')[1]
                if not thread and text == "ret" and fname in FFI_UNSAFE and any(f in flags for f in ("ffi-use", "ffi", "all")) and it in ffi_ok:
                    chk.violation("ffi-use:%s:returned%s" % (fname, {0: "", 1: ":thread", 2: ":detached-thread", 3: ":detached-thread-a"}[int(thread)]),
                                  "config (%s): %s returned a value although :ffi-use is disabled (it returns a value with "
                                  "nothing disabled, so the arguments are well formed)" % (" ".join(flags), it),
                                  "(sandbox %s)\n(pp (protect (%s ...)))  # item %s\n" % (" ".join(":" + f for f in flags), fname, it))
        elif st == "ERR":
            stats["drvfail"] += 1
            chk.outcome(("drv", text[:40]), nontrivial=False)
        elif st == "CRASH":
            stats["crash"] += 1
        else:
            stats["timeout"] += 1
    chk.part(label, **stats)
    return stats


def baseline_interesting(chk, items, scratch):
    """Run every item with NO capability disabled but flag word = 0, logging *all* intercepted calls,
    to find the items that reach any capability-gated libc entry at all."""
    env = {"VERIF_SBX_FLAGS": "", "VERIF_VTIME": "1", "VERIF_SBX_SCRATCH": scratch,
           "VERIF_SBX_LOGALL": "1"}
    res = run_batch("fast", DRIVER, items, env=env, chunk=3000, timeout=60)
    keep = []
    classes = {}
    for it, (st, text) in zip(items, res):
        if st == "OK" and text == "ret" and it.split('"')[1] in FFI_UNSAFE:
            ffi_ok.add(it)
            keep.append(it)
            continue
        if st == "OK" and text.startswith("VIOL "):
            keep.append(it)
            for ent in text[5:].split(";"):
                cls = ent.partition("/")[0]
                classes[cls] = classes.get(cls, 0) + 1
        elif st in ("CRASH", "TIMEOUT"):
            keep.append(it)
    chk.part("baseline", items=len(items), reaching_gated_libc=len(keep), **{"class_" + k: v for k, v in classes.items()})
    return keep, classes


def monotonic(chk):
    """sandbox flags can only grow; with :sandbox set, sandbox raises. All ordered pairs of options."""
    opts = FLAGS + GROUPS
    script = ['(def out @[])']
    items = []
    for a in opts:
        for b in opts:
            items.append(jdn([Kw(a), Kw(b)]))
    drv = os.path.join(HERE, "driver_mono.janet")
    # each pair needs a fresh process (flags cannot be reset): one item per process would be slow, so the
    # driver forks a thread-free child per pair via os/spawn of itself? Simpler: one vjanet process per pair.
    def one(pair):
        a, b = pair
        text = ("(def f0 (verif/sbx-flags))\n(sandbox :%s)\n(def f1 (verif/sbx-flags))\n"
                "(def r (protect (sandbox :%s)))\n(def f2 (verif/sbx-flags))\n"
                "(def r2 (protect (sandbox)))\n(def f3 (verif/sbx-flags))\n"
                "(print f0 \" \" f1 \" \" f2 \" \" f3 \" \" (r 0))\n" % (a, b))
        r = run_script("fast", text, timeout=30)
        return (a, b, r)
    res = pmap(one, [(a, b) for a in opts for b in opts])
    bits = {}
    for a, b, r in res:
        chk.add(evaluations=1, transitions=1)
        if r.rc != 0:
            chk.violation("monotonic:run-failed:%s:%s" % (a, b), "sandbox :%s then :%s: %s" % (a, b, r.describe()),
                          "(sandbox :%s) (sandbox :%s)\n" % (a, b))
            continue
        f0, f1, f2, f3, ok = r.out.decode().split()
        f0, f1, f2, f3 = int(f0), int(f1), int(f2), int(f3)
        bits[a] = f1
        chk.outcome(("mono", f1, f2))
        if f0 != 0 or f1 == 0:
            chk.violation("monotonic:flag-not-set:%s" % a, "(sandbox :%s) gives flag word %d" % (a, f1),
                          "(sandbox :%s)\n" % a)
        if f2 & f1 != f1 or f3 & f2 != f2:
            chk.violation("monotonic:capability-re-enabled:%s:%s" % (a, b),
                          "(sandbox :%s) -> %d, then (sandbox :%s) -> %d, then (sandbox) -> %d" % (a, f1, b, f2, f3),
                          "(sandbox :%s) (sandbox :%s)\n" % (a, b))
        if (f1 & 1) and (ok == "true" or f2 != f1):
            chk.violation("monotonic:sandbox-callable-after-:sandbox:%s:%s" % (a, b),
                          "after (sandbox :%s) with the :sandbox capability disabled, (sandbox :%s) returned %s flags %d->%d" % (
                              a, b, ok, f1, f2), "(sandbox :%s) (sandbox :%s)\n" % (a, b))
    # several capabilities named in ONE call: each of them must end up disabled, i.e. the flag word is the union of
    # the words the single keywords give (the interposer oracle reads the VM's flag word, so a call that sets too few
    # bits would otherwise go unnoticed)
    def multi(names):
        text = "(sandbox %s)\n(print (verif/sbx-flags))\n" % " ".join(":" + n for n in names)
        return (names, run_script("fast", text, timeout=30))
    combos = [(a, b) for a in opts for b in opts if a != b] + [tuple(FLAGS), tuple(reversed(FLAGS))]
    for names, r in pmap(multi, combos):
        chk.add(evaluations=1, transitions=1)
        if any(n not in bits for n in names):
            continue
        want = 0
        for n in names:
            want |= bits[n]
        call = "(sandbox %s)" % " ".join(":" + n for n in names)
        if r.rc != 0:
            chk.violation("multi-keyword:run-failed", "%s: %s" % (call, r.describe()), call + "\n")
            continue
        got = int(r.out.decode().split()[0])
        chk.outcome(("multi", got == want))
        if got & want != want:
            missing = [n for n in names if bits[n] & ~got]
            chk.violation("multi-keyword:capability-left-enabled:%s" % (missing[0] if len(names) == 2 else "many"),
                          "%s sets flag word %d; the keywords alone give %s, so %s stay(s) enabled" % (
                              call, got, " ".join("%s=%d" % (n, bits[n]) for n in names[:6]), ", ".join(":" + m for m in missing[:6])),
                          call + "\n(print (verif/sbx-flags))   # needs vjanet; with plain janet: try the gated functions\n")
    chk.part("monotonic", pairs=len(res), multi_keyword_calls=len(combos))


def main():
    chk = Check("C18")
    chk.rule("product of capability configurations x every function binding of the core environment (listed at run "
             "time) x argument tuples of length 0..2 over a 17-shape menu (marker paths, /etc/hostname, address, port, "
             "command tuple, variable name, 0, :r/:w, pre-opened files and pipe ends, table, function) x {same thread, "
             "thread started after sandboxing}; a libc interposer classifies every libc entry made by janet code and "
             "any call whose class is disabled on that thread is a violation. Non-trivial distinct cases = distinct "
             "(function, arguments) items that reach a capability-gated libc entry in the unsandboxed baseline.")
    chk.assume("calls made by libc on its own behalf are not attributed to janet; os/environ reads `environ` directly "
               "and is checked at the API level only; FFI use (calling through raw pointers) is only visible through "
               "dlopen/mmap(PROT_EXEC); destructive libc calls are answered EPERM by the interposer")
    scratch = mktmp()
    try:
        with open(os.path.join(scratch, "marker"), "w") as f:
            f.write("marker\n")
        funs = [f for f in list_functions() if not blocked(f)]
        chk.part("functions", total=len(funs), blocked=len(BLOCK))
        t2 = arg_tuples(SHAPES, 2)
        items = make_items(funs, t2)
        # three-argument calls of the socket constructors (the third argument selects the socket type and, in the
        # implementation, the path through the capability tests)
        # the memory-unsafe FFI functions on well-formed arguments that reach no libc entry at all: with :ffi-use disabled
        # they must raise (API-level rule, see FFI_UNSAFE below)
        ffi_items = []
        for f, tups in FFI_UNSAFE.items():
            if f in funs:
                ffi_items += make_items([f], tups)
        items += ffi_items
        net3 = [f for f in ("net/listen", "net/connect", "net/server", "net/address") if f in funs]
        items += make_items(net3, [(h, "port", "datagram") for h in ("addr", "hostname", "unix")] +
                            [("addr", "port", "r"), ("addr", "port", "zero")])
        keep, classes = baseline_interesting(chk, items, scratch)
        chk.cov["distinct_nontrivial"] = len(keep)
        # fail closed: the interposer must have seen each class at least once in the baseline
        needed = ["fs-read", "fs-write", "net-connect", "subprocess", "env", "hrtime", "signal", "fs-temp", "modules"]
        missing = [c for c in needed if classes.get(c, 0) == 0]
        if missing:
            raise HarnessError("interposer never saw classes %s in the baseline sweep (wrapper not effective?)" % missing)
        chk.sample({"functions": len(funs), "tuples_per_function": len(t2), "example_item": items[len(items) // 2],
                    "baseline_classes": classes})
        single = [[f] for f in FLAGS if f != "sandbox"]
        groups = [[g] for g in GROUPS]
        if chk.quick:
            for cfg in single + groups:
                # all functions x all tuples of length <= 1, plus every baseline-interesting item
                t1 = make_items(funs, arg_tuples(SHAPES, 1))
                its = sorted(set(t1) | set(keep))
                run_config(chk, "+".join(cfg), cfg, its, scratch)
            thr_items = [it for it in keep if not any(s in it for s in (":file-", ":stream-", ":fn"))]
            for cfg in [["all"], ["fs"], ["net"], ["subprocess"], ["env"]]:
                run_config(chk, "thread:" + "+".join(cfg), cfg, thr_items, scratch, thread=1, chunk=500)
                run_config(chk, "detached-thread:" + "+".join(cfg), cfg, thr_items, scratch, thread=2, chunk=500)
            for cfg in [["all"], ["fs"], ["env"]]:
                run_config(chk, "detached-thread-a:" + "+".join(cfg), cfg, thr_items, scratch, thread=3, chunk=500)
        else:
            for cfg in single + groups:
                run_config(chk, "+".join(cfg), cfg, items, scratch)
            pairs = [list(p) for p in itertools.combinations([f for f in FLAGS if f != "sandbox"], 2)]
            for cfg in pairs:
                if chk.out_of_time(0.8):
                    chk.cap("pair configurations not all run (time budget)")
                    break
                run_config(chk, "+".join(cfg), cfg, keep, scratch)
            thr_items = [it for it in keep if not any(s in it for s in (":file-", ":stream-", ":fn"))]
            for cfg in single + groups:
                if chk.out_of_time(0.95):
                    chk.cap("thread configurations not all run (time budget)")
                    break
                run_config(chk, "thread:" + "+".join(cfg), cfg, thr_items, scratch, thread=1, chunk=500)
                run_config(chk, "detached-thread:" + "+".join(cfg), cfg, thr_items, scratch, thread=2, chunk=500)
                run_config(chk, "detached-thread-a:" + "+".join(cfg), cfg, thr_items, scratch, thread=3, chunk=500)
        monotonic(chk)
        chk.add(states=len(keep))
        chk.cov["bound_completed"] = "argument tuples of length <= 2 over %d shapes" % len(SHAPES)
    finally:
        shutil.rmtree(scratch, ignore_errors=True)
    chk.finish()


if __name__ == "__main__":
    harness_guard(main)
