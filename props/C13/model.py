"""Reference model for C13 (number <-> text).

Independent re-statement of Janet's numeric literal grammar (src/core/strtod.c header comment +
scan-number docstring, conventions listed in NOTES.md) and of the *exact* value a literal denotes,
using Python integers / fractions.Fraction only.  The set of admissible doubles for a literal is

    {v}                 if the denoted value v is a double,
    {floor(v), ceil(v)} otherwise (the two doubles adjacent to v; +-inf stands for 2^1024).

Python's int/int true division (what Fraction.__float__ uses) is correctly rounded and is only used
to *find* the neighbours; membership is decided by exact integer comparison.

stdlib only.
"""
import math
import re
import struct
from fractions import Fraction

DBL_MAX = float.fromhex("0x1.fffffffffffffp+1023")
MIN_SUB = float.fromhex("0x1p-1074")
TWO1024 = 1 << 1024
DBL_MAX_INT = int(DBL_MAX)
SIGN = 1 << 63
INF_BITS = 0x7FF0000000000000

_DIGITS = "0123456789abcdefghijklmnopqrstuvwxyz"


def bits_of(d):
    return struct.unpack("<Q", struct.pack("<d", d))[0]


def double_of(bits):
    return struct.unpack("<d", struct.pack("<Q", bits))[0]


def digit_value(ch):
    """value of a digit character, or 99"""
    if "0" <= ch <= "9":
        return ord(ch) - 48
    if "a" <= ch <= "z":
        return ord(ch) - 87
    if "A" <= ch <= "Z":
        return ord(ch) - 55
    return 99


class Lit:
    """A syntactically valid literal: sign, base, mantissa integer, exponent of `ebase`."""
    __slots__ = ("neg", "base", "mant", "ebase", "exp", "ndigits")

    def __init__(self, neg, base, mant, ebase, exp, ndigits):
        self.neg, self.base, self.mant, self.ebase, self.exp, self.ndigits = neg, base, mant, ebase, exp, ndigits

    def value(self):
        """exact value as a Fraction (only call when the exponent is moderate)"""
        v = Fraction(self.mant) * Fraction(self.ebase) ** self.exp
        return -v if self.neg else v


def parse_literal(s, base=0):
    """Return Lit or None (rejected).  `base` is scan-number's optional argument
    (0: radix prefixes are recognised; otherwise the radix is given and no prefix is expected).

    Grammar (re-stated from the documentation, conventions C1-C8 of NOTES.md):
      literal  := sign? prefix? body (marker sign? expdigits)?
      sign     := '+' | '-'
      prefix   := '0x' | D 'r' | D D 'r'        (only when no base argument; DD must be 2..36;
                                                 a single-digit D of 0 means 10, of 1 means radix 1)
      body     := one or more of digit<radix, '.', '_' with at most one '.', at least one digit,
                  and no '_' before the first digit
      marker   := '&' (any radix, exponent digits written in the radix, scales by radix^n)
                | 'e' | 'E' (radix 10 only)
                | 'p' | 'P' (radix 16 only; exponent is decimal and scales by 2^n)
      expdigits:= one or more digits < exponent radix (no '_', no '.')
    """
    if isinstance(s, bytes):
        try:
            s = s.decode("ascii")
        except UnicodeDecodeError:
            return None
    if not s:
        return None
    neg = False
    if s[0] == "-":
        neg = True
        s = s[1:]
    elif s[0] == "+":
        s = s[1:]
    if base == 0:
        if len(s) >= 2 and s[0] == "0" and s[1] == "x":
            base = 16
            s = s[2:]
        elif len(s) >= 2 and s[0] in "0123456789" and s[1] == "r":
            base = int(s[0])
            s = s[2:]
        elif len(s) >= 3 and s[0] in "0123456789" and s[1] in "0123456789" and s[2] == "r":
            base = int(s[:2])
            if base < 2 or base > 36:
                return None
            s = s[3:]
        if base == 0:
            base = 10
    # split body / exponent at the first marker
    markers = "&"
    if base == 16:
        markers += "pP"
    if base == 10:
        markers += "eE"
    cut = None
    for i, ch in enumerate(s):
        if ch in markers:
            cut = i
            break
    if cut is None:
        body, mk, etext = s, None, None
    else:
        body, mk, etext = s[:cut], s[cut], s[cut + 1:]
    # body
    if body.count(".") > 1:
        return None
    seen_digit = False
    digs = []
    frac = 0
    after_point = False
    for ch in body:
        if ch == ".":
            after_point = True
        elif ch == "_":
            if not seen_digit:
                return None
        else:
            dv = digit_value(ch)
            if dv >= base:
                return None
            seen_digit = True
            digs.append(dv)
            if after_point:
                frac += 1
    if not seen_digit:
        return None
    mant = 0
    for dv in digs:
        mant = mant * base + dv
    ebase = base
    escale = 0
    if mk is not None:
        xbase = base
        if mk in "pP":
            xbase = 10
        if etext[:1] in ("+", "-"):
            eneg = etext[0] == "-"
            etext = etext[1:]
        else:
            eneg = False
        if not etext:
            return None
        ev = 0
        for ch in etext:
            dv = digit_value(ch)
            if dv >= xbase:
                return None
            ev = ev * xbase + dv
        escale = -ev if eneg else ev
        if mk in "pP":
            # mantissa is hexadecimal, exponent binary: m * 16^-frac * 2^e
            return Lit(neg, base, mant, 2, escale - 4 * frac, len(digs))
    return Lit(neg, base, mant, ebase, escale - frac, len(digs))


def bracket_pos(num, den):
    """Admissible non-negative doubles (as bit patterns) for the exact value num/den > 0,
    and the index in that tuple of the correctly rounded (nearest-even) one (informational)."""
    # overflow side
    if num >= TWO1024 * den:
        return (INF_BITS,), 0
    if num > DBL_MAX_INT * den:
        tie = TWO1024 - (1 << 970)
        return (bits_of(DBL_MAX), INF_BITS), (1 if num >= tie * den else 0)
    d = num / den  # correctly rounded
    p, q = d.as_integer_ratio()
    lhs, rhs = p * den, num * q
    if lhs == rhs:
        return (bits_of(d),), 0
    if lhs < rhs:
        return (bits_of(d), bits_of(math.nextafter(d, math.inf))), 0
    return (bits_of(math.nextafter(d, 0.0)), bits_of(d)), 1


def allowed_bits(lit):
    """tuple of admissible result bit patterns for a valid literal; first element is exact-or-lower."""
    return allowed_and_nearest(lit)[0]


def allowed_and_nearest(lit):
    sign = SIGN if lit.neg else 0
    if lit.mant == 0:
        return (sign,), 0
    nb = lit.mant.bit_length()
    l2 = math.log2(lit.ebase) if lit.ebase > 1 else 0.0
    approx_hi = nb + lit.exp * l2
    if approx_hi - 1 > 1040:
        return (sign | INF_BITS,), 0
    if approx_hi < -1090:
        return (sign | 0, sign | 1), 0
    if lit.exp >= 0:
        num, den = lit.mant * lit.ebase ** lit.exp, 1
    else:
        num, den = lit.mant, lit.ebase ** (-lit.exp)
    br, near = bracket_pos(num, den)
    return tuple(sign | b for b in br), near


def expect(s, base=0):
    """None if the literal must be rejected, else tuple of admissible bit patterns."""
    lit = parse_literal(s, base)
    if lit is None:
        return None
    return allowed_bits(lit)


def expect2(s, base=0):
    """None, or (admissible tuple, index of the nearest-even one)"""
    lit = parse_literal(s, base)
    if lit is None:
        return None
    return allowed_and_nearest(lit)


def classify(bits, allowed, near=None):
    """outcome class used for the vacuity counters"""
    if len(allowed) == 1:
        if allowed[0] & ~SIGN == INF_BITS:
            return "inf"
        if allowed[0] & ~SIGN == 0:
            return "zero"
        return "exact"
    c = "lower" if bits == allowed[0] else "upper"
    if near is not None and allowed[near] != bits:
        c += "_notnearest"
    return c


# ---------------------------------------------------------------------------
# 64-bit integer text

def parse_int_text(s):
    """(neg, magnitude) or None for the text form accepted by int/s64, int/u64:
    sign? prefix? (digit | '_')+ with at least one digit and no '_' before the first digit;
    at most 150 characters."""
    if len(s) > 150 or not s:
        return None
    neg = False
    if s[0] == "-":
        neg, s = True, s[1:]
    elif s[0] == "+":
        s = s[1:]
    base = 10
    if len(s) >= 2 and s[0] == "0" and s[1] == "x":
        base, s = 16, s[2:]
    elif len(s) >= 2 and s[0] in "0123456789" and s[1] == "r":
        base, s = int(s[0]), s[2:]
    elif len(s) >= 3 and s[0] in "0123456789" and s[1] in "0123456789" and s[2] == "r":
        base = int(s[:2])
        if base < 2 or base > 36:
            return None
        s = s[3:]
    seen = False
    v = 0
    # convention C10: leading zeros are consumed before digits are checked against the radix
    # (only observable with the degenerate prefixes "0r" / "1r": "0r0" and "0r00" read as 0)
    z = len(s) - len(s.lstrip("0"))
    if z:
        seen = True
        s = s[z:]
    for ch in s:
        if ch == "_":
            if not seen:
                return None
        else:
            dv = digit_value(ch)
            if dv >= base:
                return None
            seen = True
            v = v * base + dv
    if not seen:
        return None
    return neg, v


def expect_s64(s):
    r = parse_int_text(s)
    if r is None:
        return None
    neg, v = r
    v = -v if neg else v
    if -(1 << 63) <= v <= (1 << 63) - 1:
        return v
    return None


def expect_u64(s):
    r = parse_int_text(s)
    if r is None:
        return None
    neg, v = r
    if neg:
        return None  # convention C9: any '-' is rejected, including "-0"
    if v <= (1 << 64) - 1:
        return v
    return None


# ---------------------------------------------------------------------------
# self test against Python's own correctly rounded decimal reader

def selftest():
    cases = ["1", "0.1", "1e22", "1e23", "9007199254740993", "4.9e-324", "2.4703282292062328e-324",
             "1.7976931348623157e308", "1.7976931348623159e308", "123456789012345678901234567890",
             "0.000001", "5e-1", "1.5", "3.0e0", "8.5e-1", "2.2250738585072011e-308", "1e-400", "1e400"]
    for c in cases:
        a = expect(c)
        f = float(c)
        assert bits_of(f) in a, (c, a, f)
        if math.isfinite(f) and Fraction(c) == Fraction(f):
            assert a == (bits_of(f),), (c, a)
    assert expect("0x1p4") == (bits_of(16.0),)
    assert expect("0x.8p1") == (bits_of(1.0),)
    assert expect("16rff") == (bits_of(255.0),)
    assert expect("2r1&11") == (bits_of(8.0),)
    assert expect("1e") is None and expect("_1") is None and expect(".") is None
    assert expect("0r19") == (bits_of(19.0),)
    assert expect("1e5", 16) == (bits_of(485.0),)
    assert expect("-0") == (SIGN,)
    assert expect_s64("-9223372036854775808") == -(1 << 63)
    assert expect_s64("9223372036854775808") is None
    assert expect_u64("18446744073709551615") == (1 << 64) - 1
    assert expect_u64("18446744073709551616") is None
    return True


if __name__ == "__main__":
    print(selftest())
