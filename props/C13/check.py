#!/usr/bin/env python3
"""C13 -- number <-> text conversion is exact when possible and never off by more than an ulp.

Bounded-exhaustive enumeration of literal spaces / double families on the real interpreter,
compared with exact integer/rational arithmetic (model.py).  See NOTES.md.
"""
import itertools
import math
import multiprocessing
import os
import sys
import zlib

sys.path.insert(0, os.path.join(os.path.dirname(os.path.abspath(__file__)), "..", "..", "engine", "mc"))
from core import *  # noqa: F401,F403
from core import Check, run_batch, jdn, HarnessError, harness_guard, JOBS

HERE = os.path.dirname(os.path.abspath(__file__))
sys.path.insert(0, HERE)
import model  # noqa: E402

DRIVER = os.path.join(HERE, "driver.janet")
SIGN = model.SIGN
INF = model.INF_BITS

POOL = None


def pool_map(fn, jobs, chunksize=1):
    if not jobs:
        return []
    return POOL.map(fn, jobs, chunksize)


# ---------------------------------------------------------------------------------------------
# helpers: janet expressions for replays

def janet_double_expr(bits):
    """A Janet expression (stock janet, no literals with fractions/exponents) for this double."""
    neg = bool(bits & SIGN)
    mag = bits & ~SIGN
    if mag == 0:
        e = "0"
    elif mag == INF:
        e = "math/inf"
    else:
        d = model.double_of(mag)
        p, q = d.as_integer_ratio()
        k = 0
        if q == 1:
            while p % 2 == 0:
                p //= 2
                k += 1
        else:
            k = -(q.bit_length() - 1)
        e = "(* %d (math/pow 2 %d))" % (p, k)
    return "(- %s)" % e if neg else e


def fmt_bits(b):
    if b is None:
        return "nil(rejected)"
    d = model.double_of(b)
    return "%016x(%s)" % (b, d.hex() if math.isfinite(d) else repr(d))


def short(lit):
    """printable ASCII, whitespace-free abbreviation of a literal (used in signatures)"""
    if isinstance(lit, bytes):
        lit = lit.decode("latin-1")
    crc = zlib.crc32(lit.encode("latin-1"))
    n = len(lit)
    lit = "".join(ch if 33 <= ord(ch) <= 126 and ch != "\\" else "\\x%02x" % ord(ch) for ch in lit)
    if n <= 48:
        return lit
    return "%s..%s(len%d,crc%08x)" % (lit[:16], lit[-16:], n, crc)


def read_replay(lit, base, got, allowed):
    call = "(scan-number lit%s)" % ("" if not base else " %d" % base)
    lines = ["(def lit %s)" % jdn(lit), "(def got %s)" % call]
    if allowed is None:
        lines.append("(print \"literal is not a valid number and must be rejected (nil)\")")
        lines.append("(printf \"got %q\" got)")
        lines.append("(print (if (nil? got) \"ok\" \"FAIL\"))")
    else:
        lines.append("(def admissible [%s])" % " ".join(janet_double_expr(b) for b in allowed))
        lines.append("(printf \"got        %q\" (if got (string/format \"%.17g  %a\" got got)))")
        lines.append("(each a admissible (printf \"admissible %.17g  %a\" a a))")
        lines.append("(print (if (and got (find |(and (= $ got) (= (/ 1 $) (/ 1 got))) admissible)) \"ok\" \"FAIL\"))")
    return "\n".join(lines) + "\n"


# ---------------------------------------------------------------------------------------------
# judging of reading results (runs in pool workers)

def judge_one(lit, base, got_tok, via):
    """returns (class, None) or (None, (kind, got_bits, allowed))"""
    exp2 = model.expect2(lit, base or 0)
    exp, near = exp2 if exp2 is not None else (None, None)
    if via == 1 and exp is not None:
        c0 = lit[:1] if isinstance(lit, str) else lit[:1].decode("latin-1")
        if c0 not in "0123456789+-.":
            exp = None
    if got_tok == "-" or got_tok is None:
        if exp is None:
            return "reject", None
        return None, ("rejects-valid", None, exp)
    got = int(got_tok, 16)
    if exp is None:
        return None, ("accepts-invalid", got, None)
    if got in exp:
        return model.classify(got, exp, near), None
    if (got & ~SIGN) == INF:
        kind = "premature-inf"
    elif (got & ~SIGN) == 0:
        kind = "premature-zero"
    elif len(exp) == 1:
        kind = "inexact-for-representable"
    else:
        kind = "not-adjacent"
    return None, (kind, got, exp)


def judge_list(job):
    lits, base, toks, via = job
    classes = {}
    mism = []
    distinct = set()
    for lit, tok in zip(lits, toks):
        if via == 1:
            tok = tok[1:] if tok.startswith("n") else "-"
        cls, bad = judge_one(lit, base, tok, via)
        if bad:
            mism.append((lit, bad))
        else:
            classes[cls] = classes.get(cls, 0) + 1
            if len(distinct) < 5000:
                distinct.add(tok)
    return classes, mism[:50], len(mism), distinct


def judge_enum(job):
    alpha, prefix, k, base, via, text = job
    got = {}
    for ent in text.split():
        i, v = ent.split("=")
        got[int(i)] = v
    classes = {}
    mism = []
    nm = 0
    distinct = set()
    n = 0
    for idx, tup in enumerate(itertools.product(alpha, repeat=k)):
        s = prefix + "".join(tup)
        n += 1
        if via in (2, 3):
            exp = model.expect_s64(s) if via == 2 else model.expect_u64(s)
            g = got.get(idx)
            gv = int(g) if g is not None else None
            if gv == exp:
                c = "reject" if exp is None else "value"
                classes[c] = classes.get(c, 0) + 1
                if exp is not None and len(distinct) < 5000:
                    distinct.add(gv)
            else:
                nm += 1
                if len(mism) < 20:
                    mism.append((s, ("int64", gv, exp)))
            continue
        cls, bad = judge_one(s, base, got.get(idx), via)
        if bad:
            nm += 1
            if len(mism) < 20:
                mism.append((s, bad))
        else:
            classes[cls] = classes.get(cls, 0) + 1
            if cls != "reject" and len(distinct) < 5000:
                distinct.add(got[idx])
    return n, classes, mism, nm, distinct


# ---------------------------------------------------------------------------------------------

class C13:
    def __init__(self, chk):
        self.chk = chk
        self.quick = chk.quick
        self.only = chk.args.only

    def want(self, name):
        w = not self.only or any(name.startswith(o) or o.startswith(name) for o in self.only.split(","))
        if w and os.environ.get("C13_TRACE"):
            sys.stderr.write("[C13 %6.1fs] %s\n" % (self.chk.elapsed(), name))
        return w

    # ---- violation reporting ---------------------------------------------------------
    def report_read(self, part, mism, base=None, via=0, fixed_sigs=None):
        """mism: list of (lit, (kind, got, allowed)). One VIOLATION per (part, kind): minimal literal."""
        by_kind = {}
        for lit, bad in mism:
            by_kind.setdefault(bad[0], []).append((lit, bad))
        for kind in sorted(by_kind):
            cases = by_kind[kind]
            cases.sort(key=lambda c: (len(c[0]), c[0] if isinstance(c[0], str) else c[0].decode("latin-1")))
            lit, (_, got, allowed) = cases[0]
            if fixed_sigs and kind in fixed_sigs:
                sig = fixed_sigs[kind]
            else:
                sig = "%s:%s:%s" % (part, kind, short(lit))
            what = "%s %s of literal %r%s: got %s, admissible %s (%d such cases in this part)" % (
                "parser" if via == 1 else "scan-number", kind, short(lit),
                " base %d" % base if base else "", fmt_bits(got),
                "none (must be rejected)" if allowed is None else "{" + ", ".join(fmt_bits(b) for b in allowed) + "}",
                len(cases))
            self.chk.violation(sig=sig, what=what, replay_text=read_replay(lit, base, got, allowed),
                               replay_cmd="janet <this file>   (prints FAIL)")

    def driver_failure(self, part, status, text, item):
        self.chk.violation(sig="%s:driver-%s" % (part, status),
                           what="driver item ended with %s: %s" % (status, text[:300]),
                           replay_text="# batch item that failed (run through props/C13/driver.janet):\n# %s\n" % item[:2000])

    # ---- reading: explicit literal lists ----------------------------------------------
    def read_list(self, part, lits, base=None, via=0, fixed_sigs=None):
        """Scan every literal of `lits` (str or bytes) and judge against the model."""
        chk = self.chk
        if not lits:
            return
        # item size: bounded text volume
        items, spans = [], []
        cur, cur_len, start = [], 0, 0
        for i, l in enumerate(lits):
            cur.append(l)
            cur_len += len(l) + 3
            if len(cur) >= 500 or cur_len > 150000:
                items.append(cur)
                spans.append((start, i + 1))
                cur, cur_len, start = [], 0, i + 1
        if cur:
            items.append(cur)
            spans.append((start, len(lits)))
        head = ":parse" if via == 1 else ":scan %s" % ("nil" if not base else base)
        texts = ["[%s %s]" % (head, " ".join(jdn(l) for l in it)) for it in items]
        res = run_batch("fast", DRIVER, texts, chunk=max(1, (len(texts) + JOBS * 2 - 1) // (JOBS * 2)), timeout=300)
        jobs = []
        for it, (st, text), t in zip(items, res, texts):
            if st != "OK":
                self.driver_failure(part, st, text, t)
                continue
            toks = text.split(" ")
            if len(toks) != len(it):
                raise HarnessError("%s: %d results for %d literals" % (part, len(toks), len(it)))
            jobs.append((it, base, toks, via))
        classes, mism, nm, distinct = {}, [], 0, set()
        for c, m, n, d in pool_map(judge_list, jobs):
            for k, v in c.items():
                classes[k] = classes.get(k, 0) + v
            mism.extend(m)
            nm += n
            distinct |= d
        chk.add(evaluations=len(lits), transitions=len(lits))
        if part in ("read.dec.sweep", "read.radix") and jobs:
            for (its, _, tk, _) in (jobs[0], jobs[len(jobs) // 2], jobs[-1]):
                i = len(its) // 2
                ex = model.expect(its[i], base or 0)
                chk.sample(dict(part=part, literal=short(its[i]), result_bits=tk[i],
                                admissible=None if ex is None else ["%016x" % b for b in ex]), limit=12)
        chk.part(part, literals=len(lits), mismatches=nm, distinct_results=len(distinct),
                 **{"n_" + k: v for k, v in classes.items()})
        for k in classes:
            chk.outcome("%s/%s" % (part.split(".")[0], k))
        for d in sorted(distinct)[:300]:
            chk.outcome("v:" + d)
        if mism:
            self.report_read(part, mism, base, via, fixed_sigs)
        return nm

    # ---- reading: exhaustive strings over an alphabet ---------------------------------
    def read_enum(self, part, alpha, maxlen, base=None, via=0):
        chk = self.chk
        units = []
        for n in range(1, maxlen + 1):
            k = min(n, 3 if n <= 5 else 4)
            for pre in itertools.product(alpha, repeat=n - k):
                units.append(("".join(pre), k))
        items = ["[:enum %s %s %d %s %d]" % (jdn(alpha), jdn(p), k, "nil" if not base else base, via)
                 for p, k in units]
        res = run_batch("fast", DRIVER, items, chunk=max(1, min(64, (len(items) + JOBS * 4 - 1) // (JOBS * 4))),
                        timeout=300)
        jobs = []
        for (p, k), (st, text), it in zip(units, res, items):
            if st != "OK":
                self.driver_failure(part, st, text, it)
                continue
            jobs.append((alpha, p, k, base, via, text))
        total, classes, mism, nm, distinct = 0, {}, [], 0, set()
        for n, c, m, cnt, d in pool_map(judge_enum, jobs, chunksize=4):
            total += n
            for kk, v in c.items():
                classes[kk] = classes.get(kk, 0) + v
            mism.extend(m)
            nm += cnt
            if len(distinct) < 20000:
                distinct |= d
        chk.add(evaluations=total, transitions=total, states=total)
        chk.part(part, strings=total, maxlen=maxlen, alphabet=alpha, mismatches=nm,
                 distinct_values=len(distinct), **{"n_" + k: v for k, v in classes.items()})
        for k in classes:
            chk.outcome("%s/%s" % (part.split(".")[0], k))
        for d in sorted(distinct, key=str)[:300]:
            chk.outcome("v:%s" % d)
        if mism:
            if via in (2, 3):
                self.report_int(part, [(s, "s" if via == 2 else "u", b[1], b[2]) for s, b in mism])
            else:
                self.report_read(part, mism, base, via)
        return total

    # ---- int64 ------------------------------------------------------------------------
    def report_int(self, part, mism):
        """mism: (lit, kind 's'|'u', got(int|None|str), expected(int|None))"""
        by = {}
        for lit, kind, got, exp in mism:
            cat = ("accepts-out-of-range-or-invalid" if exp is None else
                   "rejects-valid" if got is None else "wrong-value")
            by.setdefault((kind, cat), []).append((lit, got, exp))
        for (kind, cat) in sorted(by):
            cases = sorted(by[(kind, cat)], key=lambda c: (len(c[0]), c[0]))
            lit, got, exp = cases[0]
            ctor = "int/s64" if kind == "s" else "int/u64"
            rep = ("(def r (protect (%s %s)))\n(printf \"%%q\" r)\n" % (ctor, jdn(lit)) +
                   "(print \"expected: %s\")\n" % ("an error (text is invalid or out of range)" if exp is None else exp))
            self.chk.violation(sig="%s:%s:%s:%s" % (part, ctor, cat, short(lit)),
                               what="(%s %r): got %r, expected %s (%d such cases)" % (
                                   ctor, short(lit), got, "rejection" if exp is None else exp, len(cases)),
                               replay_text=rep, replay_cmd="janet <this file>")

    def int_list(self, part, kind, lits):
        chk = self.chk
        items, groups = [], []
        for i in range(0, len(lits), 400):
            g = lits[i:i + 400]
            groups.append(g)
            items.append("[:i64 %s %s]" % (jdn(kind), " ".join(jdn(l) for l in g)))
        res = run_batch("fast", DRIVER, items, chunk=max(1, (len(items) + JOBS - 1) // JOBS), timeout=300)
        mism = []
        nacc = nrej = 0
        tname = "core/s64" if kind == "s" else "core/u64"
        for g, (st, text), it in zip(groups, res, items):
            if st != "OK":
                self.driver_failure(part, st, text, it)
                continue
            toks = text.split("|")
            if len(toks) != len(g):
                raise HarnessError("%s: token count" % part)
            for lit, tok in zip(g, toks):
                exp = model.expect_s64(lit) if kind == "s" else model.expect_u64(lit)
                if tok == "E":
                    got = None
                else:
                    t, tv, same, ty = tok[1:].split(";")
                    try:
                        got = int(t)
                        if str(got) != t:
                            got = "text:" + t
                    except ValueError:
                        got = "text:" + t
                    if got == exp and (tv != "<%s %s>" % (tname, t) or same != "same" or ty != tname):
                        got = "print/readback:" + tok
                if got == exp:
                    if exp is None:
                        nrej += 1
                    else:
                        nacc += 1
                        chk.outcome("i64:%s" % (exp if abs(exp) < 1000 else exp.bit_length()))
                else:
                    mism.append((lit, kind, got, exp))
        chk.add(evaluations=len(lits), transitions=len(lits))
        chk.part(part, **{"texts_" + kind: len(lits), "accepted_" + kind: nacc, "rejected_" + kind: nrej,
                          "mismatches": len(mism)})
        chk.outcome("i64/accept")
        chk.outcome("i64/reject")
        if mism:
            self.report_int(part, mism)

    # ---- printing: in-process families -------------------------------------------------
    def print_families(self, part, items, describe):
        """items: driver items returning 'count bad first,...'."""
        chk = self.chk
        res = run_batch("fast", DRIVER, items, chunk=max(1, min(8, (len(items) + JOBS * 2 - 1) // (JOBS * 2))),
                        timeout=1800)
        count = bad = 0
        firsts = []
        for (st, text), it in zip(res, items):
            if st != "OK":
                self.driver_failure(part, st, text, it)
                continue
            f = text.split(" ")
            count += int(f[0])
            bad += int(f[1])
            if len(f) > 2 and f[2]:
                firsts.extend(f[2].split(","))
        chk.add(evaluations=count, transitions=count, states=count)
        chk.part(part, doubles=count, mismatches=bad, family=describe)
        chk.outcome("print/roundtrip-ok")
        if bad:
            first = firsts[0]
            if part.startswith("print.ints"):
                rep = ("(def x (scan-number %s))\n" % jdn(first) +
                       "(printf \"string %s  %%v %v  %%j %j  %%.17g %.17g  %%d %d\" (string x) x x x x)\n" +
                       "(printf \"negated: string %s  %%j %j  %%.17g %.17g\" (string (- x)) (- x) (- x))\n" +
                       "(print \"expected every form to be exactly %s (and its negation)\")\n" % first)
                self.chk.violation(sig="%s:integer-text:%s" % (part, first),
                                   what="integer %s (or its negation) does not print/read back exactly "
                                        "through string/%%v/%%j/%%.17g/%%d (%d such integers)" % (first, bad),
                                   replay_text=rep, replay_cmd="janet <this file>")
            else:
                b = int(first, 16)
                self.chk.violation(sig="%s:roundtrip:%016x" % (part, b),
                                   what="double %s does not read back bit-identically from its %%.17g / %%j text "
                                        "(%d such doubles in this family)" % (fmt_bits(b), bad),
                                   replay_text=print_replay(b), replay_cmd="janet <this file>   (prints FAIL)")
        return count, bad

    # ---- printing: texts judged in Python ----------------------------------------------
    def print_texts(self, part, bitlist):
        chk = self.chk
        items, groups = [], []
        for i in range(0, len(bitlist), 500):
            g = bitlist[i:i + 500]
            groups.append(g)
            items.append("[:texts %s]" % " ".join("[%d %d]" % (b >> 32, b & 0xFFFFFFFF) for b in g))
        res = run_batch("fast", DRIVER, items, chunk=max(1, (len(items) + JOBS - 1) // JOBS), timeout=300)
        nbad = 0
        nint = 0
        for g, (st, text), it in zip(groups, res, items):
            if st != "OK":
                self.driver_failure(part, st, text, it)
                continue
            toks = text.split(" ")
            if len(toks) != len(g):
                raise HarnessError("%s: token count" % part)
            for b, tok in zip(g, toks):
                t17, tj, ts, tv, td, b17, bj, bp = tok.split("|")
                x = model.double_of(b)
                hexb = "%016x" % b
                problems = []
                # (1) the printed texts denote a value whose correctly rounded double is x (Python reader)
                for nm, t in (("%.17g", t17), ("%j", tj)):
                    try:
                        if model.bits_of(float(t)) != b:
                            problems.append("%s text %r denotes another double" % (nm, t))
                    except ValueError:
                        problems.append("%s text %r is not a number" % (nm, t))
                # (2) janet reads its own text back as the identical double
                for nm, r in (("scan-number of %.17g text", b17), ("scan-number of %j text", bj), ("parse of %j text", bp)):
                    if r != hexb:
                        problems.append("%s gives %s" % (nm, r))
                # (3) integer-valued numbers up to 2^53 print exactly
                if x == int(x) and abs(x) <= 2 ** 53:
                    nint += 1
                    want = str(int(x))  # "-0" prints as "0" (documented in pp.c: prevent printing of '-0')
                    for nm, t in (("string", ts), ("%v", tv), ("describe", td)):
                        if t != want:
                            problems.append("%s prints %r, expected %r" % (nm, t, want))
                    want17 = "-0" if b == SIGN else want
                    for nm, t in (("%.17g", t17), ("%j", tj)):
                        if t != want17:
                            problems.append("%s prints %r, expected %r" % (nm, t, want17))
                if problems:
                    nbad += 1
                    if nbad > 3:
                        continue
                    self.chk.violation(sig="%s:text:%s" % (part, hexb),
                                       what="double %s: %s" % (fmt_bits(b), "; ".join(problems)),
                                       replay_text=print_replay(b), replay_cmd="janet <this file>")
                else:
                    chk.outcome("t:" + t17[:6])
        chk.add(evaluations=len(bitlist), transitions=len(bitlist))
        chk.part(part, doubles=len(bitlist), integer_valued=nint, mismatches=nbad)


def print_replay(b):
    x = janet_double_expr(b)
    want_int = ""
    d = model.double_of(b)
    if math.isfinite(d) and d == int(d) and abs(d) <= 2 ** 53:
        want_int = "(printf \"string: %%s   expected %s\" (string x))\n" % str(int(d))
    return ("(def x %s)\n" % x +
            "(def t17 (string/format \"%.17g\" x))\n(def tj (string/format \"%j\" x))\n" +
            "(printf \"x    = %a\" x)\n(printf \"%%.17g -> %s -> %a\" t17 (scan-number t17))\n" +
            "(printf \"%%j    -> %s -> %a\" tj (scan-number tj))\n" + want_int +
            "(defn same [a b] (and a (= a b) (= (/ 1 a) (/ 1 b))))\n" +
            "(print (if (and (same (scan-number t17) x) (same (scan-number tj) x) (same (parse tj) x)) \"ok\" \"FAIL\"))\n")


# ---------------------------------------------------------------------------------------------
# literal families

ALPHA_A = "019.-+_eE&xrpfz"   # DESIGN alphabet (15)
ALPHA_B = "1236.-_PpFax r&".replace(" ", "")  # second alphabet: radix prefixes 2r 3r 6r 12r 16r 32r 36r, upper case
ALPHA_I = "019-+_xrfz"


def to_radix(v, r, upper=False):
    if v == 0:
        return "0"
    ds = "0123456789abcdefghijklmnopqrstuvwxyz"
    if upper:
        ds = ds.upper()
    out = []
    while v:
        out.append(ds[v % r])
        v //= r
    return "".join(reversed(out))


def dec_mantissas():
    m = ["1", "3", "5", "9", "17", "123456789", str(2 ** 53 - 1), str(2 ** 53), str(2 ** 53 + 1),
         "9007199254740993", "12345678901234567", "17976931348623157", "17976931348623158",
         "17976931348623159", "22250738585072014", "22250738585072011", "22250738585072009",
         "49406564584124654", "24703282292062327", "24703282292062328", "4503599627370496",
         "4503599627370497", "45035996273704965", "72057594037927945", "99999999999999999",
         "9" * 20, "1234567890123456789012345678901234567890", "9" * 40, "1" * 40,
         "9" * 300, "1" * 300, "1" + "0" * 299, "5" + "0" * 150 + "1", "7" * 900]
    return m


def fam_dec_sweep(quick):
    """mantissas x every decimal exponent in [-345, 310] (relative to the leading digit) x forms."""
    lits = []
    for D in dec_mantissas():
        n = len(D)
        for e in range(-345, 311):
            # e is the exponent of the leading digit: value = D[0].D[1:] * 10^e
            ee = e - (n - 1)
            mk = "e" if e % 2 == 0 else "E"
            sg = "+" if (e % 3 == 0 and ee >= 0) else ""
            lits.append("%s%s%s%d" % (D, mk, sg, ee))
            lits.append("-%s%s%d" % (D, mk, ee))
            # point after the first digit
            lits.append("%s.%s%s%d" % (D[0], D[1:], mk, e))
            if n <= 40 or e % 5 == 0:
                # pure fraction, zero padding, underscores, '&' as decimal exponent marker
                lits.append("0.%s%s%d" % (D, mk, e + 1))
                lits.append("+000%s000&%d" % (D, ee - 3))
                lits.append("%s_%s.0_0%s%d" % (D[0], D[1:], mk, ee) if n > 1 else "%s_._0%s%d" % (D, mk, ee))
                lits.append("-.000%s%s%d" % (D, mk, e + 4))
    return lits


def fam_dec_dyadic(quick):
    """exactly representable values written out in full decimal: m * 2^-k and big integers."""
    lits = []
    for k in list(range(0, 1081)) + [1100, 1200]:
        p5 = 5 ** k
        for m in (1, 3, 2 ** 52 + 1, 2 ** 53 - 1):
            D = str(m * p5)           # m * 2^-k = m * 5^k / 10^k
            lits.append("%se-%d" % (D, k))
            if m in (1, 2 ** 53 - 1):
                if len(D) <= k:
                    lits.append("0." + "0" * (k - len(D)) + D)
                else:
                    lits.append(D[:len(D) - k] + "." + D[len(D) - k:])
            if m == 3:
                lits.append("-%s.0E-%d" % (D, k))
    for k in range(0, 1031):
        v = 2 ** k
        lits.append(str(v))
        if k >= 53:
            lits.append(str(v - 2 ** (k - 53)))      # 53 ones: representable
            lits.append(str(v + 1))                    # not representable for k >= 53
            lits.append("-" + str(v + 2 ** (k - 53)))  # 54 bits: a tie
            s = str(v)
            lits.append(s[0] + "." + s[1:] + "e" + str(len(s) - 1))
        else:
            lits.append(str(v + 1))
            lits.append(str(v - 1) + ".0")
    # powers of ten: exactly representable up to 10^22
    for k in range(0, 40):
        lits.append("1" + "0" * k)
        lits.append("1e%d" % k)
        lits.append("0." + "0" * k + "1e%d" % (2 * k + 1))
    return lits


def fam_dec_edges(quick):
    L = []
    dmax = int(model.DBL_MAX)
    tie = 2 ** 1024 - 2 ** 970
    for v in (dmax, dmax - 1, dmax + 1, tie - 1, tie, tie + 1, 2 ** 1024 - 1, 2 ** 1024, 2 ** 1024 + 1,
              dmax - 2 ** 969, dmax - 2 ** 970, 2 ** 1023, 10 ** 308, 2 * 10 ** 308):
        L += [str(v), "-" + str(v), str(v) + ".0", str(v) + "0e-1", "0.0" + str(v) + "e%d" % (len(str(v)) + 1)]
    # exact expansions around the smallest subnormal and the smallest normal
    for num, k in ((1, 1074), (1, 1075), (3, 1075), (1, 1076), (3, 1076), (2 ** 52, 1074), (2 ** 52 - 1, 1074),
                   (2 ** 53 - 1, 1075), (2 ** 53 + 1, 1075), (2 ** 54 - 1, 1076), (1, 1022), (2 ** 53 - 1, 1074)):
        D = str(num * 5 ** k)
        for delta in (0, -1, 1):
            DD = str(num * 5 ** k * 1000 + delta)
            L += ["%se-%d" % (DD, k + 3), "-0.%se-%d" % (DD, k + 3 - len(DD))]
        L.append("%se-%d" % (D, k))
    L += ["0", "-0", "+0", "0.0", "-0.0", ".0", "-.0", "0.", "-0.", "0e0", "-0e5", "-0.0e-5", "0e999999999999",
          "-0e-999999999", "0x0", "-0x0", "-0x0p5", "-2r0", "0&5", "-0&-5", "00000", "-0_0", "0.000000e+00",
          "1e308", "1e309", "-1e309", "1.7976931348623157e308", "1.7976931348623158e308",
          "1.7976931348623159e308", "1.797693134862315807e308", "1.797693134862315808e308",
          "1.79769313486231580793728971405301e308", "1.79769313486231580793728971405302e308",
          "1.79769313486231580793728971405303e308", "1.7976931348623159077293051907890e308",
          "1.7976931348623159077293051907891e308", "1.8e308", "17976931348623157e292",
          "0.00017976931348623157e312", "2.2250738585072014e-308", "2.2250738585072011e-308",
          "2.2250738585072009e-308", "2.225073858507201e-308", "4.9e-324", "4.94065645841246544e-324", "5e-324",
          "3e-324", "2.5e-324", "2.4703282292062327e-324", "2.4703282292062328e-324", "2.47032822920623272e-324",
          "2.470328229206232720882843964341106861825299013071623822127928412503e-324",
          "2.470328229206232720882843964341106861825299013071623822127928412504e-324",
          "1e-323", "1e-324", "1e-325", "-1e-325", "1e-330", "1e-345", "1e-400", "-1e-400", "1e-1000", "1e-99999",
          "1e99999", "-1e99999", "1e1000", "1e400", "1e2147483647", "1e2147483648", "1e-2147483648", "1e-2147483649",
          "1e4294967295", "1e4294967296", "1e4294967297", "1e-4294967297", "10e4294967295", "1e8589934593",
          "1e18446744073709551616", "1e18446744073709551617", "1e-18446744073709551617", "0.1e4294967297",
          "1e53687090", "1e53687091", "1e53687092", "1e-53687091", "1e536870912", "1e999999999", "1e1999999999",
          "1e00000000000000000000000000000000000000001", "1e-00000000000000000000000000000001",
          "1e+00", "1e-00", "1E+1", "1E-1", "1e+-1", "1e-+1", "1e--1", "1e", "1e+", "1e-", "1e.5", "1e1.5", "1e1e1",
          "1e1_0", "1e_1", "1_e1", "1e1_", "1_", "1__", "1_0", "1__0", "_1", "_", "0_", "0_1", "._1", ".0_1", "0._1",
          "1._", "1_.", "-_1", "+_1", "0x_1", "0x0_1", "0x1_", "16r_1", "16r0_f", "1_000_000", "1_0.0_0e1",
          "+1", "+-1", "--1", "-+1", "++1", "+", "-", "+.", "-.", ".", "..", "1..", ".1.", "1.2.3", "+.e1", ".e1",
          "0.e1", "1.e1", ".5", "5.", "-.5e1", "+5.e-1", "1 ", " 1", "1\t", "1,5", "1;", "1/2", "1:n", "1n", "0b1",
          "0o7", "0X1", "0x", "0xg", "0x1p", "0x1p+", "0x1pp1", "0x1p1p1", "0x1e1", "0x1E1", "0x1&1", "0x1&-1",
          "0x.p1", "0x1.p1", "0x.1p1", "1p1", "1P1", "10r1p1", "16r1p1", "16r1P-1", "16r1e1", "15r1e1", "14r1e1",
          "10r1e1", "10r1E1", "10r1&1", "11r1e1", "9r1e1", "1r", "1r0", "1r1", "1r00", "1r0.0", "1r0&0", "1r0&1",
          "0r", "0r0", "0r1", "0r9", "0r19", "0r1e2", "0r1.5", "00r1", "01r0", "01r1", "02r1", "2r1", "2r2", "2r12",
          "2r1&1", "2r1&2", "2r1&10", "2r1&-10", "2r1.1", "2r.1", "36rz", "36rZ", "36rz&z", "36rz&-z", "36r{", "37r1",
          "99r1", "100r1", "1r1r1", "16rff", "16rFF", "16rFf.8", "16Rff", "0xFF", "0xff", "0Xff", "35rz", "35ry",
          "3r2", "3r3", "8r7", "8r8", "10r9", "10ra", "11ra", "11rA", "11rb", "nan", "inf", "-inf", "math/inf",
          "NaN", "Infinity", "1f", "1d", "1.0f", "0x1.0f", "1e5f"]
    # padding
    for n in (1, 10, 100, 400, 900):
        L += ["0" * n + "1", "1." + "0" * n, "1." + "0" * n + "1", "0." + "0" * n + "1e%d" % (n + 1),
              "1" + "0" * n + "e-%d" % n, "0" * n + "." + "0" * n + "25e%d" % n, "-" + "0" * n,
              "0." + "0" * n, "1" + "_" * n, "1" + "_0" * n + "e-%d" % n, "9" * n, "9" * n + "." + "9" * n,
              "0." + "9" * n, "1e" + "0" * n + "5", "1e-" + "0" * n + "5", "0x" + "0" * n + "1p-" + "0" * n + "1",
              "0x" + "f" * n, "0x." + "f" * n, "0x1" + "0" * n + "p-%d" % (4 * n), "2r" + "1" * n,
              "2r1" + "0" * n + "&-" + to_radix(n, 2), "36r" + "z" * n + "&-" + to_radix(n, 36)]
    return L


def fam_radix(quick):
    lits = []
    for r in range(2, 37):
        md = to_radix(r - 1, r)
        pat40 = "".join(to_radix((i * 7 + 3) % r, r) for i in range(40))
        mants = ["1", md, to_radix(2 ** 53 - 1, r), to_radix(2 ** 53 + 1, r), "1." + md, "0.0" + md + "1"]
        if not quick:
            mants += ["10", md * 11, to_radix(2 ** 53, r), to_radix(2 ** 54 + 2, r, True), "1" + "0" * 20,
                      "0.1", md + "." + md, pat40, pat40[:20] + "." + pat40[20:], "1_0", to_radix(3 ** 40, r, True),
                      md * 60, "0." + md * 30, to_radix(2 ** 100 + 1, r)]
        E = int(math.ceil(1100 / math.log2(r)))
        for e in range(-E, E + 1):
            et = to_radix(abs(e), r, upper=(e % 2 == 1))
            es = ("-" if e < 0 else ("+" if e % 3 == 0 else "")) + et
            for i, m in enumerate(mants):
                lits.append("%dr%s&%s" % (r, m, es))
                if i < 2 or e % 4 == 0:
                    lits.append("-%dr%s&%s" % (r, m, es))
        for m in mants:
            lits.append("%dr%s" % (r, m))
            lits.append("-%dr%s" % (r, m))
            lits.append("%02dr%s" % (r, m) if r < 10 else "+%dr%s" % (r, m))
    return lits


def fam_hexfloat(quick):
    mants = ["1", "1.8", ".8", "0.8", "f.f", "F.F", "1fffffffffffff", "1.fffffffffffff", "1.fffffffffffff8",
             "1.fffffffffffff7", "1.fffffffffffff9", "3fffffffffffff", "10000000000001", "0.0001", "1_0", "abc.def",
             "123456789abcdef0123456789abcdef", "00001", "1.0000000000000000000001", "0.00000000000000000000008",
             "1.00000000000008", "1.000000000000080000000000000001", "ffffffffffffffffffff"]
    lits = []
    for m in mants:
        for p in range(-1160, 1041):
            mk = "p" if p % 2 == 0 else "P"
            sg = "+" if (p % 3 == 0 and p >= 0) else ""
            lits.append("0x%s%s%s%d" % (m, mk, sg, p))
            if p % 2 == 0 or len(m) < 4:
                lits.append("-0x%s%s%d" % (m, mk, p))
        lits.append("0x" + m)
        lits.append("-0x" + m)
        lits.append("16r" + m)
    return lits


def fam_bytes(quick):
    """single-byte substitutions into valid literals, including non-ASCII bytes."""
    bases = [b"123", b"1.5e3", b"-0x1f", b"16rff", b"1_0", b"0x1p-2", b"36rz&1", b"2r101", b"+.5", b"1e+10"]
    subs = [0x00, 0x01, 0x09, 0x0a, 0x20, 0x21, 0x22, 0x23, 0x24, 0x25, 0x27, 0x28, 0x2a, 0x2c, 0x2f, 0x3a, 0x3b,
            0x3d, 0x40, 0x47, 0x5a, 0x5b, 0x5d, 0x5e, 0x60, 0x67, 0x7a, 0x7b, 0x7e, 0x7f, 0x80, 0xb0, 0xb1, 0xb9,
            0xc1, 0xe1, 0xe5, 0xf0, 0xff, 0xae, 0xab, 0xad, 0xdf, 0xf8, 0xf2]
    out = []
    seen = set()
    for b in bases:
        for pos in range(len(b) + 1):
            for c in subs:
                for mode in (0, 1):
                    s = b[:pos] + bytes([c]) + (b[pos + mode:] if pos < len(b) or mode == 0 else b"")
                    if s not in seen:
                        seen.add(s)
                        out.append(s)
    return out


def fam_long(quick):
    """mantissas of 1000..3000 digits (beyond 'hundreds of digits')."""
    L = []
    for n in (1000, 1100, 1200, 1300, 1400, 1500, 1600, 2000, 3000):
        one = "1" + "0" * (n - 1)
        nine = "9" * n
        dm = "17976931348623157" + "0" * (n - 17)
        for D in (one, nine, dm):
            for lead in (0, 300, 308, -300, -308, -323):     # exponent of the leading digit
                L.append("%se%d" % (D, lead - (n - 1)))
            L.append("-%se%d" % (D, 300 - (n - 1)))
            L.append("%s.%se308" % (D[0], D[1:]))
        for k in (0, 1000, 1023, -1000, -1074):
            L.append("0x1%sp%d" % ("0" * n, k - 4 * n))
            L.append("0x%sp%d" % ("f" * n, k - 4 * n))
        L.append("2r1" + "0" * (3 * n) + "&-" + to_radix(3 * n - 1000, 2))
        L.append("36rz" + "0" * n + "&-" + to_radix(n - 150, 36))
    return L


# ---- printing families ----------------------------------------------------------------

def texts_family():
    B = []
    for e in range(0, 2047):
        for m in (0, 1, (1 << 52) - 1):
            B.append((e << 52) | m)
    for i in range(52):
        for d in (-1, 0, 1):
            v = (1 << i) + d
            if v > 0:
                B.append(v)
    ints = set()
    for k in range(0, 54):
        for d in (-1, 0, 1):
            v = 2 ** k + d
            if 0 <= v <= 2 ** 53:
                ints.add(v)
    for k in range(0, 16):
        for d in (-1, 0, 1):
            ints.add(10 ** k + d)
    for v in (2 ** 53 - 2, 2 ** 53 - 3, 999999999999999, 1000000000000001, 123456789012345, 4503599627370497):
        ints.add(v)
    for v in sorted(ints):
        B.append(model.bits_of(float(v)))
    for k in range(16, 23):
        B.append(model.bits_of(float(10 ** k)))
    for k in range(54, 70):
        B.append(model.bits_of(float(2 ** k + 2 ** (k - 52))))
    for f in (0.1, 0.2, 0.3, 1 / 3, 2 / 3, math.pi, math.e, 1e-5, 1e-7, 123456.789, 5e-324, 1e-310, 2.5, 1.5,
              0.5, 1e15 + 0.5, 1e16, 1e17, 1e21, 1e22, 1e23, 9007199254740993.0, 2.2250738585072014e-308,
              1.7976931348623157e308, 8.41e21, 2 ** 53 + 2.0, 4.35, 0.000123, 1e100, 1e-100):
        B.append(model.bits_of(f))
    out = []
    seen = set()
    for b in B:
        for s in (0, SIGN):
            if (b | s) not in seen:
                seen.add(b | s)
                out.append(b | s)
    return out


def int_values():
    V = set([0, 1, 7, 10, 255, 256])
    for k in range(1, 66):
        V |= {2 ** k - 1, 2 ** k, 2 ** k + 1}
    for k in range(1, 22):
        V |= {10 ** k - 1, 10 ** k, 10 ** k + 1}
    for n in (19, 20, 21):
        V |= {int("9" * n), int("1" * n), int("18" + "4" * (n - 2)), int("92" + "2" * (n - 2))}
    V |= {9223372036854775807, 9223372036854775808, 9223372036854775809, 18446744073709551615,
          18446744073709551616, 18446744073709551617, 9223372036854775799, 9223372036854775810,
          18446744073709551609, 18446744073709551620, 10000000000000000000, 20000000000000000000,
          99999999999999999999, 184467440737095516150, 92233720368547758070}
    return sorted(V)


def int_texts():
    T = []
    for v in int_values():
        forms = [str(v), "000" + str(v), "0x" + to_radix(v, 16), "0x" + to_radix(v, 16, True), "16r" + to_radix(v, 16),
                 "2r" + to_radix(v, 2), "8r" + to_radix(v, 8), "36r" + to_radix(v, 36), "36r" + to_radix(v, 36, True),
                 "7r" + to_radix(v, 7), "10r" + str(v)]
        s = str(v)
        if len(s) > 3:
            forms.append(s[:-3] + "_" + s[-3:])
            forms.append(s[0] + "__" + s[1:] + "_")
        for f in forms:
            T += [f, "-" + f, "+" + f]
    T += ["", "-", "+", "_", "_1", "1_", "0x", "0x_1", "1.0", "1e3", "1.", ".1", "1:s", "1 ", " 1", "0b1", "1r0", "0r5",
          "37r1", "99r1", "01r0", "2r2", "16rg", "0xg", "0X1", "1r", "--1", "+-1", "-+1", "1-", "9" * 151, "0" * 150,
          "0" * 151, "0" * 149 + "1", "-" + "0" * 149, "1" + "_" * 149, "1" + "_" * 150, "-0", "+0", "-0x0", "00",
          "2r" + "1" * 63, "2r" + "1" * 64, "2r" + "1" * 65, "-2r1" + "0" * 63, "-2r1" + "0" * 62 + "1",
          "2r" + "_".join("1" * 64), "-2r1_" + "_".join("0" * 63)]
    out, seen = [], set()
    for t in T:
        if t not in seen:
            seen.add(t)
            out.append(t)
    return out


# ---------------------------------------------------------------------------------------------

def main():
    global POOL
    chk = Check("C13")
    model.selftest()
    POOL = multiprocessing.get_context("fork").Pool(JOBS)
    c = C13(chk)
    quick = chk.quick
    chk.rule("reading: every string over a 15-character literal alphabet up to a length bound (plus a second "
             "alphabet and scan-number's base argument and the parser), and product families mantissa x every "
             "exponent across and beyond the double range x sign x notation for radix 10, 2..36 and hex floats; "
             "each result is judged against the exact rational value: identical double when representable, else one "
             "of the two adjacent doubles; accept/reject must equal the re-stated grammar. printing: structured "
             "families of doubles generated from bit patterns (all binades x boundary mantissas, all <=2-bit "
             "mantissas x all exponents, subnormal ranges, consecutive integers, (thorough) every float32 value) "
             "must read back bit-identically from %.17g and %j; integers up to 2^53 print as plain decimal. int64: "
             "every string over a 10-character alphabet up to a bound plus boundary values x notations: exact or "
             "rejected. A case is distinct by its literal text / bit pattern.")
    chk.assume("Python int arithmetic, int/int true division (correctly rounded) and float(str) are correct")
    chk.assume("libc snprintf(\"%.17g\") is what janet prints with; its output is judged, not trusted")
    chk.assume("vjanet 'fast' build (gcc -O2, per-file) of the working tree behaves like the shipped amalgamation")

    # ---------------- reading: exhaustive syntax ----------------
    if c.want("read.syntax"):
        c.read_enum("read.syntax.A", ALPHA_A, 5 if quick else 6)
        c.read_enum("read.syntax.B", ALPHA_B, 4 if quick else 5)
        for b in (2, 10, 16, 36):
            c.read_enum("read.syntax.base%d" % b, ALPHA_A, 4 if quick else 5, base=b)
    if c.want("read.parser"):
        c.read_enum("read.parser.A", ALPHA_A, 4 if quick else 5, via=1)
    # ---------------- reading: value families ----------------
    fams = [("read.dec.sweep", fam_dec_sweep), ("read.dec.dyadic", fam_dec_dyadic), ("read.dec.edges", fam_dec_edges),
            ("read.radix", fam_radix), ("read.hexfloat", fam_hexfloat), ("read.bytes", fam_bytes)]
    for name, fn in fams:
        if c.want(name):
            lits = fn(quick)
            c.read_list(name, lits)
            if name in ("read.dec.edges", "read.bytes"):
                # the same literals through the parser (token -> number or not)
                pl = [l for l in lits if not any(ch in (l if isinstance(l, bytes) else l.encode())
                                                 for ch in b" \t\n\r\0\f\v()[]{}\"`;#'~,@|^\\:") and len(l) > 0]
                pl = [l for l in pl if not (isinstance(l, bytes) and any(ch > 127 for ch in l))]
                pl = [l for l in pl if (l if isinstance(l, str) else l.decode()) not in ("nil", "true", "false")]
                c.read_list(name + ".parser", pl, via=1)
    if c.want("read.long"):
        c.read_list("read.long-mantissa", fam_long(quick),
                    fixed_sigs={"premature-inf": "read.long-mantissa:premature-inf"})

    # ---------------- printing ----------------
    if c.want("print.texts"):
        c.print_texts("print.texts", texts_family())
    if c.want("print.pow2"):
        c.print_families("print.pow2", ["[:pow2 %d %d]" % (a, min(a + 16, 2047)) for a in range(0, 2047, 16)],
                         "exponent fields 0..2046 x mantissa {0,1,2,2^51,2^52-2,2^52-1} x sign")
    if c.want("print.twobit"):
        es = list(range(0, 2047))
        signs = "[0]" if quick else "[0 2147483648]"
        c.print_families("print.twobit", ["[:twobit [%s] %s]" % (" ".join(map(str, es[i:i + 8])), signs)
                                          for i in range(0, len(es), 8)],
                         "every mantissa with <= 2 bits set x exponent fields 0..2046 x sign %s" % ("+" if quick else "+-"))
    if c.want("print.stride"):
        n = 2 ** 20 if quick else 2 ** 21
        c.print_families("print.stride", ["[:stride %d %d]" % (a, a + 2 ** 14) for a in range(0, n, 2 ** 14)],
                         "bit patterns (k*2654435761 mod 2^32):(k*2246822519+12345 mod 2^32), k < %d, finite ones: "
                         "full-width mantissas over all exponents and both signs" % n)
    if not quick and c.want("print.threebit"):
        es = list(range(0, 2047))
        c.print_families("print.threebit", ["[:threebit %d [%s]]" % (i, " ".join(map(str, es[a:a + 256])))
                                            for i in range(2, 52) for a in range(0, 2047, 256)],
                         "every mantissa with exactly 3 bits set x exponent fields 0..2046, positive")
    if c.want("print.ranges"):
        n = 2 ** 18 if quick else 2 ** 22
        step = 2 ** 14
        items = []
        for hi, lo0, lo1 in ((0, 0, n), (0x000FFFFF, 2 ** 32 - n // 4, 2 ** 32), (0x00100000, 0, n // 4),
                             (0x3FF00000, 0, n // 4), (0x3FEFFFFF, 2 ** 32 - n // 4, 2 ** 32),
                             (0x7FEFFFFF, 2 ** 32 - n // 4, 2 ** 32), (0x43300000, 0, n // 4),
                             (0x80000000, 0, n // 4), (0x3FB99999, 0x99990000, 0x99990000 + n // 4)):
            for a in range(lo0, lo1, step):
                items.append("[:lo-range %d %d %d]" % (hi, a, min(a + step, lo1)))
        c.print_families("print.ranges", items,
                         "consecutive doubles: smallest subnormals, largest subnormals, smallest normals, "
                         "above 1, below 1, below DBL_MAX, above 2^52, negative subnormals, around 0.1")
    if c.want("print.ints"):
        n = 2 ** 18 if quick else 2 ** 23
        step = 2 ** 14
        items = ["[:ints %d %d %s]" % (a, step, jdn(str(a))) for a in range(0, n, step)]
        for k in range(19, 54):
            a = 2 ** k - 64
            b = min(2 ** k + 64, 2 ** 53 + 1)
            items.append("[:ints %d %d %s]" % (a, b - a, jdn(str(a))))
        items.append("[:ints %d %d %s]" % (2 ** 53 - 8192, 8193, jdn(str(2 ** 53 - 8192))))
        for k in range(5, 16):
            items.append("[:ints %d %d %s]" % (10 ** k - 60, 120, jdn(str(10 ** k - 60))))
        c.print_families("print.ints", items,
                         "consecutive integers from 0, windows around 2^k (k<=53) and 10^k (k<=15), and negations; "
                         "string/describe/%v/%j/%.17g/%d against an independent decimal odometer")

    # ---------------- 64-bit integer text ----------------
    if c.want("int64.syntax"):
        c.read_enum("int64.syntax.s64", ALPHA_I, 5 if quick else 6, via=2)
        c.read_enum("int64.syntax.u64", ALPHA_I, 5 if quick else 6, via=3)
    if c.want("int64.values"):
        T = int_texts()
        c.int_list("int64.values", "s", T)
        c.int_list("int64.values", "u", T)
    if c.want("int64.parser"):
        T = [t for t in int_texts() if t and t[0] in "0123456789+-" and " " not in t and ":" not in t]
        c.int_parser("int64.parser", T)

    # ---------------- thorough: every float32-representable double ----------------
    if not quick and c.want("print.f32"):
        c.f32_sweep()

    chk.cov["bound_completed"] = (
        "syntax: all strings len<=%d over A, <=%d over B/base-arg/parser; decimal exponents -345..310; radix 2..36 "
        "exponents covering 2^+-1100; hex p -1160..1040; printing families complete%s" % (
            5 if quick else 6, 4 if quick else 5, "" if quick else "; float32 sweep: see parts"))
    POOL.close()
    chk.finish()


def _int_parser(self, part, T):
    """tokens T with :s / :u / :n suffix through the parser."""
    chk = self.chk
    toks = []
    for t in T:
        for suf in (":s", ":u", ":n"):
            toks.append(t + suf)
    toks += ["1:x", "1:", "1:S", "1:ss", "1::s", ":s", "1.5:s", "1e3:u", "1.5:n", "0x1p4:n", "-0:u", "-0:s", "-0:n"]
    groups, items = [], []
    for i in range(0, len(toks), 400):
        g = toks[i:i + 400]
        groups.append(g)
        items.append("[:parse %s]" % " ".join(jdn(l) for l in g))
    res = run_batch("fast", DRIVER, items, chunk=max(1, (len(items) + JOBS - 1) // JOBS), timeout=300)
    nbad = 0
    counts = {}
    for g, (st, text), it in zip(groups, res, items):
        if st != "OK":
            self.driver_failure(part, st, text, it)
            continue
        rs = text.split(" ")
        if len(rs) != len(g):
            raise HarnessError("%s: token count" % part)
        for tok, r in zip(g, rs):
            body, suf = tok[:-2], tok[-2:]
            want = "-"
            if tok[:1] in tuple("0123456789+-.") and len(tok) >= 2 and tok[-2] == ":":
                if suf == ":s":
                    v = model.expect_s64(body)
                    want = "-" if v is None else "s%d" % v
                elif suf == ":u":
                    v = model.expect_u64(body)
                    want = "-" if v is None else "u%d" % v
                elif suf == ":n":
                    a = model.expect(body)
                    want = "-" if a is None else a
            ok = (r == want) if isinstance(want, str) else (r[:1] == "n" and int(r[1:], 16) in want)
            counts[r[:1]] = counts.get(r[:1], 0) + 1
            if not ok:
                nbad += 1
                if nbad > 3:
                    continue
                self.chk.violation(sig="%s:%s" % (part, short(tok)),
                                   what="parser token %r gives %s, expected %s" % (tok, r, want),
                                   replay_text="(def r (protect (parse %s)))\n(printf \"%%q\" r)\n(print \"expected %s\")\n" % (
                                       jdn(tok), want if isinstance(want, str) else "number with bits in %s" % (["%016x" % b for b in want],)),
                                   replay_cmd="janet <this file>")
    chk.add(evaluations=len(toks), transitions=len(toks))
    chk.part(part, tokens=len(toks), mismatches=nbad, **{"result_" + k: v for k, v in counts.items()})
    for k in counts:
        chk.outcome("parse-int/" + k)


def _f32_sweep(self):
    """every float32-representable double: positive normals through %.17g (bound 1), float32 subnormals,
    then negative normals through %j (bound 2). Stops between bounds when out of time."""
    chk = self.chk
    groups = [("print.f32.pos", 0, 0), ("print.f32.neg", 1, 1)]
    done = []
    c, b = self.print_families("print.f32.sub", ["[:f32sub %d %d]" % (a, a + 2 ** 18) for a in range(0, 2 ** 23, 2 ** 18)],
                               "m * 2^-149, 0 <= m < 2^23, both signs (float32 subnormals)")
    for name, s, mode in groups:
        es = list(range(897, 1151))
        for i in range(0, len(es), 32):
            if chk.out_of_time(0.80):
                chk.cap("%s: stopped before exponent field %d (completed %s)" % (name, es[i], done[-1] if done else "none"))
                chk.part(name, completed_exponent_fields=i)
                return
            sub = es[i:i + 32]
            self.print_families(name, ["[:f32 %d %d %d]" % (s, e, mode) for e in sub],
                                "all 2^23 float32 mantissas per binade, sign %d, via %s" % (s, ("%.17g", "%j")[mode]))
            done.append("%s e<=%d" % (name, sub[-1]))
        chk.part(name, completed_exponent_fields=len(es))


C13.int_parser = _int_parser
C13.f32_sweep = _f32_sweep

if __name__ == "__main__":
    harness_guard(main)
