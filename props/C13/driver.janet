# C13 driver: number <-> text.  Every item is a tuple whose head keyword selects a mode.
# All deciding comparisons against the reference model happen in Python (check.py); the
# modes that loop over millions of doubles compare in-process (bit-exact `=` on doubles
# produced from bit patterns) and return only counters and the first mismatches.
(use prelude)

(defn- bits [x] (verif/double-to-bits x))

(defn- res-of [x]
  (cond (nil? x) "-"
        (number? x) (bits x)
        "?"))

# ---- reading --------------------------------------------------------------------------

(defn- do-scan [base lits]
  (def out @[])
  (each s lits
    (array/push out (res-of (if base (scan-number s base) (scan-number s)))))
  (string/join out " "))

(defn- parse-one [s]
  # value of the single token s through the real parser; nil if it is not a value / error
  (def r (try (parse s) ([e] :err)))
  r)

(defn- do-parse [lits]
  (def out @[])
  (each s lits
    (def r (parse-one s))
    (array/push out
                (cond (number? r) (string "n" (bits r))
                      (= (type r) :core/s64) (string "s" r)
                      (= (type r) :core/u64) (string "u" r)
                      "-")))
  (string/join out " "))

# exhaustive enumeration of prefix + every string of exactly k characters over alpha;
# index = position in lexicographic order (first character most significant).
# via: 0 scan-number, 1 parser, 2 int/s64, 3 int/u64
(defn- do-enum [alpha prefix k base via]
  (def n (length alpha))
  (def total (math/pow n k))
  (def buf (buffer prefix))
  (def plen (length prefix))
  (def idxs (array/new-filled k 0))
  (repeat k (buffer/push-byte buf (alpha 0)))
  (def out @"")
  (var i 0)
  (while (< i total)
    (case via
      0 (do
          (def r (if base (scan-number buf base) (scan-number buf)))
          (when (not (nil? r)) (buffer/push out (string i) "=" (bits r) " ")))
      1 (do
          (def r (parse-one buf))
          (when (number? r) (buffer/push out (string i) "=" (bits r) " ")))
      2 (do
          (def r (try (int/s64 (string buf)) ([e] nil)))
          (when r (buffer/push out (string i) "=" (string r) " ")))
      3 (do
          (def r (try (int/u64 (string buf)) ([e] nil)))
          (when r (buffer/push out (string i) "=" (string r) " "))))
    (var p (- k 1))
    (while (>= p 0)
      (def v (+ 1 (idxs p)))
      (if (< v n)
        (do (put idxs p v) (put buf (+ plen p) (alpha v)) (break))
        (do (put idxs p 0) (put buf (+ plen p) (alpha 0)) (-- p))))
    (++ i))
  (string out))

# ---- printing -------------------------------------------------------------------------

(def- fbuf @"")

(defn- rt17 [x]
  (buffer/clear fbuf)
  (buffer/format fbuf "%.17g" x)
  (= x (scan-number fbuf)))

(defn- rtj [x]
  (buffer/clear fbuf)
  (buffer/format fbuf "%j" x)
  (= x (scan-number fbuf)))

(defn- rtparse [x]
  (buffer/clear fbuf)
  (buffer/format fbuf "%j" x)
  (= x (parse fbuf)))

(defn- family-result [count bad firsts]
  (string count " " bad " " (string/join firsts ",")))

(defmacro- check-x [x]
  ~(do
     (++ count)
     (unless (and (rt17 ,x) (rtj ,x))
       (++ bad)
       (when (< (length firsts) 4) (array/push firsts (bits ,x))))))

# all doubles with exponent field e, sign s, and mantissa = (h << 32 | k << 29):
# the float32-representable values of that binade (23 mantissa bits).
(defn- do-f32 [s e mode]
  (var count 0) (var bad 0) (def firsts @[])
  (def hi0 (+ (* s 2147483648) (* e 1048576)))
  (def f (case mode 0 rt17 1 rtj 2 rtparse))
  (for h 0 1048576
    (def hi (+ hi0 h))
    (for k 0 8
      (def x (verif/bits-to-double hi (* k 536870912)))
      (++ count)
      (unless (f x)
        (++ bad)
        (when (< (length firsts) 4) (array/push firsts (bits x))))))
  (family-result count bad firsts))

# float32 subnormals m * 2^-149, m in [a, b)
(defn- do-f32sub [a b]
  (var count 0) (var bad 0) (def firsts @[])
  (def u (math/pow 2 -149))
  (for m a b
    (def x (* m u))
    (check-x x)
    (def y (- x))
    (check-x y))
  (family-result count bad firsts))

# doubles hi:lo for lo in [a, b)   (hi fixed)
(defn- do-lo-range [hi a b]
  (var count 0) (var bad 0) (def firsts @[])
  (for lo a b
    (def x (verif/bits-to-double hi lo))
    (check-x x))
  (family-result count bad firsts))

# for each exponent field in es: every mantissa with at most two bits set, both signs
(defn- do-twobit [es signs]
  (var count 0) (var bad 0) (def firsts @[])
  (each e es
    (each s signs
      (def hi0 (+ s (* e 1048576)))
      (defn one [m]
        (def x (verif/bits-to-double (+ hi0 (math/floor (/ m 4294967296))) (% m 4294967296)))
        (check-x x)
        (unless (rtparse x)
          (++ bad)
          (when (< (length firsts) 4) (array/push firsts (bits x)))))
      (one 0)
      (for i 0 52
        (def bi (math/pow 2 i))
        (one bi)
        (for j 0 i
          (one (+ bi (math/pow 2 j)))))))
  (family-result count bad firsts))

# every mantissa with exactly three bits set whose highest set bit is i, for exponent fields es
(defn- do-threebit [i es]
  (var count 0) (var bad 0) (def firsts @[])
  (def bi (math/pow 2 i))
  (each e es
    (def hi0 (* e 1048576))
    (for j 1 i
      (def bj (+ bi (math/pow 2 j)))
      (for k 0 j
        (def m (+ bj (math/pow 2 k)))
        (def x (verif/bits-to-double (+ hi0 (math/floor (/ m 4294967296))) (% m 4294967296)))
        (check-x x))))
  (family-result count bad firsts))

# full-width mantissas: bit pattern hi = k*2654435761 mod 2^32, lo = (k*2246822519 + 12345) mod 2^32
# for k in [a, b) (a fixed multiplicative stride over the whole 64-bit pattern space; non-finite skipped)
(defn- do-stride [a b]
  (var count 0) (var bad 0) (def firsts @[])
  (for k a b
    (def hi (% (* k 2654435761) 4294967296))
    # never build a non-finite pattern: NaN payloads alias boxed values in a nan-boxed build
    (unless (= 2047 (% (math/floor (/ hi 1048576)) 2048))
      (def x (verif/bits-to-double hi (% (+ (* k 2246822519) 12345) 4294967296)))
      (check-x x)
      (unless (rtparse x)
        (++ bad)
        (when (< (length firsts) 4) (array/push firsts (bits x))))))
  (family-result count bad firsts))

# for each exponent field e in [a, b): mantissas {0, 1, 2, all-ones, all-ones - 1}, both signs
(defn- do-pow2 [a b]
  (var count 0) (var bad 0) (def firsts @[])
  (for e a b
    (each s [0 2147483648]
      (each [mh ml] [[0 0] [0 1] [0 2] [1048575 4294967295] [1048575 4294967294] [524288 0]]
        (def x (verif/bits-to-double (+ s (* e 1048576) mh) ml))
        (check-x x)
        (unless (rtparse x)
          (++ bad)
          (when (< (length firsts) 4) (array/push firsts (bits x)))))))
  (family-result count bad firsts))

# n consecutive integers a, a+1, ... (a >= 0, a+n-1 <= 2^53) and their negations. `start` is the decimal text of a;
# an independent decimal odometer is advanced in lock step and every integer-printing path
# must produce exactly that text.
(defn- do-ints [a n start]
  (var count 0) (var bad 0) (def firsts @[])
  (def dec (buffer start))
  (defn inc-dec []
    (var p (- (length dec) 1))
    (var carry true)
    (while (and carry (>= p 0))
      (if (= (dec p) 57)
        (do (put dec p 48) (-- p))
        (do (put dec p (+ 1 (dec p))) (set carry false))))
    (when carry
      (def old (string dec))
      (buffer/clear dec)
      (buffer/push dec "1" old)))
  (def neg @"")
  (var x a)
  # iterate by count n: x + 1 == x at 2^53
  (while (< count n)
    (++ count)
    (def t (string dec))
    (buffer/clear neg)
    (buffer/push neg "-" t)
    (def nt (if (= x 0) "0" (string neg)))
    (def nt17 (if (= x 0) "-0" (string neg)))
    (def y (* -1 x))   # IEEE negation: (- 0) is +0 since the unary minus fix
    (unless (and (= t (string x)) (= t (describe x)) (= t (string/format "%v" x))
                 (= t (string/format "%j" x)) (= t (string/format "%.17g" x))
                 (= t (string/format "%d" x))
                 (= nt (string y)) (= nt (describe y))
                 (= nt17 (string/format "%j" y)) (= nt17 (string/format "%.17g" y))
                 (= x (scan-number t)) (= y (scan-number nt17)))
      (++ bad)
      (when (< (length firsts) 4) (array/push firsts t)))
    (inc-dec)
    (++ x))
  (family-result count bad firsts))

# texts of individual doubles for the Python side: %.17g | %j | string | %v | describe | rt flags
(defn- do-texts [pairs]
  (def out @[])
  (each [hi lo] pairs
    (def x (verif/bits-to-double hi lo))
    (def t17 (string/format "%.17g" x))
    (def tj (try (string/format "%j" x) ([e] "ERR")))
    (def back17 (scan-number t17))
    (def backj (scan-number tj))
    (def backp (try (parse tj) ([e] nil)))
    (array/push out (string/join [t17 tj (string x) (string/format "%v" x) (describe x)
                                  (res-of back17) (res-of backj) (if (number? backp) (bits backp) "-")] "|")))
  (string/join out " "))

# ---- 64-bit integers ------------------------------------------------------------------

(defn- do-i64 [kind lits]
  (def ctor (if (= kind "s") int/s64 int/u64))
  (def out @[])
  (each s lits
    (array/push out
                (try
                  (do
                    (def v (ctor s))
                    # value text, %v/describe text, and the value read back from its own text
                    (def t (string v))
                    (def back (ctor t))
                    (string "v" t ";" (string/format "%v" v) ";" (if (= back v) "same" "DIFF")
                            ";" (string (type v))))
                  ([e] "E"))))
  (string/join out "|"))

(defn main-handler [item]
  (def mode (first item))
  (case mode
    :scan (do-scan (item 1) (tuple/slice item 2))
    :parse (do-parse (tuple/slice item 1))
    :enum (do-enum (item 1) (item 2) (item 3) (item 4) (item 5))
    :f32 (do-f32 (item 1) (item 2) (item 3))
    :f32sub (do-f32sub (item 1) (item 2))
    :lo-range (do-lo-range (item 1) (item 2) (item 3))
    :twobit (do-twobit (item 1) (item 2))
    :pow2 (do-pow2 (item 1) (item 2))
    :threebit (do-threebit (item 1) (item 2))
    :stride (do-stride (item 1) (item 2))
    :ints (do-ints (item 1) (item 2) (item 3))
    :texts (do-texts (tuple/slice item 1))
    :i64 (do-i64 (item 1) (tuple/slice item 2))
    (error (string "unknown mode " mode))))

(batch-run main-handler)
