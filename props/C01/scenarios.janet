# C01 targeted scenarios: one per kind of heap edge and per root. Each scenario makes
# one edge the ONLY path to a freshly built object with observable content, crosses
# safepoints (and produces garbage that reuses freed memory) while only that edge
# holds it, then prints the content. Usage: vjanet scenarios.janet <name> | list

(defn fresh
  "a fresh heap object with observable content, built at run time"
  [tag]
  (buffer "content-" tag "-" (string/repeat "z" 24)))

(defn fresh-str [tag] (string "str-" tag "-" (string/repeat "y" 24)))
(defn fresh-tab [tag] @{:tag (fresh-str tag) :n 42})

(defn churn
  "cross many safepoints and allocate garbage of assorted sizes"
  [&opt n]
  (default n 3)
  (repeat n
    (array/new 8) @{:a 1 :b 2} (string "garbage" n) (buffer "g" n) (tuple n n n)
    (fn [] n) (fiber/new (fn [] n)) (struct :k n) (string/repeat "q" 40) (symbol "sym" n))
  nil)

(def scenarios @{})
(defmacro defscenario [name & body]
  ~(put scenarios ,(keyword name) (fn ,name [] ,;body)))

(defmacro window [& body]
  (with-syms [r]
    ~(do (verif/gc-window true) (def ,r (do ,;body)) (verif/gc-window false) ,r)))

# ---------------------------------------------------------------- container edges
(defscenario array-element
  (def a (array (fresh "ae") 1 2))
  (window (churn))
  (print (a 0)))

(defscenario tuple-element
  (def t (tuple (fresh "te") (fresh-str "te2")))
  (window (churn))
  (print (t 0) (t 1)))

(defscenario table-key
  (def t @{})
  (put t (fresh-str "tk") 1)
  (window (churn))
  (print (first (keys t))))

(defscenario table-value
  (def t @{:k (fresh "tv")})
  (window (churn))
  (print (t :k)))

(defscenario table-proto
  (def t (table/setproto @{} @{:inherited (fresh "tp")}))
  (window (churn))
  (print (t :inherited)))

(defscenario table-proto-chain
  (var t @{:deep (fresh "tpc")})
  (repeat 20 (set t (table/setproto @{} t)))
  (window (churn))
  (print (t :deep)))

(defscenario struct-key
  (def s (struct (fresh-str "sk") 1))
  (window (churn))
  (print (first (keys s))))

(defscenario struct-value
  (def s (struct :k (fresh "sv")))
  (window (churn))
  (print (s :k)))

(defscenario struct-proto
  (def s (struct/with-proto (struct :inh (fresh "sp")) :a 1))
  (window (churn))
  (print (s :inh)))

(defscenario buffer-content
  (def b (fresh "bc"))
  (window (churn) (buffer/push b "-more") (churn))
  (print b))

(defscenario nested-mix
  (def x @[(tuple @{:a (struct :b @[(fresh "nm")])})])
  (window (churn))
  (print (get-in x [0 0 :a :b 0])))

# ---------------------------------------------------------------- functions, defs, envs
(defscenario function-constant
  (def f (eval ~(fn [] ,(fresh-str "fc"))))
  (window (churn))
  (print (f)))

(defscenario function-env-detached
  (def f (do (def v (fresh "fed")) (fn [] v)))
  (window (churn))
  (print (f)))

(defscenario function-env-shared-var
  (def [inc-it get-it] (do (var c (fresh "fes")) [(fn [] (buffer/push c "+")) (fn [] c)]))
  (window (churn) (inc-it) (churn))
  (print (get-it)))

(defscenario function-subdef
  (def mk (eval '(fn [] (fn [] (fn [] "sub-def-constant-string-zzzzzzzzzzzz")))))
  (window (churn))
  (print (((mk)))))

(defscenario function-name-source
  (def f (eval '(fn a-long-function-name-for-gc [] 1)))
  (window (churn))
  (print (get (disasm f) :name) (f)))

(defscenario env-on-stack
  # closure whose environment still lives on a suspended fiber's stack
  (def fib (fiber/new (fn [] (def v (fresh "eos")) (yield (fn [] v)) v)))
  (def getter (resume fib))
  (window (churn))
  (print (getter)))

(defscenario env-of-dead-fiber
  # the fiber dies: the environment must have been detached from its stack
  (def fib (fiber/new (fn [] (def v (fresh "eodf")) (yield (fn [] v)) (error "die")) :ye))
  (def getter (resume fib))
  (resume fib)
  (window (churn))
  (print (fiber/status fib) (getter)))

(defscenario env-of-collected-fiber
  # only the closure survives, the fiber (suspended) is garbage
  (def getter (resume (fiber/new (fn [] (def v (fresh "eocf")) (yield (fn [] v)) v))))
  (window (churn))
  (print (getter)))

(defscenario closure-in-loop
  (def fs @[])
  (for i 0 5 (def v (fresh (string i))) (array/push fs (fn [] v)))
  (window (churn))
  (each f fs (print (f))))

# ---------------------------------------------------------------- fibers
(defscenario fiber-last-value
  (def fib (fiber/new (fn [] (yield (fresh "flv")))))
  (resume fib)
  (window (churn))
  (print (fiber/last-value fib)))

(defscenario fiber-last-value-of-finished-fiber
  # once a fiber has returned (or ended in an error) its frames are gone: last-value is the only path to the value
  (defn run-and-drop [f] (resume f) nil)
  (def f1 (fiber/new (fn [] (yield 1) (fresh "returned"))))
  (run-and-drop f1) (run-and-drop f1)
  (def f2 (fiber/new (fn [] (error (fresh-tab "raised"))) :e))
  (run-and-drop f2)
  (window (churn))
  (print (fiber/status f1) " " (fiber/last-value f1))
  (print (fiber/status f2) " " (string/format "%j" (fiber/last-value f2))))

(defscenario fiber-stack-slot
  (def fib (fiber/new (fn [] (def v (fresh "fss")) (yield 1) (print v))))
  (resume fib)
  (window (churn))
  (resume fib))

(defscenario fiber-deep-frames
  (defn rec [n v] (if (= n 0) (do (yield 1) v) (string "" (rec (- n 1) v))))
  (def fib (fiber/new (fn [] (rec 30 (fresh "fdf")))))
  (resume fib)
  (window (churn))
  (print (resume fib)))

(defscenario fiber-args-pending
  # a new fiber whose arguments are only held by the fiber
  (def fib (fiber/new (fn [a] (print a))))
  (def pending (fiber/new (fn [] (resume fib (fresh "fap")))))
  (window (churn))
  (resume pending))

(defscenario fiber-env-table
  (def fib (fiber/new (fn [] (yield 1) (print (dyn :verif-key))) :y))
  (fiber/setenv fib @{:verif-key (fresh "fet")})
  (resume fib)
  (window (churn))
  (resume fib))

(defscenario fiber-child
  (def parent (fiber/new (fn [] (def child (fiber/new (fn [] (def v (fresh "fch")) (yield 1) (print v)) :))
                           (resume child) (print "child finished")) :y))
  (resume parent)
  (window (churn))
  (resume parent))

(defscenario fiber-stack-growth
  # frames pushed after a collection; stack relocated under JANET_DEBUG
  (defn grow [n acc] (if (= n 0) acc (do (churn 1) (grow (- n 1) (tuple acc n)))))
  (def v (fresh "fsg"))
  (def r (window (grow 40 v)))
  (var x r)
  (while (tuple? x) (set x (x 0)))
  (print x))

(defscenario call-args-on-stack
  # arguments built, then a call that collects before using them
  (defn use3 [a b c] (churn) (print a b c))
  (window (use3 (fresh "a") (fresh-str "b") (fresh "c"))))

(defscenario varargs-and-keys
  (defn f [a & more] (churn) (print a (length more) (last more)))
  (defn g [&keys {:x x :y y}] (churn) (print x y))
  (window (f (fresh "va") 1 2 (fresh "vlast")) (g :x (fresh "kx") :y (fresh-str "ky"))))

(defscenario tail-call-args
  (defn t2 [v n] (if (= n 0) (print v) (do (churn 1) (t2 v (- n 1)))))
  (window (t2 (fresh "tca") 30)))

# ---------------------------------------------------------------- C re-entry (collection suspended inside, values held by C)
(defscenario sort-callback
  (def xs (seq [i :range [0 20]] (fresh (string (- 20 i)))))
  (window (sort xs (fn [a b] (churn 1) (< (string a) (string b)))))
  (print (first xs) (last xs)))

(defscenario map-callback
  (def r (window (map (fn [i] (churn 1) (fresh (string i))) (range 10))))
  (each x r (print x)))

(defscenario string-replace-callback
  (def r (window (string/replace-all "a" (fn [m] (churn 1) (fresh-str m)) "banana")))
  (print r))

(defscenario peg-cmt-callback
  (def r (window (peg/match ~(some (cmt (capture 1) ,(fn [c] (churn 1) (fresh c)))) "abcd")))
  (each x r (print x)))

(defscenario peg-extra-args-after-callback
  # extra arguments of peg/match are read by (argument n) AFTER a callback that calls back into the interpreter (the
  # fiber stack they were passed on may have moved meanwhile), also through peg/replace-all's function form
  (defn deep [k] (if (= k 0) (do (churn 1) 0) (+ 1 (deep (- k 1)))))
  (def g ~(* (cmt (capture 1) ,(fn [c] (deep 40) (fresh c))) (argument 0) (argument 1)
            (replace (capture 1) ,(fn [c] (deep 40) (string c "!"))) (argument 1)))
  (def r (window (peg/match g "xy" 0 (fresh "arg0") (fresh-tab "arg1"))))
  (print (string/format "%j" r))
  (def r2 (window (peg/replace-all ~(* (capture "a") (argument 0)) (fn [whole c a] (deep 30) (string c a)) "aXa" 0 (fresh-str "ra"))))
  (print r2))

(defscenario deep-mark-spill
  # structure deeper than the recursive marking limit: spills to the root list
  (var x (fresh "dms"))
  (repeat 5000 (set x @[x]))
  (window (churn))
  (var y x)
  (while (array? y) (set y (y 0)))
  (print y))

(defscenario deep-mark-spill-tables
  (var x @{:v (fresh "dmst")})
  (repeat 3000 (set x @{:next x}))
  (window (churn))
  (var y x)
  (while (y :next) (set y (y :next)))
  (print (y :v)))

# ---------------------------------------------------------------- event loop roots
(defscenario ev-run-queue-fiber
  (def out @[])
  (ev/go (fn [v] (array/push out v)) (fresh "erq"))
  (window (churn))
  (ev/sleep 0)
  (print (out 0)))

(defscenario ev-run-queue-value
  (def fib (ev/go (fn [] (def x (yield)) (print x))))
  (ev/sleep 0)
  (ev/go fib (fresh "erv"))
  (window (churn))
  (ev/sleep 0))

(defscenario ev-timer-fiber
  (ev/go (fn [] (def v (fresh "etf")) (ev/sleep 0.01) (print v)))
  (ev/sleep 0)
  (window (churn))
  (ev/sleep 0.02))

(defscenario ev-deadline-fibers
  (def r (try (ev/with-deadline 0.01 (def v (fresh "edf")) (ev/sleep 1) (print v)) ([e] e)))
  (window (churn))
  (print r))

(defscenario channel-queued-item
  (def c (ev/chan 4))
  (ev/give c (fresh "cqi"))
  (window (churn))
  (print (ev/take c)))

(defscenario channel-wrapped-ring
  # items in every position of a wrapped ring buffer, each reachable only through the channel
  (def chans @[])
  (for k 0 10
    (def c (ev/chan 32))
    (repeat k (ev/give c :rot) (ev/take c))          # rotate head/tail by k
    (for i 0 3 (ev/give c (fresh (string k "-" i))))
    (array/push chans c))
  (def big (ev/chan 64))
  (repeat 5 (ev/give big :rot) (ev/take big))
  (for i 0 9 (ev/give big (fresh-str (string "big-" i))))   # forces a resize of a wrapped ring
  (window (churn))
  (each c chans (while (> (ev/count c) 0) (print (ev/take c))))
  (while (> (ev/count big) 0) (print (ev/take big))))

(defscenario env-on-stack-ev-parked
  # a task parked in the event loop (not finished!) whose closure environment is still on its stack
  (def out @[])
  (ev/go (fn []
           (var counter 0)
           (def bump (fn [] (++ counter)))
           (bump)
           (ev/sleep 0.01)
           (++ counter)
           (bump)
           (array/push out counter (bump) counter)))
  (def c (ev/chan))
  (ev/go (fn []
           (var acc @"")
           (def add (fn [x] (buffer/push acc x)))
           (add "a")
           (def v (ev/take c))
           (buffer/push acc "b")
           (add v)
           (array/push out (string acc))))
  (ev/sleep 0)
  (window (churn))
  (ev/give c "c")
  (ev/sleep 0.02)
  (print (string/format "%j" out)))

(defscenario channel-pending-writer
  (def c (ev/chan 0))
  (ev/go (fn [] (ev/give c (fresh "cpw")) (print "writer resumed")))
  (ev/sleep 0)
  (window (churn))
  (print (ev/take c))
  (ev/sleep 0))

(defscenario channel-pending-reader
  (def c (ev/chan 0))
  (ev/go (fn [] (def tag (fresh "cpr")) (def v (ev/take c)) (print tag v)))
  (ev/sleep 0)
  (window (churn))
  (ev/give c (fresh "given"))
  (ev/sleep 0))

(defscenario channel-only-ref-from-fiber
  # the channel itself is only reachable from a blocked fiber
  (def holder (do (def c (ev/chan 0)) (ev/go (fn [] (print (ev/take c)))) (fn [v] (ev/give c v))))
  (ev/sleep 0)
  (window (churn))
  (holder (fresh "corf"))
  (ev/sleep 0))

(defscenario supervisor-channel
  (def sup (ev/chan 2))
  (ev/go (fn [] (def v (fresh "sup")) (ev/sleep 0) (error v)) nil sup)
  (ev/sleep 0)
  (window (churn))
  (def [sig fib] (ev/take sup))
  (print sig (fiber/last-value fib)))

(defscenario stream-pending-read-buffer
  (def [r w] (os/pipe))
  (def buf (fresh "sprb"))
  (ev/go (fn [] (ev/read r 10 buf) (print buf)))
  (ev/sleep 0)
  (window (churn))
  (ev/write w "-data")
  (ev/sleep 0)
  (ev/close r) (ev/close w))

(defscenario stream-pending-write-source
  (def [r w] (os/pipe))
  (ev/go (fn [] (ev/write w (buffer (fresh "spws") (string/repeat "w" 200000))) (ev/close w)))
  (ev/sleep 0)
  (window (churn))
  (def got @"")
  (while (def b (ev/read r 65536)) (buffer/push got b))
  (print (length got) (string/slice got 0 40)))

(defscenario stream-reader-and-writer-pending
  # one stream object with a parked reader AND a blocked writer; the stream is the only path to both fibers
  (def path (string "/tmp/c01-duplex-" (os/getpid) ".sock"))
  (def srv (net/listen :unix path))
  (def peer-chan (ev/chan 1))
  (ev/go (fn [] (ev/give peer-chan (net/accept srv))))
  (def out @[])
  (do
    (def cli (net/connect :unix path))
    (ev/go (fn [] (def tag (fresh "rdr")) (def b (ev/read cli 64)) (array/push out (string tag ":" b))))
    (ev/go (fn [] (def data (buffer (fresh "wtr") (string/repeat "w" 2000000)))
             (ev/write cli data) (array/push out (string "written:" (length data)))))
    nil)
  (def peer (ev/take peer-chan))
  (os/rm path)
  (ev/sleep 0)
  (window (churn))
  (var total 0)
  (var head nil)
  (while (< total 2000036)
    (def b (ev/read peer 65536))
    (if (nil? b) (break))
    (when (nil? head) (set head (string/slice b 0 36)))
    (+= total (length b)))
  (ev/write peer "reply")
  (ev/sleep 0.01)
  (ev/close peer) (ev/close srv)
  (ev/sleep 0.01)
  (print total " " head " " (string/format "%j" (sorted out))))

(defscenario stream-read-in-try-no-buffer
  # the result buffer of a pending read is allocated by the read itself and referenced only from the operation's state;
  # the reading call sits inside a nested fiber (try), so the task's root fiber has a child while it waits
  (def [r w] (os/pipe))
  (def out @[])
  (ev/go (fn [] (array/push out (try (ev/read r 40) ([e] [:err e])))
           (array/push out (try (ev/chunk r 20) ([e] [:err e])))))
  (ev/sleep 0)
  (window (churn))
  (ev/write w (string/repeat "A" 25))
  (ev/sleep 0)
  (window (churn))
  (ev/write w (string/repeat "B" 35))
  (ev/sleep 0)
  (ev/close w)
  (ev/sleep 0)
  (print (string/format "%j" out))
  (ev/close r))

(defscenario compile-missing-symbol-handler
  # the :missing-symbol handler runs Janet code (and collections) in the middle of a compilation
  (def env (make-env))
  (put env :missing-symbol (fn [sym] (churn 1) @{:value (fresh-str (string sym))}))
  (def r (window (compile '(tuple unknown-one (string unknown-two "!") [unknown-three unknown-one]) env)))
  (print (string/format "%j" (if (function? r) (r) r))))

(defscenario stream-only-ref-from-fiber
  (def wr (do (def [r w] (os/pipe)) (ev/go (fn [] (print (ev/read r 16)) (ev/close r))) w))
  (ev/sleep 0)
  (window (churn))
  (ev/write wr "through-the-pipe")
  (ev/sleep 0)
  (ev/close wr))

(defscenario thread-result-marshalled
  (def r (window (ev/thread (fn [&] (string "thread-" (string/repeat "t" 30))))))
  (churn)
  (print (type r)))

(defscenario thread-channel-item
  (def tc (ev/thread-chan 2))
  (ev/give tc @{:payload (fresh-str "tci")})
  (window (churn))
  (print ((ev/take tc) :payload)))

# ---------------------------------------------------------------- abstract types with gcmark
(defscenario parser-pending-values
  (def p (parser/new))
  (parser/consume p (string "(" (fresh-str "ppv") " \"" (fresh-str "inside") "\" @[1 2"))
  (window (churn))
  (parser/consume p "])")
  (print (string/format "%j" (parser/produce p))))

(defscenario parser-error-string
  (def p (parser/new))
  (parser/consume p ")")
  (window (churn))
  (print (parser/error p)))

(defscenario parser-eof-error-string
  # the "unexpected end of source" message is generated by the parser and owned only by it
  (def p (parser/new))
  (parser/consume p "(abc [1 2 ")
  (parser/eof p)
  (window (churn))
  (print (parser/status p) " " (parser/error p)))

(defscenario parser-clone-pending
  (def p (parser/new))
  (parser/consume p (string "(" (fresh-str "pcp") " @{:k \"v"))
  (def q (parser/clone p))
  (window (churn))
  (parser/consume q "\"})")
  (print (string/format "%j" (parser/produce q))))

(defscenario peg-constants
  (def pg (peg/compile ~(* (constant ,(fresh-str "pgc")) (replace (capture "a") ,(fresh-tab "pgr")))))
  (window (churn))
  (print (string/format "%j" (peg/match pg "a"))))

(defscenario process-pipes
  (def p (os/spawn ["/bin/echo" "from-child"] :p {:out :pipe}))
  (window (churn))
  (print (ev/read (p :out) 100))
  (os/proc-wait p))

(defscenario process-all-pipes
  # the three stream objects are reachable only through the process object
  (def p (os/spawn ["/bin/sh" "-c" "read x; echo out-$x; echo err-$x >&2"] :p {:in :pipe :out :pipe :err :pipe}))
  (window (churn))
  (ev/write (p :in) "line\n")
  (ev/close (p :in))
  (def o (ev/read (p :out) 100))
  (def e (ev/read (p :err) 100))
  (print o e (os/proc-wait p)))

(defscenario process-err-pipe-only
  (def p (os/spawn ["/bin/sh" "-c" "echo only-err >&2"] :p {:err :pipe}))
  (window (churn))
  (print (ev/read (p :err) 100) (os/proc-wait p)))

(defscenario operator-methods
  # every polymorphic opcode with a table operand whose method is a Janet function: the call pushes a frame (the stack
  # is relocated in the JANET_DEBUG build), so the interpreter must reload its stack pointer before storing the result
  (defn mk [tag]
    (def m @{})
    (each name ["+" "-" "*" "/" "%" "mod" "div" "&" "|" "^" "r&" "r|" "r^" "<<" ">>" ">>>" "r+" "r-" "r*" "r/" "r%" "rmod" "rdiv"
                "rband" "rbor" "rbxor" "r<<" "r>>" "r>>>" "~"]
      (def k (keyword name))
      (put m k (fn [& args] (churn 1) (string tag "-" k "-" (length args)))))
    (put m :compare (fn [a b] (churn 1) 0))
    m)
  (def m (mk "m"))
  (def out @[])
  (window
    (defn go [x y]
      (array/push out (+ x y)) (array/push out (- x y)) (array/push out (* x y)) (array/push out (/ x y))
      (array/push out (% x y)) (array/push out (mod x y)) (array/push out (div x y))
      (array/push out (band x y)) (array/push out (bor x y)) (array/push out (bxor x y))
      (array/push out (blshift x y)) (array/push out (brshift x y)) (array/push out (brushift x y))
      (array/push out (< x y)) (array/push out (<= x y)) (array/push out (> x y)) (array/push out (>= x y)))
    (go m 3) (go 3 m) (go m m)
    # immediate forms
    (array/push out (+ m 1)) (array/push out (- m 1)) (array/push out (* m 2)) (array/push out (/ m 2))
    (array/push out (blshift m 1)) (array/push out (brshift m 1)) (array/push out (brushift m 1))
    (array/push out (< m 1)) (array/push out (> m 1))
    (array/push out (bnot m))
    (var acc 0)
    (def r (% m 7)) (set acc (string r "!")) (array/push out acc))
  (print (string/format "%j" out)))

(defscenario int64-boxed
  (def a (int/s64 "9007199254740993"))
  (def t @{:v (int/u64 "18446744073709551615")})
  (window (churn))
  (print a " " (t :v)))

(defscenario abstract-rng-file
  (def r (math/rng 42))
  (def f (file/temp))
  (file/write f (fresh-str "arf"))
  (window (churn))
  (file/seek f :set 0)
  (print (file/read f :all) (math/rng-int r 1000))
  (file/close f))

# ---------------------------------------------------------------- symbols, strings, interning
(defscenario symbol-recycle
  # interned symbols are dropped and recreated around collections
  (def keep (symbol "kept-symbol-" 123456))
  (repeat 200 (symbol "temp-symbol-" (math/floor (* 1000 (math/random)))))
  (window (churn 6))
  (print (= keep (symbol "kept-symbol-" 123456)) (length (string keep)))
  (def t @{})
  (for i 0 100 (put t (keyword "k" i) i))
  (churn)
  (var sum 0)
  (for i 0 100 (+= sum (t (keyword "k" i))))
  (print sum))

(defscenario explicit-root
  # core env and registry stay alive; gcroot through an abstract registry lookup
  (window (churn 6))
  (print (type (root-env 'print)) (length (string/format "%j" (map inc [1 2 3])))))

(defscenario marshal-roundtrip
  (def v @{:a (fresh "mr") :f (do (var c 0) (fn [] (++ c)))})
  (def u (window (def m (marshal v make-image-dict)) (churn) (unmarshal m load-image-dict)))
  (print (u :a) ((u :f)) ((u :f))))

(defscenario compile-during-gc
  (def f (window (eval '(fn [x] (let [y (string x "!")] (fn [] [y x :const "str" 'sym]))))))
  (churn)
  (print (string/format "%j" ((f "arg")))))

(defscenario weak-free-mix
  # ordinary tables next to weak ones: the ordinary content must be untouched
  (def strong @{:k (fresh "wfm")})
  (def weak (table/weak-values 4))
  (put weak :gone (fresh "temp"))
  (window (churn))
  (print (strong :k)))

(defn main [_ &opt name]
  (if (or (nil? name) (= name "list"))
    (each k (sort (keys scenarios)) (print k))
    (do
      (def f (get scenarios (keyword name)))
      (unless f (errorf "unknown scenario %s" name))
      (f)
      (os/exit 0))))
