#!/usr/bin/env python3
"""C01 - garbage collection is transparent and never frees a reachable object.

Deviation-bounded exploration of the collection schedule (K5) on the real
interpreter built with AddressSanitizer, with and without JANET_DEBUG (fiber
stack reallocated at every frame push). The GC decision at every interpreter
safepoint is taken by the harness (hook in vm.c under JANET_VERIF):

  reference : never collect (records the output and numbers the safepoints)
  always    : collect at every safepoint
  single i  : exactly one collection, at safepoint i - for EVERY i inside the scenario's
              marked window and every k-th outside it
  pair i<j  : two collections (all pairs inside small windows)
  periodic  : period p = 2..8, every phase

Programs: one targeted scenario per kind of heap edge and per root
(props/C01/scenarios.janet) plus drivers of other properties (channel/timer/stream
histories) re-run under forced schedules. Oracle: stdout, stderr and exit status
byte-identical to the reference and no sanitizer report.
"""
import itertools
import os
import re
import shutil
import sys

HERE = os.path.dirname(os.path.abspath(__file__))
sys.path.insert(0, os.path.join(HERE, "..", "..", "engine", "mc"))
from core import *  # noqa
HERE = os.path.dirname(os.path.abspath(__file__))

SCEN = os.path.join(HERE, "scenarios.janet")


_SPLIT = None


def _split():
    """scenarios.janet -> (header, {name: source}); each scenario is compiled on its own so that a
    run costs tens of milliseconds and the window is a large part of the safepoints"""
    global _SPLIT
    if _SPLIT is None:
        text = open(SCEN).read()
        head, *rest = text.split("\n(defscenario ")
        parts = {}
        for chunk in rest:
            name = chunk.split()[0]
            body = "(defscenario " + chunk
            if "\n(defn main" in body:
                body = body[:body.index("\n(defn main")]
            parts[name] = body
        _SPLIT = (head, parts)
    return _SPLIT


def list_scenarios():
    return sorted(_split()[1])


def scenario_file(name, tmpdir):
    path = os.path.join(tmpdir, "sc-%s.janet" % name)
    if not os.path.exists(path):
        head, parts = _split()
        with open(path + ".tmp", "w") as f:
            f.write(head + "\n" + parts[name] + "\n((scenarios :%s))\n(os/exit 0)\n" % name)
        os.rename(path + ".tmp", path)
    return path


def run_sched(variant, name, spec, tmpdir, tag):
    log = os.path.join(tmpdir, "gc-%s-%s.log" % (name, tag))
    r = run(vjanet(variant), [scenario_file(name, tmpdir)],
            env={"VERIF_GC": spec, "VERIF_VTIME": "1", "VERIF_GC_LOG": log}, timeout=120)
    info = None
    try:
        with open(log) as f:
            parts = f.read().split()
            info = tuple(int(x) for x in parts)
        os.unlink(log)
    except (FileNotFoundError, ValueError):
        pass
    return r, info


def sanitizer_report(r):
    e = r.err.decode(errors="replace")
    m = re.search(r"ERROR: AddressSanitizer: ([a-z-]+)", e)
    if m:
        where = re.findall(r"#\d+ 0x[0-9a-f]+ in (\w+)", e)
        return m.group(1), (where[0] if where else "?"), e[-1500:]
    return None


def norm_err(b):
    # stack traces print addresses of anonymous functions; they are stable with ASLR off, keep text
    return b


def judge(chk, variant, name, spec, ref, r, tmpdir):
    """compare one run with the reference; returns True if it deviates"""
    rep = sanitizer_report(r)
    head, parts = _split()
    replay = ("# VERIF_GC=%s VERIF_VTIME=1 <vjanet %s> <this file>\n" % (spec, variant) + head + "\n" + parts[name] +
              "\n((scenarios :%s))\n(os/exit 0)\n" % name)
    kind = spec.split(":")[0]
    if rep:
        chk.violation("asan:%s:%s:%s" % (rep[0], rep[1], name),
                      "scenario %s under schedule %s (%s): AddressSanitizer %s in %s\n%s" % (name, spec, variant, rep[0], rep[1], rep[2]),
                      replay)
        return True
    if r.timed_out:
        chk.violation("hang:%s" % name, "scenario %s under schedule %s (%s) did not finish" % (name, spec, variant), replay)
        return True
    if r.rc != ref.rc or r.out != ref.out or norm_err(r.err) != norm_err(ref.err):
        what = "exit" if r.rc != ref.rc else ("stdout" if r.out != ref.out else "stderr")
        chk.violation("output-differs:%s:%s" % (name, "crash" if r.crashed else what),
                      "scenario %s under schedule %s (%s): %s differs from the never-collect reference\n reference rc=%d out=%r err=%r\n observed  rc=%d out=%r err=%r" % (
                          name, spec, variant, what, ref.rc, ref.out[-300:], ref.err[-300:], r.rc, r.out[-300:], r.err[-300:]),
                      replay)
        return True
    return False


def explore_scenario(chk, variant, name, tmpdir, outside_step, pair_cap, window_cap, periods=range(2, 9), singles=True):
    ref, info = run_sched(variant, name, "never", tmpdir, "ref")
    if ref.crashed or ref.timed_out or info is None:
        rep = sanitizer_report(ref)
        chk.violation("reference-run-failed:%s" % name, "scenario %s (%s) fails even without collections: %s %s" % (
            name, variant, ref.describe(), rep), "# VERIF_GC=never %s %s\n" % (SCEN, name), replay_ext=".txt")
        return
    n, wa, wb, _forced = info
    if wa < 0 or wb < wa:
        raise HarnessError("scenario %s did not mark its window (info=%r)" % (name, info))
    if ref.rc != 0 or not ref.out:
        raise HarnessError("scenario %s reference run is not clean: %s out=%r" % (name, ref.describe(), ref.out))
    specs = ["always"]
    inside = list(range(wa, wb))
    if len(inside) > window_cap:
        # keep both ends dense, thin the middle
        keep = set(inside[:window_cap // 2]) | set(inside[-window_cap // 2:])
        inside = sorted(keep)
        chk.part("window-thinned", **{name: wb - wa})
    outside = [i for i in range(0, n, outside_step) if i < wa or i >= wb]
    if singles:
        specs += ["at:%d" % i for i in inside]
        specs += ["at:%d" % i for i in outside]
    else:
        inside, outside = [], []
    if len(inside) <= pair_cap:
        specs += ["at:%d,%d" % (i, j) for i, j in itertools.combinations(inside, 2)]
    for p in periods:
        specs += ["period:%d:%d" % (p, ph) for ph in range(p)]
    results = pmap(lambda s: run_sched(variant, name, s, tmpdir, s.replace(":", "_").replace(",", "-")), specs)
    ndev = 0
    for s, (r, inf) in zip(specs, results):
        chk.add(evaluations=1, transitions=1)
        if judge(chk, variant, name, s, ref, r, tmpdir):
            ndev += 1
        elif inf and inf[3] > 0:
            chk.outcome((name, s.split(":")[0], inf[3] > 1))
    chk.add(states=len(inside) + len(outside))
    chk.part("%s/%s" % (variant, name), safepoints=n, window=wb - wa, schedules=len(specs), deviating=ndev)


def reuse_drivers(chk, variant):
    """generated programs: director histories of C06/C07 and I/O scenarios of C16 replayed under
    forced collection schedules; the canonical observation trace must not change."""
    sys.path.insert(0, os.path.join(HERE, "..", "C06"))
    sys.path.insert(0, os.path.join(HERE, "..", "C07"))
    import importlib
    c06 = importlib.import_module("check") if False else None
    import importlib.util

    def load(path, modname):
        spec = importlib.util.spec_from_file_location(modname, path)
        m = importlib.util.module_from_spec(spec)
        spec.loader.exec_module(m)
        return m
    c06 = load(os.path.join(HERE, "..", "C06", "check.py"), "c06check")
    c07 = load(os.path.join(HERE, "..", "C07", "check.py"), "c07check")
    sets = []
    # C06: all histories of depth <= 3 (quick) over one config
    from chanmodel import Model
    acts = c06.make_actions(2, lambda m: m.depth, True, True)

    def histories(init, actions_fn, stepper, depth):
        out = []
        frontier = [([], init)]
        for d in range(depth):
            nxt = []
            for h, m in frontier:
                for a in actions_fn(m):
                    try:
                        m2 = stepper(m, a)
                    except Exception:
                        continue
                    nxt.append((h + [a], m2))
            out += [h for h, _ in nxt]
            frontier = nxt
        return out

    def step06(m, a):
        comps, m2 = m.step(a[0], a[1])[0]
        m2.depth = m.depth + 1
        return m2
    m0 = Model((0, 1), 3)
    m0.depth = 0
    h06 = histories(m0, acts, step06, 2 if chk.quick else 3)
    items06 = [c06.item_for((0, 1), 3, h) for h in h06]
    sets.append(("C06-histories", os.path.join(HERE, "..", "C06", "driver.janet"), items06))
    cfg = dict(caps=(0,), nw=2, npipes=1)
    t0 = c07.TModel(cfg["caps"], cfg["nw"], 1)
    a07 = c07.make_actions(cfg)

    def step07(m, a):
        if a[0] == "start":
            return m.step_op(a[1], a[2])[1]
        if a[0] == "cancel":
            return m.cancel(a[1], a[2])[1]
        return m.tick(a[1])[1]
    h07 = histories(t0, a07, step07, 2 if chk.quick else 3)
    items07 = [c07.item_for(cfg, h) for h in h07]
    sets.append(("C07-histories", os.path.join(HERE, "..", "C07", "driver.janet"), items07))
    for label, drv, items in sets:
        ref = run_batch(variant, drv, items, env={"VERIF_VTIME": "1", "VERIF_GC": "never"}, chunk=200, timeout=600)
        for spec in (["always", "period:3:1", "period:7:2"] if chk.quick else ["always"] + ["period:%d:%d" % (p, ph) for p in (2, 3, 5, 7) for ph in range(p)]):
            if spec != "always" and chk.out_of_time(1.0):
                chk.cap("reuse/%s: schedule %s not run (time budget)" % (label, spec))
                continue
            got = run_batch(variant, drv, items, env={"VERIF_VTIME": "1", "VERIF_GC": spec}, chunk=200, timeout=900)
            for it, a, b in zip(items, ref, got):
                chk.add(evaluations=1, transitions=1)
                if a != b:
                    kind = "crash" if b[0] in ("CRASH", "TIMEOUT") else "trace-differs"
                    chk.violation("reuse:%s:%s" % (label, kind),
                                  "%s item %s under schedule %s (%s): reference %r, observed %r" % (label, it[:300], spec, variant, a[1][:300], b[1][:600]),
                                  "# VERIF_GC=%s VERIF_VTIME=1 <vjanet %s> %s items.jdn out.txt\n%s\n" % (spec, variant, drv, it), replay_ext=".txt")
        chk.part("reuse/%s/%s" % (variant, label), items=len(items))


def main():
    chk = Check("C01")
    chk.rule("for every targeted scenario (one per heap edge / root kind) and every schedule in {always; one collection at "
             "safepoint i for every i in the scenario window and every k-th outside; all pairs inside small windows; all "
             "periodic schedules p=2..8 x phase}: run the real interpreter (ASan; with and without JANET_DEBUG stack "
             "relocation) and require output identical to the never-collect reference and no sanitizer report. Distinct "
             "non-trivial = distinct (scenario, schedule family) runs in which the hook really forced a collection.")
    chk.assume("AddressSanitizer quarantine makes reuse of freed blocks visible; scenarios do not observe the collector; "
               "safepoint numbering is stable because ASLR is off and the reference run never collects")
    tmpdir = mktmp()
    try:
        names = list_scenarios()
        only = chk.args.only
        if only and only not in ("reuse",):
            names = [n for n in names if n == only]
        chk.sample({"scenarios": names[:8], "total": len(names)})
        if chk.quick:
            plan = [("asan_dbg", 64, 0, 90, (2, 3, 5), True), ("asan", 64, 0, 0, (2, 7), False)]
        else:
            plan = [("asan_dbg", 1, 40, 4000, range(2, 9), True), ("asan", 2, 30, 4000, range(2, 9), True)]
        if only != "reuse":
            for variant, outside_step, pair_cap, window_cap, periods, singles in plan:
                for name in names:
                    if chk.out_of_time(0.8):
                        chk.cap("scenario %s/%s not run (time budget)" % (variant, name))
                        continue
                    explore_scenario(chk, variant, name, tmpdir, outside_step, pair_cap, window_cap, periods, singles)
        if not only or only == "reuse":
            if not chk.out_of_time(0.85):
                reuse_drivers(chk, "asan_dbg")
            else:
                chk.cap("driver reuse not run (time budget)")
        chk.cov["bound_completed"] = "single deviations: every safepoint inside each window; pairs for windows <= cap; periodic 2..8"
    finally:
        shutil.rmtree(tmpdir, ignore_errors=True)
    chk.finish()


if __name__ == "__main__":
    harness_guard(main)
