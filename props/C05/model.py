"""C05 reference model: a small interpreter of Janet's fiber / signal protocol.

A *program* is a tree of named fibers ("nodes"); node 0 is the top fiber created by the
harness with mask :a, every other node is created by a `new` statement.  Bodies are
statement lists over the algebra documented in NOTES.md.  `render(prog)` gives the Janet
source text, `run(prog)` the predicted event log (same canonical text as driver.janet
prints).  The model is written from the docstrings of fiber/new, resume, signal,
propagate, cancel, fiber/status, yield, error, defer, edefer, with, try, protect, prompt,
with-dyns, dyn, setdyn; where those are silent it follows src/core/vm.c (conventions are
listed in NOTES.md).

stdlib only; no dependency on the engine.
"""

# ------------------------------------------------------------------ signals / statuses

OK, ERROR, DEBUG, YIELD = 0, 1, 2, 3
U0 = 4
STAT = ["dead", "error", "debug", "pending", "user0", "user1", "user2", "user3", "user4",
        "user5", "user6", "user7", "interrupted", "suspended"]
SIGNAME = ["ok", "error", "debug", "yield", "user0", "user1", "user2", "user3", "user4",
           "user5", "user6", "user7", "interrupt", "await"]
NEW, ALIVE = "new", "alive"
# signals after which a fiber can never be resumed
TERMSIG = frozenset([OK, ERROR, U0, U0 + 1, U0 + 2, U0 + 3, U0 + 4])
NONRESUMABLE = frozenset([ALIVE, "dead", "error", "user0", "user1", "user2", "user3", "user4"])
TERMINAL = frozenset(["dead", "error", "user0", "user1", "user2", "user3", "user4"])
SIG_OF_STATUS = dict((s, i) for i, s in enumerate(STAT))
ALLSIGS = frozenset(range(1, 14))


class Kw(str):
    __slots__ = ()


class _E(object):
    """a string produced by the runtime (error message); never compared by content"""
    __slots__ = ()

    def __repr__(self):
        return "E"


E = _E()


class JErr(Exception):
    def __init__(self, v):
        Exception.__init__(self)
        self.v = v


class Unspecified(Exception):
    """the program reaches behaviour the model refuses to predict (see NOTES.md)"""

    def __init__(self, why):
        Exception.__init__(self, why)
        self.why = why


_MASK_CACHE = {}


def parse_mask(m):
    """mask keyword text -> (frozenset of caught signals, env mode None|'i'|'p')"""
    r = _MASK_CACHE.get(m)
    if r is not None:
        return r
    if m is None:
        r = (frozenset([YIELD]), None)       # (fiber/new f): default mask :y
    else:
        sigs, mode = set(), None
        for c in m:
            if c.isdigit():
                sigs.add(U0 + int(c))
            elif c == "a":
                sigs |= ALLSIGS
            elif c == "t":
                sigs |= set([ERROR, U0, U0 + 1, U0 + 2, U0 + 3, U0 + 4])
            elif c == "d":
                sigs.add(DEBUG)
            elif c == "e":
                sigs.add(ERROR)
            elif c == "u":
                sigs |= set(range(U0, U0 + 10))
            elif c == "y":
                sigs.add(YIELD)
            elif c == "w":
                sigs.add(U0 + 9)
            elif c == "r":
                sigs.add(U0 + 8)
            elif c in "ip":
                mode = c
            else:
                raise ValueError("mask flag %r" % c)
        r = (frozenset(sigs), mode)
    _MASK_CACHE[m] = r
    return r


class Env(object):
    __slots__ = ("d", "proto")

    def __init__(self, proto=None):
        self.d = {}
        self.proto = proto

    def get(self, k):
        e = self
        while e is not None:
            if k in e.d:
                return e.d[k]
            e = e.proto
        return None


class Fiber(object):
    __slots__ = ("name", "mask", "env", "status", "child", "last", "gen", "body", "fnsig",
                 "resume_sig", "at_next", "cdepth", "startid", "wrap", "epoch")

    def __init__(self, name, mask, body, fnsig, startid, wrap=None):
        self.name = name
        self.mask = mask
        self.env = None
        self.status = NEW
        self.child = None
        self.last = None
        self.gen = None
        self.body = body
        self.fnsig = fnsig
        self.resume_sig = None
        self.at_next = False
        self.cdepth = 0
        self.startid = startid
        self.wrap = wrap
        self.epoch = 0

    def __repr__(self):
        return "F"


# ------------------------------------------------------------------ rendering of values

def rv(x):
    if x is None:
        return "nil"
    if x is True:
        return "true"
    if x is False:
        return "false"
    if isinstance(x, Kw):
        return ":" + x
    if isinstance(x, int):
        return str(x)
    if isinstance(x, tuple):
        return "(" + " ".join([rv(v) for v in x]) + ")"
    if x is E:
        return "E"
    if isinstance(x, Fiber):
        return "F"
    raise TypeError("rv: %r" % (x,))


# ------------------------------------------------------------------ the machine

class VM(object):
    def __init__(self, prog):
        self.prog = prog
        self.nodes = prog["nodes"]
        self.fib = [None] * len(self.nodes)
        self.log = []
        self.features = set()
        self.wv = 0            # the variable rebound by with-vars
        self.wv_used = False

    # -- resume eligibility (docstring of resume / fiber/status; vm.c janet_check_can_resume)
    def cont(self, f, v):
        if f.status in NONRESUMABLE:
            return ERROR, E
        return self.cont_nc(f, v)

    def cont_signal(self, f, v, sig):
        if f.status in NONRESUMABLE:
            return ERROR, E
        seen = set()
        c = f
        while c.child is not None:
            if id(c) in seen:
                # the chain of suspended children loops back through the running fiber:
                # the stock interpreter spins for ever (finding, see NOTES.md)
                raise Unspecified("cancel-cyclic-child-chain")
            seen.add(id(c))
            c = c.child
        c.resume_sig = sig
        return self.cont_nc(f, v)

    def cont_nc(self, f, v):
        old = f.status
        f.last = None
        f.epoch += 1
        epoch = f.epoch
        if f.child is not None:
            ch = f.child
            # f is running on behalf of its child from here on: ":alive - the fiber is currently
            # running and cannot be resumed" (a descendant that tries gets an error)
            f.status = ALIVE
            sig, val = self.cont(ch, v)
            if f.epoch != epoch:
                # safety net: f was continued re-entrantly while its child chain was being continued
                raise Unspecified("reentrant-resume-of-chain-ancestor")
            if sig != OK and sig not in ch.mask:
                f.status = STAT[sig]
                f.last = ch.last
                self.features.add("pass-through-again")
                return sig, val
            if f.at_next:
                val = None if sig in TERMSIG else 0
            f.child = None
            v = val
        if f.resume_sig is not None:
            sig = f.resume_sig
            f.resume_sig = None
            f.status = STAT[sig]
            f.last = v
            return sig, v
        f.status = ALIVE
        try:
            if f.gen is None:
                f.gen = self.start(f, v if old == NEW else None)
                out = next(f.gen)
            else:
                out = f.gen.send(v)
            sig, val = out
        except StopIteration as e:
            sig, val = OK, e.value
        except JErr as e:
            sig, val = ERROR, e.v
        f.status = STAT[sig]
        f.last = val
        return sig, val

    # -- body start: the first resume value is the argument of the fiber function
    def start(self, f, v):
        sg = f.fnsig
        if sg == "x" or sg == "opt":
            arg = v
        elif sg == "var":
            arg = () if v is None else (v,)
        else:
            arg = None
        if f.startid is not None:
            self.log.append((f.startid, arg))
        r = yield from self.body(f, f.body)
        if f.wrap is not None:
            r = (f.wrap, r)
        return r

    def body(self, f, stmts):
        v = None
        for st in stmts:
            v = yield from self.ex(f, st)
        return v

    def L(self, i, v):
        self.log.append((i, v))
        return v

    # -- primitives
    def raise_sig(self, f, sig, payload):
        if sig == ERROR:
            raise JErr(payload)
        if f.cdepth:
            self.features.add("coerced-own-signal")
            raise JErr(E)
        r = yield (sig, payload)
        return r

    def uncaught(self, f, t, sig, val):
        """signal `sig` from child t was not caught by t's mask: the current fiber f takes the
        same signal (child stays attached).  Inside a C callback it is coerced to an error."""
        if f.cdepth:
            if sig == ERROR:
                raise JErr(val)
            self.features.add("coerced-child-signal")
            raise JErr(E)
        if sig == ERROR:
            raise JErr(val)
        self.features.add("pass-through")
        r = yield (sig, val)
        return r

    def op_resume(self, f, t, v, cancel):
        if not isinstance(t, Fiber):
            raise JErr(E)
        if t.status in NONRESUMABLE:
            self.features.add("resume-refused-" + t.status)
            raise JErr(E)
        if cancel:
            # a fiber that (transitively) waits on the current fiber cannot be cancelled from here
            seen = set()
            c = t.child
            while c is not None:
                if c is f:
                    self.features.add("cancel-refused-waiting-on-current")
                    raise JErr(E)
                if id(c) in seen:
                    raise Unspecified("cancel-cyclic-child-chain")
                seen.add(id(c))
                c = c.child
        f.child = t
        if cancel:
            sig, val = self.cont_signal(t, v, ERROR)
        else:
            sig, val = self.cont_nc(t, v)
        if sig != OK and sig not in t.mask:
            r = yield from self.uncaught(f, t, sig, val)
            return r
        f.child = None
        return val

    def op_propagate(self, f, x, t):
        if not isinstance(t, Fiber):
            raise JErr(E)
        if t.status == NEW or t.status == ALIVE or t.status == "dead":
            # "Propagate a signal from a fiber": a fiber that has not signalled has nothing to propagate
            self.features.add("propagate-refused-" + t.status)
            raise JErr(E)
        sig = SIG_OF_STATUS[t.status]
        f.child = t
        if sig == ERROR:
            raise JErr(x)
        if f.cdepth:
            self.features.add("coerced-propagate")
            raise JErr(E)
        r = yield (sig, x)
        return r

    def op_next(self, f, t):
        """(next fiber): resume it; 0 if it can be resumed again afterwards, else nil"""
        if not isinstance(t, Fiber):
            return None
        if t.status in NONRESUMABLE:
            return None
        f.child = t
        sig, val = self.cont_nc(t, None)
        if sig != OK and sig not in t.mask:
            if not f.cdepth and sig != ERROR:
                f.at_next = True
            try:
                r = yield from self.uncaught(f, t, sig, val)
            finally:
                f.at_next = False
            return r
        f.child = None
        return None if sig in TERMSIG else 0

    def new_fiber(self, creator, maskstr, body, fnsig, startid, name, wrap=None):
        mask, mode = parse_mask(maskstr)
        t = Fiber(name, mask, body, fnsig, startid, wrap)
        if mode is not None:
            if creator.env is None:
                creator.env = Env()
            t.env = creator.env if mode == "i" else Env(creator.env)
        return t

    def target(self, k):
        return self.fib[k]

    def each(self, f, t, fn):
        """(each x t ...) == next / in / next"""
        k = yield from self.op_next(f, t)
        while k is not None:
            x = t.last
            yield from fn(x)
            k = yield from self.op_next(f, t)

    # -- statements
    def ex(self, f, st):
        kind = st[0]
        i = st[1]
        if kind == "yield":
            r = yield from self.raise_sig(f, YIELD, i)
            return self.L(i, r)
        if kind == "error":
            raise JErr(i)
        if kind == "sig":
            n = st[2]
            sig = DEBUG if n == "debug" else U0 + n
            r = yield from self.raise_sig(f, sig, i)
            return self.L(i, r)
        if kind == "resume" or kind == "cancel":
            t = self.target(st[2])
            r = yield from self.op_resume(f, t, i, kind == "cancel")
            return self.L(i, (r, Kw(t.status)))
        if kind == "prop":
            t = self.target(st[2])
            r = yield from self.op_propagate(f, i, t)
            return self.L(i, r)
        if kind == "status":
            t = self.target(st[2])
            if t is None:
                raise JErr(E)
            return self.L(i, Kw(t.status))
        if kind == "lastv":
            t = self.target(st[2])
            if t is None:
                raise JErr(E)
            return self.L(i, t.last)
        if kind == "new":
            k = st[2]
            nd = self.nodes[k]
            t = self.new_fiber(f, nd["mask"], nd["body"], nd.get("sig", "x"), 100 + k, k)
            self.fib[k] = t
            return t
        if kind == "dyn":
            return self.L(i, f.env.get(st[2]) if f.env is not None else None)
        if kind == "setdyn":
            if f.env is None:
                f.env = Env()
            f.env.d[st[2]] = i
            return i
        if kind == "defer" or kind == "edefer" or kind == "with":
            body = [("in", i)] + list(st[2])
            d = self.new_fiber(f, "ti", body, "", None, "anon")
            r = yield from self.op_resume(f, d, None, False)
            if kind == "edefer":
                if d.status == "dead":
                    return self.L(i, r)
                self.log.append((i, Kw("c")))
                r = yield from self.op_propagate(f, r, d)
                return self.L(i, r)
            self.log.append((i, Kw("c")))
            if d.status == "dead":
                return self.L(i, r)
            r = yield from self.op_propagate(f, r, d)
            return self.L(i, r)
        if kind == "withvars":
            # (with-vars [wv i] ...): the body runs in a fiber with mask :ti; the old value is put back as soon as control
            # comes back from that fiber, whatever the way (return, error, user signal 0-4, or a signal passing through)
            self.wv_used = True
            old = self.wv
            self.wv = i
            body = [("in", i)] + list(st[2])
            d = self.new_fiber(f, "ti", body, "", None, "anon")
            r = yield from self.op_resume(f, d, None, False)
            self.wv = old
            if d.status == "dead":
                return self.L(i, r)
            r = yield from self.op_propagate(f, r, d)
            return self.L(i, r)
        if kind == "in":
            self.log.append((i, Kw("in")))
            return None
        if kind == "do":
            r = yield from self.body(f, st[2])
            return r
        if kind == "try":
            d = self.new_fiber(f, "ie", st[2], "", None, "anon")
            r = yield from self.op_resume(f, d, None, False)
            if d.status == "error":
                r = (Kw("caught"), r)
            return self.L(i, r)
        if kind == "protect":
            d = self.new_fiber(f, "ie", st[2], "", None, "anon")
            r = yield from self.op_resume(f, d, None, False)
            return self.L(i, (d.status != "error", r))
        if kind == "withdyns":
            body = [("setdyn", i, st[2]), ("do", i, list(st[3]))]
            d = self.new_fiber(f, "p", body, "", None, "anon")
            r = yield from self.op_resume(f, d, None, False)
            return self.L(i, r)
        if kind == "prompt":
            tag = Kw(st[2])
            d = self.new_fiber(f, "i0", st[3], "", None, "anon", wrap=tag)
            res = yield from self.op_resume(f, d, None, False)
            if not isinstance(res, tuple):
                raise JErr(E)      # destructuring a non-indexed payload
            target = res[0] if len(res) > 0 else None
            payload = res[1] if len(res) > 1 else None
            if target == tag and isinstance(target, Kw):
                return self.L(i, payload)
            r = yield from self.op_propagate(f, res, d)
            return self.L(i, r)
        if kind == "return":
            r = yield from self.raise_sig(f, U0, (Kw(st[2]), i))
            return r
        if kind == "each" or kind == "loopin":
            t = self.target(st[2])

            def fn(x):
                self.log.append((i, x))
                return
                yield
            yield from self.each(f, t, fn)
            return self.L(i, (Kw("end"), Kw(t.status) if t is not None else None))
        if kind == "geneach":
            t = self.target(st[2])
            g = self.new_fiber(f, "yi", [("eachyield", i, st[2])], "", None, "anon")

            def fn(x):
                self.log.append((i, x))
                return
                yield
            yield from self.each(f, g, fn)
            return self.L(i, (Kw("end"), Kw(t.status) if t is not None else None))
        if kind == "eachyield":
            t = self.target(st[2])

            def fn(x):
                yield from self.raise_sig(f, YIELD, (x,))
            yield from self.each(f, t, fn)
            return None
        if kind == "cfun":
            how = st[2]
            if how == "map":
                yield from self.body(f, st[3])
            else:
                f.cdepth += 1
                try:
                    yield from self.body(f, st[3])
                finally:
                    f.cdepth -= 1
            return self.L(i, Kw("cf"))
        raise ValueError("statement %r" % (st,))


TOP_RESUMES = 6


def run(prog):
    """-> (expected canonical text, features) ; raises Unspecified"""
    vm = VM(prog)
    nodes = prog["nodes"]
    top = Fiber(0, parse_mask("a")[0], nodes[0]["body"], "x", 100)
    vm.fib[0] = top
    n = 0
    limit = prog.get("top", TOP_RESUMES)
    while n < limit and top.status not in TERMINAL:
        sig, val = vm.cont(top, 200 + n)
        vm.log.append((200 + n, val, Kw(top.status)))
        n += 1
    fin = [Kw("fin")]
    for t in vm.fib:
        fin.append(None if t is None else (Kw(t.status), t.last))
    if "'withvars'" in repr(nodes):       # the program text reads the variable at the end whenever the form occurs in it
        fin.append(vm.wv)
    vm.log.append(tuple(fin))
    return rv(tuple(vm.log)), vm.features


# ------------------------------------------------------------------ numbering

COMPOUND_BODY_AT = {"defer": 1, "edefer": 1, "with": 1, "withvars": 1, "try": 1, "protect": 1,
                    "withdyns": 2, "prompt": 2, "cfun": 2}


def number(nodes, top=TOP_RESUMES):
    """nodes: list of dict(mask=, body=[stmt without id...], sig=) -> program with statement ids 1.."""
    counter = [0]

    def num_body(body):
        out = []
        for st in body:
            counter[0] += 1
            i = counter[0]
            kind = st[0]
            at = COMPOUND_BODY_AT.get(kind)
            if at is None:
                out.append((kind, i) + tuple(st[1:]))
            else:
                out.append((kind, i) + tuple(st[1:at]) + (num_body(st[at]),))
        return out
    res = []
    for nd in nodes:
        d = dict(nd)
        d["body"] = num_body(nd["body"])
        res.append(d)
    if counter[0] >= 100:
        raise ValueError("too many statements")
    return {"nodes": res, "top": top}


# ------------------------------------------------------------------ Janet source

PRELUDE = r'''
(def log @[])
(defn L [i v] (array/push log [i v]) v)
(defn C [i] (array/push log [i :c]))
(defn W [i] (array/push log [i :c]))
(defn RS [f r] [r (fiber/status f)])
(defn ES [f] [:end (if f (fiber/status f))])
(defn FS [f] (if f [(fiber/status f) (fiber/last-value f)]))
'''

FNSIG = {"x": "[x]", "opt": "[&opt x]", "var": "[& x]", "": "[]"}


def _mask_src(m):
    return "" if m is None else " :" + m


def _sig_src(n):
    return ":debug" if n == "debug" else str(n)


def r_body(stmts):
    if not stmts:
        return "nil"
    return " ".join([r_stmt(s) for s in stmts])


def r_stmt(st):
    kind, i = st[0], st[1]
    if kind == "yield":
        return "(L %d (yield %d))" % (i, i)
    if kind == "error":
        return "(error %d)" % i
    if kind == "sig":
        return "(L %d (signal %s %d))" % (i, _sig_src(st[2]), i)
    if kind == "resume":
        return "(L %d (RS f%d (resume f%d %d)))" % (i, st[2], st[2], i)
    if kind == "cancel":
        return "(L %d (RS f%d (cancel f%d %d)))" % (i, st[2], st[2], i)
    if kind == "prop":
        return "(L %d (propagate %d f%d))" % (i, i, st[2])
    if kind == "status":
        return "(L %d (fiber/status f%d))" % (i, st[2])
    if kind == "lastv":
        return "(L %d (fiber/last-value f%d))" % (i, st[2])
    if kind == "new":
        return "(set f%d %s)" % (st[2], "$NODE%d$" % st[2])
    if kind == "dyn":
        return "(L %d (dyn :%s))" % (i, st[2])
    if kind == "setdyn":
        return "(setdyn :%s %d)" % (st[2], i)
    if kind == "defer":
        return "(L %d (defer (C %d) (L %d :in) %s))" % (i, i, i, r_body(st[2]))
    if kind == "edefer":
        return "(L %d (edefer (C %d) (L %d :in) %s))" % (i, i, i, r_body(st[2]))
    if kind == "with":
        return "(L %d (with [r %d W] (L %d :in) %s))" % (i, i, i, r_body(st[2]))
    if kind == "withvars":
        return "(L %d (with-vars [wv %d] (L %d :in) %s))" % (i, i, i, r_body(st[2]))
    if kind == "try":
        return "(L %d (try (do %s) ([e] [:caught e])))" % (i, r_body(st[2]))
    if kind == "protect":
        return "(L %d (protect %s))" % (i, r_body(st[2]))
    if kind == "withdyns":
        return "(L %d (with-dyns [:%s %d] %s))" % (i, st[2], i, r_body(st[3]))
    if kind == "prompt":
        return "(L %d (prompt :%s %s))" % (i, st[2], r_body(st[3]))
    if kind == "return":
        return "(return :%s %d)" % (st[2], i)
    if kind == "each":
        return "(do (each x f%d (L %d x)) (L %d (ES f%d)))" % (st[2], i, i, st[2])
    if kind == "loopin":
        return "(do (loop [x :in f%d] (L %d x)) (L %d (ES f%d)))" % (st[2], i, i, st[2])
    if kind == "geneach":
        return "(do (each x (generate [y :in f%d] [y]) (L %d x)) (L %d (ES f%d)))" % (st[2], i, i, st[2])
    if kind == "cfun":
        how, b = st[2], r_body(st[3])
        if how == "map":
            call = "(map (fn [x] %s) [0])" % b
        elif how == "replace":
            call = '(string/replace "a" (fn [s] %s "b") "a")' % b
        elif how == "binop":
            call = "(+ @{:+ (fn [a b] %s 0)} 1)" % b
        elif how == "peg":
            call = '(peg/match ~(cmt 1 ,(fn [& a] %s true)) "a")' % b
        else:
            raise ValueError(how)
        return "(do %s (L %d :cf))" % (call, i)
    raise ValueError("statement %r" % (st,))


def render(prog):
    """program -> one-line Janet form (expects PRELUDE definitions in scope); value: the log"""
    nodes = prog["nodes"]
    srcs = {}

    def node_src(k):
        nd = nodes[k]
        sg = nd.get("sig", "x")
        arg = "x" if sg in ("x", "opt", "var") else "nil"
        s = "(fiber/new (fn %s (L %d %s) %s)%s)" % (FNSIG[sg], 100 + k, arg, r_body(nd["body"]), _mask_src(nd["mask"]))
        return s
    # children first (textual substitution of $NODEk$ placeholders, innermost last)
    text = "(fiber/new (fn [x] (L 100 x) %s) :a)" % r_body(nodes[0]["body"])
    for _ in range(len(nodes)):
        changed = False
        for k in range(1, len(nodes)):
            ph = "$NODE%d$" % k
            if ph in text:
                if k not in srcs:
                    srcs[k] = node_src(k)
                text = text.replace(ph, srcs[k])
                changed = True
        if not changed:
            break
    decl = " ".join(["(var f%d nil)" % k for k in range(1, len(nodes))])
    fin = " ".join(["(FS f%d)" % k for k in range(len(nodes))])
    if "(with-vars " in text:
        fin += " wv"
    return ("(do (array/clear log) (var wv 0) (var f0 nil) %s (set f0 %s) (var n 0) "
            "(while (and (< n %d) (fiber/can-resume? f0)) (def r (resume f0 (+ 200 n))) "
            "(array/push log [(+ 200 n) r (fiber/status f0)]) (++ n)) "
            "(array/push log [:fin %s]) log)") % (decl, text, prog.get("top", TOP_RESUMES), fin)


def standalone(prog, expected=None):
    """a replay script for the stock janet binary"""
    out = [PRELUDE.strip(), ""]
    out.append("(defn rv [x] (case (type x) :number (string/format \"%d\" x) :nil \"nil\" :boolean (string x) "
               ":keyword (string \":\" x) :tuple (string \"(\" (string/join (map rv x) \" \") \")\") "
               ":array (string \"(\" (string/join (map rv x) \" \") \")\") :fiber \"F\" \"E\"))")
    out.append("(def observed (rv %s))" % render(prog))
    out.append("(print \"observed: \" observed)")
    if expected is not None:
        out.append("(def expected \"%s\")" % expected)
        out.append("(print \"expected: \" expected)")
        out.append("(print (if (= observed expected) \"SAME\" \"DIFFERENT\"))")
    return "\n".join(out) + "\n"
