#!/usr/bin/env python3
"""C05 -- fibers follow the coroutine and signal protocol.

K1 over generated fiber programs: every program of a bounded algebra (trees of named
fibers with signal masks and bodies made of yield / error / signal n / resume / cancel /
propagate / dyn / setdyn / cleanup forms / generator loops / C-callback frames) is rendered
to Janet source, run on the real interpreter (vjanet `fast`), and its complete ordered
event log (every value passed in or out, every status observed, every cleanup event, the
final status and last value of every fiber) is compared with the prediction of the
reference interpreter in model.py.  Model-independent laws are checked on every observed
log as well.  See NOTES.md.
"""
import hashlib
import multiprocessing
import os
import re
import sys
import time
from itertools import product

sys.path.insert(0, os.path.join(os.path.dirname(os.path.abspath(__file__)), "..", "..", "engine", "mc"))
from core import *  # noqa: E402,F401

HERE = os.path.dirname(os.path.abspath(__file__))
sys.path.insert(0, HERE)
import model as M  # noqa: E402
import spaces as S  # noqa: E402

DRIVER = os.path.join(HERE, "driver.janet")
CHUNK = 1500
_INT = re.compile(r"\d+")


# ------------------------------------------------------------------ laws on an observed log

def entries(text):
    """top-level entries of the canonical log text -> list of (head token, rest text)"""
    out = []
    depth = 0
    start = 0
    for n, c in enumerate(text):
        if c == "(":
            depth += 1
            if depth == 2:
                start = n
        elif c == ")":
            depth -= 1
            if depth == 1:
                e = text[start + 1:n]
                sp = e.find(" ")
                out.append((e, "") if sp < 0 else (e[:sp], e[sp + 1:]))
    return out


def law_check(prog, info, text):
    """model-independent consequences of the property statement, checked on the observed
    log text alone.  -> None or (sig, what)"""
    # (1) values arrive unchanged: every integer in the log is a constant of the program
    allowed = info["consts"]
    for m in _INT.finditer(text):
        if int(m.group()) not in allowed:
            return ("law:foreign-value", "value %s in the log was never sent by the program" % m.group())
    # (2) straight-line code: an operation completes at most once; a cleanup form runs at most once,
    #     and exactly once when its body was entered and the enclosing named fiber has finished
    seen = {}
    ents = entries(text)
    for head, v in ents:
        if head == ":fin":
            continue
        i = int(head)
        if i in info["once"]:
            key = (i, "c" if v == ":c" else "in" if v == ":in" else "v")
            seen[key] = seen.get(key, 0) + 1
    for (i, k), n in seen.items():
        if n > 1:
            if k == "c":
                return ("law:cleanup-ran-twice", "cleanup form %d ran %d times" % (i, n))
            return ("law:operation-completed-twice", "statement %d completed %d times" % (i, n))
    # (3) a finished fiber never runs again: once a fiber has been observed with a terminal status,
    #     no statement of its body (or of a cleanup/try body inside it) completes any more
    owner = info["owner"]
    dead = set()
    for head, v in ents:
        if head == ":fin":
            continue
        i = int(head)
        k = owner.get(i)
        if i >= 100 and i < 200:
            k = i - 100
        if k is not None and k in dead:
            return ("law:finished-fiber-ran-again", "statement %d of fiber %d completed after the fiber was observed finished" % (i, k))
        tk = info["target"].get(i)
        if i >= 200:
            tk = 0
        if tk is not None:
            m = _STATUS.search(v)
            if m and m.group(1) in M.TERMINAL:
                dead.add(tk)
    if info["cleanups"]:
        fin = text[text.rindex("(:fin"):]
        stats = re.findall(r"\(:([a-z0-9]+) |nil", fin[5:])
        for i, (kind, own, strict) in info["cleanups"].items():
            entered = seen.get((i, "in"), 0)
            ran = seen.get((i, "c"), 0)
            if ran and not entered:
                return ("law:cleanup-without-entry", "cleanup %d ran but its body never started" % i)
            if not strict:
                continue
            st = stats[own] if own < len(stats) else ""
            if entered and st in M.TERMINAL:
                done_ok = (i, "v") in seen
                if kind in ("defer", "with") and not ran:
                    return ("law:cleanup-skipped", "%s %d entered, fiber %d finished (%s), cleanup never ran" % (kind, i, own, st))
                if kind == "edefer" and done_ok and ran:
                    return ("law:edefer-on-normal-exit", "edefer %d ran although its body returned normally" % i)
    return None


_STATUS = re.compile(r":([a-z]+[0-9]?)\)*$")


def prog_info(prog):
    consts = set([0, 1])   # 0: key of (next fiber); never logged but harmless
    once = set()
    cleanups = {}
    owner = {}
    target = {}
    has_c = [False]

    def walk(body, owner_, strict):
        for st in body:
            kind, i = st[0], st[1]
            consts.add(i)
            owner[i] = owner_
            if kind in ("resume", "cancel", "status", "each", "loopin", "geneach"):
                target[i] = st[2]
            at = M.COMPOUND_BODY_AT.get(kind)
            if kind in ("defer", "edefer", "with"):
                cleanups[i] = (kind, owner_, strict)
            if kind not in ("each", "loopin", "geneach", "new", "setdyn", "error", "return"):
                once.add(i)
            if at is not None:
                sub = st[at + 1]
                if kind == "cfun" and st[2] != "map":
                    # a body suspended inside a C callback is abandoned when the signal is coerced
                    walk(sub, owner_, False)
                else:
                    walk(sub, owner_, strict)
    for k, nd in enumerate(prog["nodes"]):
        consts.add(100 + k)
        walk(nd["body"], k, True)
    for n in range(prog.get("top", M.TOP_RESUMES)):
        consts.add(200 + n)
    return dict(consts=consts, once=once, cleanups=cleanups, owner=owner, target=target)


# ------------------------------------------------------------------ one chunk (runs in a pool worker)

def shape(text):
    return _INT.sub("#", text)


def work(job):
    name, lo, hi = job
    sp = S.SPACES[name]
    progs, items, exps, idxs = [], [], [], []
    n_unspec = {}
    n_skipped = 0
    feats = {}
    for idx in range(lo, hi):
        nodes = sp.build(idx)
        if nodes is None:
            n_skipped += 1
            continue
        prog = M.number(nodes, sp.top)
        try:
            exp, fs = M.run(prog)
        except M.Unspecified as u:
            n_unspec[u.why] = n_unspec.get(u.why, 0) + 1
            continue
        for f in fs:
            feats[f] = feats.get(f, 0) + 1
        progs.append(prog)
        items.append(M.render(prog))
        exps.append(exp)
        idxs.append(idx)
    res = run_batch("fast", DRIVER, items, chunk=max(1, len(items)), jobs=1, timeout=20) if items else []
    bad = []
    shapes = set()
    raw = set()
    for prog, item, exp, idx, (status, text) in zip(progs, items, exps, idxs, res):
        if status == "OK":
            shapes.add(shape(text))
            raw.add(hashlib.md5(text.encode()).digest()[:8])
        if status != "OK" or text != exp:
            if len(bad) < 20:
                bad.append((idx, status, text, exp))
            continue
        lv = law_check(prog, prog_info(prog), text)
        if lv is not None and len(bad) < 20:
            bad.append((idx, "LAW", lv[0] + ": " + lv[1], text))
    return dict(name=name, lo=lo, hi=hi, ran=len(items), skipped=n_skipped, unspec=n_unspec,
                feats=feats, bad=bad, shapes=shapes, raw=raw)


# ------------------------------------------------------------------ verdicts

def minimal_sig(name, prog, status, text, exp):
    """stable signature: part + kinds of statement involved + first point of divergence (by kind)"""
    if status in ("CRASH", "TIMEOUT"):
        return "%s:%s" % (name, status.lower())
    if status == "LAW":
        return "%s:%s" % (name, text.split(":")[0] + ":" + text.split(":")[1])
    if status == "ERR":
        return "%s:program-raised-at-top" % name
    # first differing entry, rendered with ids replaced by statement kinds
    kinds = {}

    def walk(body):
        for st in body:
            kinds[st[1]] = st[0] + ("".join(str(x) for x in st[2:] if isinstance(x, (int, str))))
            at = M.COMPOUND_BODY_AT.get(st[0])
            if at is not None:
                walk(st[at + 1])
    for nd in prog["nodes"]:
        walk(nd["body"])
    a = re.findall(r"\((\d+|:fin) ", text)
    b = re.findall(r"\((\d+|:fin) ", exp)
    n = 0
    while n < min(len(a), len(b)) and a[n] == b[n]:
        n += 1
    # same sequence of entries: the values differ
    ea = text.split(") (")
    eb = exp.split(") (")
    k = 0
    while k < min(len(ea), len(eb)) and ea[k] == eb[k]:
        k += 1

    def lab(tok):
        if tok == ":fin":
            return "fin"
        t = int(tok)
        if t >= 200:
            return "top"
        if t >= 100:
            return "start"
        return kinds.get(t, "?")
    got = shape(ea[k]) if k < len(ea) else "end"
    want = shape(eb[k]) if k < len(eb) else "end"
    ent = re.match(r"\(*(\d+|:fin)", eb[k] if k < len(eb) else (ea[k] if k < len(ea) else ":fin"))
    where = lab(ent.group(1)) if ent else "?"
    s = "%s:%s:want[%s]:got[%s]" % (name, where, want, got)
    return re.sub(r"[^A-Za-z0-9_:.\[\]#-]+", "_", s)[:150]


def report(chk, name, sp, bad):
    idx, status, text, exp = bad
    prog = M.number(sp.build(idx), sp.top)
    sig = minimal_sig(name, prog, status, text, exp)
    if status == "LAW":
        what = "part %s program #%d: %s" % (name, idx, text)
        replay = M.standalone(prog, None)
    elif status in ("CRASH", "TIMEOUT"):
        what = "part %s program #%d: interpreter %s (%s)" % (name, idx, status, text[:300])
        replay = M.standalone(prog, None)
    else:
        what = "part %s program #%d: expected log %s ; observed %s %s" % (name, idx, exp, status, text)
        replay = M.standalone(prog, exp)
    chk.violation(sig=sig, what=what, replay_text=replay, replay_cmd="janet <this file>   (prints observed/expected/DIFFERENT)")


def run_pinned(chk):
    """hand-written minimal programs for defects found by this check (see NOTES.md): compared with the
    model like any other program where the model predicts them, and always against the laws
    (terminates, no crash, no statement completes twice, a finished fiber never runs again)."""
    for name, nodes, why in S.pinned_programs():
        prog = M.number(nodes)
        item = M.render(prog)
        try:
            exp = M.run(prog)[0]
        except M.Unspecified:
            exp = None
        res = run_batch("fast", DRIVER, [item], chunk=1, jobs=1, timeout=4)
        status, text = res[0]
        chk.add(evaluations=1)
        chk.part("pinned", programs=1)
        chk.outcome("pinned:" + name + ":" + status)
        if status == "TIMEOUT":
            chk.violation(sig=name + ":hang", what=why + " -- the interpreter never returns (killed after 4 s)",
                          replay_text=M.standalone(prog, exp), replay_cmd="timeout 5 janet <this file>")
        elif status == "CRASH":
            chk.violation(sig=name + ":crash", what=why + " -- the interpreter died: " + text[:300],
                          replay_text=M.standalone(prog, exp), replay_cmd="janet <this file>")
        elif status == "OK":
            lv = law_check(prog, prog_info(prog), text)
            if lv is not None:
                chk.violation(sig=name + ":" + lv[0], what=why + " -- " + lv[1] + " ; observed log " + text,
                              replay_text=M.standalone(prog, exp), replay_cmd="janet <this file>")
            elif exp is not None and text != exp:
                chk.violation(sig=name + ":log-differs", what=why + " -- expected log " + exp + " ; observed " + text,
                              replay_text=M.standalone(prog, exp), replay_cmd="janet <this file>")
        else:
            chk.violation(sig=name + ":raised-at-top", what=why + " -- " + text[:300],
                          replay_text=M.standalone(prog, exp), replay_cmd="janet <this file>")


def main():
    chk = Check("C05")
    chk.rule("one case = one generated fiber program (tree of named fibers: signal mask + env flag + body over "
             "yield/error/signal n/resume/cancel/propagate/status/dyn/setdyn/defer/edefer/with/try/protect/prompt/"
             "with-dyns/each/loop/generate/C-callback frames), all programs of each part's product space; every "
             "statement sends a unique integer, every completed statement logs what it received; distinct = distinct "
             "program text; an outcome = the complete ordered event log plus final status/last-value of every fiber")
    chk.assume("the Janet compiler and the array/tuple/print primitives used by the 12-line logging prelude are correct")
    chk.assume("runtime-generated strings (error messages, 'coerced from' texts) are compared only as 'a string'")
    vjanet("fast")
    only = chk.args.only
    plan = S.plan(chk.tier)
    pool = multiprocessing.Pool(JOBS)
    total_raw = set()
    done = []
    rate = None        # programs per second, measured on the parts already run
    try:
        run_pinned(chk)
        for pi, name in enumerate(plan):
            if only and not re.search(only, name):
                continue
            sp = S.SPACES[name]
            left = chk.budget * 0.95 - chk.elapsed()
            if left <= 0 or (rate and sp.size / rate > left):
                chk.cap("part %s (%d programs) not started: would exceed the time budget" % (name, sp.size))
                continue
            t0 = time.time()
            jobs = [(name, lo, min(lo + CHUNK, sp.size)) for lo in range(0, sp.size, CHUNK)]
            ran = skipped = 0
            unspec, feats = {}, {}
            bads = []
            shapes, raw = set(), set()
            aborted = False
            it = pool.imap_unordered(work, jobs)
            for r in it:
                ran += r["ran"]
                skipped += r["skipped"]
                for k, v in r["unspec"].items():
                    unspec[k] = unspec.get(k, 0) + v
                for k, v in r["feats"].items():
                    feats[k] = feats.get(k, 0) + v
                bads.extend(r["bad"])
                shapes |= r["shapes"]
                raw |= r["raw"]
                if chk.elapsed() > chk.budget * 1.1:
                    aborted = True
                    break
            if aborted:
                pool.terminate()
                pool = multiprocessing.Pool(JOBS)
                chk.cap("part %s stopped after %d of %d programs: time budget" % (name, ran, sp.size))
            else:
                done.append(name)
            dt = time.time() - t0
            if ran >= 20000 and dt > 1:
                r_now = ran / dt
                rate = r_now if rate is None else min(rate, r_now) * 0.5 + max(rate, r_now) * 0.5
            bads.sort()
            for b in bads[:40]:
                report(chk, name, sp, b)
            if len(bads) > 40:
                chk.violations += len(bads) - 40
            chk.add(evaluations=ran, transitions=ran, states=len(raw))
            for s in shapes:
                chk.outcome(s)
            total_raw |= raw
            chk.part(name, space=sp.size, programs=ran, excluded_unspecified=sum(unspec.values()),
                     distinct_logs=len(raw), distinct_shapes=len(shapes), mismatches=len(bads), wall_s=round(dt, 1),
                     complete=not aborted, what=sp.doc)
            for k, v in unspec.items():
                chk.part(name, **{"excluded:" + k: v})
            for k, v in sorted(feats.items()):
                chk.part("features", **{k: v})
            if ran:
                for idx in (0, sp.size // 2, sp.size - 1):
                    nodes = sp.build(idx)
                    if nodes is not None and len(chk.cov["samples"]) < 9 and idx == sp.size // 2:
                        chk.sample({"part": name, "index": idx, "program": M.render(M.number(nodes, sp.top))}, limit=9)
            sys.stdout.write("  part %-14s %8d programs  %6d excluded  %5d shapes  %3d mismatches  %.1fs\n" % (
                name, ran, sum(unspec.values()), len(shapes), len(bads), dt))
            sys.stdout.flush()
    finally:
        pool.terminate()
    chk.cov["bound_completed"] = S.bound_text(chk.tier, done)
    chk.cov["distinct_logs"] = len(total_raw)
    chk.finish()


if __name__ == "__main__":
    harness_guard(main)
