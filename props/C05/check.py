#!/usr/bin/env python3
"""C05 -- fibers follow the coroutine and signal protocol.

K1 over generated fiber programs: every program of a bounded algebra (trees of named
fibers with signal masks and bodies made of yield / error / signal n / resume / cancel /
propagate / dyn / setdyn / cleanup forms / generator loops / C-callback frames) is rendered
to Janet source, run on the real interpreter (vjanet `fast`), and its complete ordered
event log (every value passed in or out, every status observed, every cleanup event, the
final status and last value of every fiber) is compared with the prediction of the
reference interpreter in model.py.  Model-independent laws are checked on every observed
log as well.  See NOTES.md.
"""
import hashlib
import shutil
import multiprocessing
import os
import re
import sys
import time
from itertools import product

sys.path.insert(0, os.path.join(os.path.dirname(os.path.abspath(__file__)), "..", "..", "engine", "mc"))
from core import *  # noqa: E402,F401
import core as _core  # noqa: E402

HERE = os.path.dirname(os.path.abspath(__file__))
sys.path.insert(0, HERE)
import model as M  # noqa: E402
import spaces as S  # noqa: E402

DRIVER = os.path.join(HERE, "driver.janet")
CHUNK = 1500
_INT = re.compile(r"(?<![a-z0-9])\d+")   # integers, not the digit of :user5


# ------------------------------------------------------------------ laws on an observed log

def entries(text):
    """top-level entries of the canonical log text -> list of (head token, rest text)"""
    out = []
    depth = 0
    start = 0
    for n, c in enumerate(text):
        if c == "(":
            depth += 1
            if depth == 2:
                start = n
        elif c == ")":
            depth -= 1
            if depth == 1:
                e = text[start + 1:n]
                sp = e.find(" ")
                out.append((e, "") if sp < 0 else (e[:sp], e[sp + 1:]))
    return out


def fin_statuses(text):
    """final status of every named fiber ('' = never created) from the (:fin ...) entry"""
    fin = text[text.rindex("(:fin") + 5:]
    out = []
    n = 0
    while n < len(fin):
        c = fin[n]
        if c == "(":
            depth = 0
            m = n
            while True:
                if fin[m] == "(":
                    depth += 1
                elif fin[m] == ")":
                    depth -= 1
                    if depth == 0:
                        break
                m += 1
            el = fin[n + 1:m]
            out.append(el.split(" ", 1)[0].lstrip(":"))
            n = m + 1
        elif fin.startswith("nil", n):
            out.append("")
            n += 3
        elif c == ")":
            break
        else:
            n += 1
    return out


def law_check(prog, info, text):
    """model-independent consequences of the property statement, checked on the observed
    log text alone.  -> None or (sig, what)"""
    # (1) values arrive unchanged: every integer in the log is a constant of the program
    allowed = info["consts"]
    for m in _INT.finditer(text):
        if int(m.group()) not in allowed:
            return ("law:foreign-value", "value %s in the log was never sent by the program" % m.group())
    # (2) straight-line code: an operation completes at most once; a cleanup form runs at most once,
    #     and exactly once when its body was entered and the enclosing named fiber has finished
    seen = {}
    ents = entries(text)
    for head, v in ents:
        if head == ":fin":
            continue
        i = int(head)
        if i in info["once"]:
            key = (i, "c" if v == ":c" else "in" if v == ":in" else "v")
            seen[key] = seen.get(key, 0) + 1
    for (i, k), n in seen.items():
        if n > 1:
            if k == "c":
                return ("law:cleanup-ran-twice", "cleanup form %d ran %d times" % (i, n))
            return ("law:operation-completed-twice", "statement %d completed %d times" % (i, n))
    # (3) a finished fiber never runs again: once a fiber has been observed with a terminal status,
    #     no statement of its body (or of a cleanup/try body inside it) completes any more
    owner = info["owner"]
    dead = set()
    for head, v in ents:
        if head == ":fin":
            continue
        i = int(head)
        k = owner.get(i)
        if i >= 100 and i < 200:
            k = i - 100
        if k is not None and k in dead:
            return ("law:finished-fiber-ran-again", "statement %d of fiber %d completed after the fiber was observed finished" % (i, k))
        tk = info["target"].get(i)
        if i >= 200:
            tk = 0
        if tk is not None:
            m = _STATUS.search(v)
            if m and m.group(1) in M.TERMINAL:
                dead.add(tk)
    if info["cleanups"]:
        stats = fin_statuses(text)
        for i, (kind, own, strict) in info["cleanups"].items():
            entered = seen.get((i, "in"), 0)
            ran = seen.get((i, "c"), 0)
            if ran and not entered:
                return ("law:cleanup-without-entry", "cleanup %d ran but its body never started" % i)
            if not strict:
                continue
            st = stats[own] if own < len(stats) else ""
            if entered and st in M.TERMINAL:
                done_ok = (i, "v") in seen
                if kind in ("defer", "with") and not ran:
                    return ("law:cleanup-skipped", "%s %d entered, fiber %d finished (%s), cleanup never ran" % (kind, i, own, st))
                if kind == "edefer" and done_ok and ran:
                    return ("law:edefer-on-normal-exit", "edefer %d ran although its body returned normally" % i)
    return None


_STATUS = re.compile(r":([a-z]+[0-9]?)\)*$")


def prog_info(prog):
    consts = set([0, 1])   # 0: key of (next fiber); never logged but harmless
    once = set()
    cleanups = {}
    owner = {}
    target = {}
    has_c = [False]

    def walk(body, owner_, strict):
        for st in body:
            kind, i = st[0], st[1]
            consts.add(i)
            owner[i] = owner_
            if kind in ("resume", "cancel", "status", "each", "loopin", "geneach"):
                target[i] = st[2]
            at = M.COMPOUND_BODY_AT.get(kind)
            if kind in ("defer", "edefer", "with"):
                cleanups[i] = (kind, owner_, strict)
            if kind not in ("each", "loopin", "geneach", "new", "setdyn", "error", "return"):
                once.add(i)
            if at is not None:
                sub = st[at + 1]
                if kind == "cfun" and st[2] != "map":
                    # a body suspended inside a C callback is abandoned when the signal is coerced
                    walk(sub, owner_, False)
                else:
                    walk(sub, owner_, strict)
    for k, nd in enumerate(prog["nodes"]):
        consts.add(100 + k)
        walk(nd["body"], k, True)
    for n in range(prog.get("top", M.TOP_RESUMES)):
        consts.add(200 + n)
    return dict(consts=consts, once=once, cleanups=cleanups, owner=owner, target=target)


# ------------------------------------------------------------------ one chunk (runs in a pool worker)

def shape(text):
    return _INT.sub("#", text)


MAX_DEATHS_PER_CHUNK = 2      # interpreter deaths (hang / crash) tolerated per chunk before the rest is skipped
MAX_DEATHS_PER_PART = 6       # ... per part before the part is abandoned (the run is red by then anyway)
STOP = multiprocessing.Value("i", 0)


def run_items(items, t_first=25, t_trace=8):
    """run the driver over `items` in one vjanet process.  -> list of (status, text), status in
    OK / ERR / CRASH / TIMEOUT / SKIPPED.  A death (signal, hang) is attributed to one item by a traced re-run
    from the first item without a result; at most MAX_DEATHS_PER_CHUNK deaths are investigated, the
    remaining items are then SKIPPED (never silently counted as evaluated)."""
    exe = vjanet("fast")
    out = [None] * len(items)
    offset = 0
    deaths = 0
    d = mktmp()
    try:
        while offset < len(items):
            if deaths >= MAX_DEATHS_PER_CHUNK or STOP.value:
                for k in range(offset, len(items)):
                    out[k] = ("SKIPPED", "")
                break
            sub = items[offset:]
            ip, op = os.path.join(d, "items.jdn"), os.path.join(d, "out.txt")
            with open(ip, "w") as f:
                f.write("\n".join(sub))
                f.write("\n")
            if os.path.exists(op):
                os.unlink(op)
            r = _core.run(exe, [DRIVER, ip, op], timeout=t_first)
            res, begun, done, fatal = _core._parse_out(op)
            if fatal:
                raise HarnessError("batch driver fatal: %s" % fatal)
            if done and not r.crashed and not r.timed_out:
                if len(res) != len(sub):
                    raise HarnessError("driver: %d results for %d items; stderr=%s" % (
                        len(res), len(sub), r.err[-2000:].decode(errors="replace")))
                for i, v in res.items():
                    out[offset + i] = v
                break
            n = 0
            while n in res:
                out[offset + n] = res[n]
                n += 1
            offset += n
            # traced re-run (flush before every item) of at most the next 80 items: the culprit is among them
            sub = items[offset:offset + 80]
            with open(ip, "w") as f:
                f.write("\n".join(sub))
                f.write("\n")
            os.unlink(op) if os.path.exists(op) else None
            r = _core.run(exe, [DRIVER, ip, op], env={"VERIF_BATCH_TRACE": "1"}, timeout=t_trace)
            res, begun, done, fatal = _core._parse_out(op)
            n = 0
            while n in res:
                out[offset + n] = res[n]
                n += 1
            if done and not r.crashed and not r.timed_out:
                # did not die this time (e.g. the first run was only slow): carry on after these items
                offset += n
                continue
            if begun < n:
                if r.crashed and not r.timed_out and n > 0:
                    # killed by a signal between two programs (as in engine/mc/core.py): attributed to the last one completed
                    out[offset + n - 1] = ("CRASH", "driver died after this program, outside any program: " + r.describe())
                    offset += n
                    deaths += 1
                    continue
                raise HarnessError("driver died outside an item: %s" % r.describe())
            out[offset + n] = ("TIMEOUT" if r.timed_out else "CRASH", r.describe())
            offset += n + 1
            deaths += 1
    finally:
        shutil.rmtree(d, ignore_errors=True)
    return out


def work(job):
    name, lo, hi = job
    sp = S.SPACES[name]
    progs, items, exps, idxs = [], [], [], []
    n_unspec = {}
    n_skipped = 0
    feats = {}
    if STOP.value:
        return dict(name=name, lo=lo, hi=hi, ran=0, skipped=0, unspec={}, feats={}, bad=[], shapes=set(), raw=set(),
                    not_run=hi - lo, deaths=0)
    for idx in range(lo, hi):
        nodes = sp.build(idx)
        if nodes is None:
            n_skipped += 1
            continue
        prog = M.number(nodes, sp.top)
        try:
            exp, fs = M.run(prog)
        except M.Unspecified as u:
            n_unspec[u.why] = n_unspec.get(u.why, 0) + 1
            continue
        for f in fs:
            feats[f] = feats.get(f, 0) + 1
        progs.append(prog)
        items.append(M.render(prog))
        exps.append(exp)
        idxs.append(idx)
    res = run_items(items) if items else []
    bad = []
    shapes = set()
    raw = set()
    n_skip_dead = 0
    n_deaths = 0
    for prog, item, exp, idx, (status, text) in zip(progs, items, exps, idxs, res):
        if status == "SKIPPED":
            n_skip_dead += 1
            continue
        if status in ("CRASH", "TIMEOUT"):
            n_deaths += 1
        if status == "OK":
            shapes.add(shape(text))
            raw.add(hashlib.md5(text.encode()).digest()[:8])
        if status != "OK" or text != exp:
            if len(bad) < 20:
                bad.append((idx, status, text, exp))
            continue
        lv = law_check(prog, prog_info(prog), text)
        if lv is not None and len(bad) < 20:
            bad.append((idx, "LAW", lv[0] + ": " + lv[1], text))
    return dict(name=name, lo=lo, hi=hi, ran=len(items) - n_skip_dead, skipped=n_skipped, unspec=n_unspec,
                feats=feats, bad=bad, shapes=shapes, raw=raw, not_run=n_skip_dead, deaths=n_deaths)


# ------------------------------------------------------------------ verdicts

def minimal_sig(name, prog, status, text, exp):
    """stable signature: part + kinds of statement involved + first point of divergence (by kind)"""
    if status in ("CRASH", "TIMEOUT"):
        return "%s:%s" % (name, status.lower())
    if status == "LAW":
        return "%s:%s" % (name, text.split(":")[0] + ":" + text.split(":")[1])
    if status == "ERR":
        return "%s:program-raised-at-top" % name
    # first differing entry, rendered with ids replaced by statement kinds
    kinds = {}

    def walk(body):
        for st in body:
            kinds[st[1]] = st[0] + ("".join(str(x) for x in st[2:] if isinstance(x, (int, str))))
            at = M.COMPOUND_BODY_AT.get(st[0])
            if at is not None:
                walk(st[at + 1])
    for nd in prog["nodes"]:
        walk(nd["body"])
    a = re.findall(r"\((\d+|:fin) ", text)
    b = re.findall(r"\((\d+|:fin) ", exp)
    n = 0
    while n < min(len(a), len(b)) and a[n] == b[n]:
        n += 1
    # same sequence of entries: the values differ
    ea = text.split(") (")
    eb = exp.split(") (")
    k = 0
    while k < min(len(ea), len(eb)) and ea[k] == eb[k]:
        k += 1

    def lab(tok):
        if tok == ":fin":
            return "fin"
        t = int(tok)
        if t >= 200:
            return "top"
        if t >= 100:
            return "start"
        return kinds.get(t, "?")
    got = shape(ea[k]) if k < len(ea) else "end"
    want = shape(eb[k]) if k < len(eb) else "end"
    ent = re.match(r"\(*(\d+|:fin)", eb[k] if k < len(eb) else (ea[k] if k < len(ea) else ":fin"))
    where = lab(ent.group(1)) if ent else "?"
    s = "%s:%s:want[%s]:got[%s]" % (name, where, want, got)
    return re.sub(r"[^A-Za-z0-9_:.\[\]#-]+", "_", s)[:150]


def report(chk, name, sp, bad):
    idx, status, text, exp = bad
    prog = M.number(sp.build(idx), sp.top)
    sig = minimal_sig(name, prog, status, text, exp)
    if status == "LAW":
        what = "part %s program #%d: %s" % (name, idx, text)
        replay = M.standalone(prog, None)
    elif status in ("CRASH", "TIMEOUT"):
        what = "part %s program #%d: interpreter %s (%s)" % (name, idx, status, text[:300])
        replay = M.standalone(prog, None)
    else:
        what = "part %s program #%d: expected log %s ; observed %s %s" % (name, idx, exp, status, text)
        replay = M.standalone(prog, exp)
    chk.violation(sig=sig, what=what, replay_text=replay, replay_cmd="janet <this file>   (prints observed/expected/DIFFERENT)")


def run_pinned(chk):
    """hand-written minimal programs for defects found by this check (see NOTES.md): compared with the
    model like any other program where the model predicts them, and always against the laws
    (terminates, no crash, no statement completes twice, a finished fiber never runs again)."""
    for name, nodes, why in S.pinned_programs():
        prog = M.number(nodes)
        item = M.render(prog)
        try:
            exp = M.run(prog)[0]
        except M.Unspecified:
            exp = None
        res = run_items([item], t_first=4, t_trace=4)
        status, text = res[0]
        chk.add(evaluations=1)
        chk.part("pinned", programs=1)
        chk.outcome("pinned:" + name + ":" + status)
        if status == "TIMEOUT":
            chk.violation(sig=name + ":hang", what=why + " -- the interpreter never returns (killed after 4 s)",
                          replay_text=M.standalone(prog, exp), replay_cmd="timeout 5 janet <this file>")
        elif status == "CRASH":
            chk.violation(sig=name + ":crash", what=why + " -- the interpreter died: " + text[:300],
                          replay_text=M.standalone(prog, exp), replay_cmd="janet <this file>")
        elif status == "OK":
            lv = law_check(prog, prog_info(prog), text)
            if lv is not None:
                chk.violation(sig=name + ":" + lv[0], what=why + " -- " + lv[1] + " ; observed log " + text,
                              replay_text=M.standalone(prog, exp), replay_cmd="janet <this file>")
            elif exp is not None and text != exp:
                chk.violation(sig=name + ":log-differs", what=why + " -- expected log " + exp + " ; observed " + text,
                              replay_text=M.standalone(prog, exp), replay_cmd="janet <this file>")
        else:
            chk.violation(sig=name + ":raised-at-top", what=why + " -- " + text[:300],
                          replay_text=M.standalone(prog, exp), replay_cmd="janet <this file>")


VALUE_ROUTES = ("arg arg-opt yield-out yield-in return error cancel cancel-new propagate pass2-out pass2-in pass3-error "
                "each loop-in generate last-value-yield last-value-return last-value-error try try-value protect "
                "protect-value defer-value defer-error edefer-error with-value prompt prompt-nested label with-dyns "
                "dyn-inherit dyn-proto dyn-default c-callback-error map-yield yield-through-defer resume-through-try "
                "signal-debug").split() + ["signal-%d" % n for n in range(10)] + ["signal-in-%d" % n for n in range(5, 10)]
VALUE_NAMES = ["nil", "true", "false", "0", "-0", "1", "-1", "1.5", "nan", "inf", "1e300", "string", "empty-string",
               "keyword", "symbol", "tuple", "empty-tuple", "struct", "table", "array", "buffer", "function",
               "cfunction", "fiber", "s64", "u64", "nested-tuple", "array-of-nil", "bracket-tuple"]
SEQ_VALUES = (0, 4, 8, 18, 19, 24)


def run_values(chk):
    """every value kind x every route through the protocol arrives identical (same type, same identity for
    reference types, same canonical text); triples of values out by yield / in by resume arrive in order"""
    items = ["[:%s %d]" % (r, i) for r in VALUE_ROUTES for i in range(len(VALUE_NAMES))]
    meta = [(r, VALUE_NAMES[i]) for r in VALUE_ROUTES for i in range(len(VALUE_NAMES))]
    for i in SEQ_VALUES:
        for j in SEQ_VALUES:
            for k in SEQ_VALUES:
                items.append("[:seq3 %d %d %d]" % (i, j, k))
                meta.append(("seq3", "%s,%s,%s" % (VALUE_NAMES[i], VALUE_NAMES[j], VALUE_NAMES[k])))
    res = run_batch("fast", os.path.join(HERE, "driver_values.janet"), items, chunk=300, timeout=20)
    bad = 0
    for item, (route, vname), (status, text) in zip(items, meta, res):
        chk.add(evaluations=1, transitions=1)
        chk.outcome("values:" + (text if status == "OK" else status))
        if status == "OK" and text.startswith("T "):
            continue
        bad += 1
        chk.violation(sig="values:%s:%s" % (route, vname),
                      what="value %s sent through route %s: %s %s" % (vname, route, status, text[:300]),
                      replay_text="# run with the C05 values driver:\n#   item %s of props/C05/driver_values.janet (route %s, value %s)\n" % (item, route, vname),
                      replay_cmd="see props/C05/driver_values.janet, route :%s" % route)
    chk.part("values", cases=len(items), routes=len(VALUE_ROUTES), value_kinds=len(VALUE_NAMES), mismatches=bad,
             what="29 value kinds x 52 routes (resume argument, yield in/out, return, error, every signal 0-9 and :debug in "
                  "and out, cancel, propagate, pass-through over 2 and 3 levels, each/loop/generate, last-value, try, "
                  "protect, defer, edefer, with, prompt, label, with-dyns, :i/:p inheritance, C callback error, map) "
                  "+ 216 ordered triples yielded out and resumed in")
    sys.stdout.write("  part %-14s %8d cases %37d mismatches\n" % ("values", len(items), bad))
    sys.stdout.flush()


def main():
    chk = Check("C05")
    chk.rule("one case = one generated fiber program (tree of named fibers: signal mask + env flag + body over "
             "yield/error/signal n/resume/cancel/propagate/status/dyn/setdyn/defer/edefer/with/try/protect/prompt/"
             "with-dyns/each/loop/generate/C-callback frames), all programs of each part's product space; every "
             "statement sends a unique integer, every completed statement logs what it received; distinct = distinct "
             "program text; an outcome = the complete ordered event log plus final status/last-value of every fiber")
    chk.assume("the Janet compiler and the array/tuple/print primitives used by the 12-line logging prelude are correct")
    chk.assume("runtime-generated strings (error messages, 'coerced from' texts) are compared only as 'a string'")
    vjanet("fast")
    only = chk.args.only
    plan = S.plan(chk.tier)
    pool = multiprocessing.Pool(JOBS)
    total_raw = set()
    done = []
    rate = None        # programs per second, measured on the parts already run
    try:
        run_pinned(chk)
        if not only or re.search(only, "values"):
            run_values(chk)
        for pi, name in enumerate(plan):
            if only and not re.search(only, name):
                continue
            sp = S.SPACES[name]
            left = chk.budget * 0.95 - chk.elapsed()
            if left <= 0 or (rate and sp.size / rate > left):
                chk.cap("part %s (%d programs) not started: would exceed the time budget" % (name, sp.size))
                continue
            t0 = time.time()
            jobs = [(name, lo, min(lo + CHUNK, sp.size)) for lo in range(0, sp.size, CHUNK)]
            ran = skipped = 0
            unspec, feats = {}, {}
            bads = []
            shapes, raw = set(), set()
            aborted = False
            not_run = deaths = 0
            STOP.value = 0
            it = pool.imap_unordered(work, jobs)
            for r in it:
                not_run += r["not_run"]
                deaths += r["deaths"]
                if deaths >= MAX_DEATHS_PER_PART and not STOP.value:
                    STOP.value = 1          # the remaining chunks return at once (items SKIPPED)
                ran += r["ran"]
                skipped += r["skipped"]
                for k, v in r["unspec"].items():
                    unspec[k] = unspec.get(k, 0) + v
                for k, v in r["feats"].items():
                    feats[k] = feats.get(k, 0) + v
                bads.extend(r["bad"])
                shapes |= r["shapes"]
                raw |= r["raw"]
                if chk.elapsed() > chk.budget * 1.1 and not STOP.value:
                    aborted = True
                    STOP.value = 1
            if aborted:
                chk.cap("part %s stopped after %d of %d programs: time budget" % (name, ran, sp.size))
            elif not_run:
                aborted = True
                chk.cap("part %s: %d programs not run after %d interpreter deaths (hang/crash, reported above)" % (
                    name, not_run, deaths))
            else:
                done.append(name)
            dt = time.time() - t0
            if ran >= 20000 and dt > 1:
                r_now = ran / dt
                rate = r_now if rate is None else min(rate, r_now) * 0.5 + max(rate, r_now) * 0.5
            bads.sort()
            for b in bads[:40]:
                report(chk, name, sp, b)
            if len(bads) > 40:
                chk.violations += len(bads) - 40
            chk.add(evaluations=ran, transitions=ran, states=len(raw))
            for s in shapes:
                chk.outcome(s)
            total_raw |= raw
            chk.part(name, space=sp.size, programs=ran, excluded_unspecified=sum(unspec.values()),
                     distinct_logs=len(raw), distinct_shapes=len(shapes), mismatches=len(bads), wall_s=round(dt, 1),
                     complete=not aborted, what=sp.doc)
            for k, v in unspec.items():
                chk.part(name, **{"excluded:" + k: v})
            for k, v in sorted(feats.items()):
                chk.part("features", **{k: v})
            if ran:
                for idx in (0, sp.size // 2, sp.size - 1):
                    nodes = sp.build(idx)
                    if nodes is not None and len(chk.cov["samples"]) < 9 and idx == sp.size // 2:
                        chk.sample({"part": name, "index": idx, "program": M.render(M.number(nodes, sp.top))}, limit=9)
            sys.stdout.write("  part %-14s %8d programs  %6d excluded  %5d shapes  %3d mismatches  %.1fs\n" % (
                name, ran, sum(unspec.values()), len(shapes), len(bads), dt))
            sys.stdout.flush()
    finally:
        pool.terminate()
    chk.cov["bound_completed"] = S.bound_text(chk.tier, done)
    chk.cov["distinct_logs"] = len(total_raw)
    chk.finish()


if __name__ == "__main__":
    harness_guard(main)
