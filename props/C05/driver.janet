# C05 driver: one batch item = one generated fiber program (a Janet form, see model.py render()).
# The program clears and fills the global event log `log`; the driver prints it in the
# canonical text that model.py rv() produces (all strings -- runtime messages -- as E).

(use prelude)

(def log @[])
(defn L [i v] (array/push log [i v]) v)
(defn C [i] (array/push log [i :c]))
(defn W [i] (array/push log [i :c]))
(defn RS [f r] [r (fiber/status f)])
(defn ES [f] [:end (if f (fiber/status f))])
(defn FS [f] (if f [(fiber/status f) (fiber/last-value f)]))

(defn rv [x b]
  (case (type x)
    :number (buffer/format b "%d" x)
    :nil (buffer/push b "nil")
    :boolean (buffer/push b (if x "true" "false"))
    :keyword (buffer/push b ":" x)
    :tuple (do (buffer/push b "(")
             (var first true)
             (each v x (if first (set first false) (buffer/push b " ")) (rv v b))
             (buffer/push b ")"))
    :array (do (buffer/push b "(")
             (var first true)
             (each v x (if first (set first false) (buffer/push b " ")) (rv v b))
             (buffer/push b ")"))
    :fiber (buffer/push b "F")
    (buffer/push b "E"))
  b)

(batch-run
  (fn [item]
    (def res (eval item))
    (string (rv res @""))))
