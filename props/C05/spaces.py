"""C05: the enumerated program spaces ("parts").

A Space is a product of finite option lists plus a builder from one choice tuple to the
node list of a program (or None for a choice that is skipped as symmetric / ill-formed).
Programs are addressed by their index in the product (mixed radix), so a chunk of a space
is just an index range and needs no shared state between worker processes.
"""
from itertools import product


class Space(object):
    def __init__(self, name, dims, builder, top=6, doc=""):
        self.name = name
        self.dims = [list(d) for d in dims]
        self.builder = builder
        self.top = top
        self.doc = doc
        n = 1
        for d in self.dims:
            n *= len(d)
        self.size = n

    def choice(self, idx):
        out = []
        for d in reversed(self.dims):
            idx, r = divmod(idx, len(d))
            out.append(d[r])
        out.reverse()
        return out

    def build(self, idx):
        return self.builder(*self.choice(idx))


SPACES = {}


def space(name, dims, builder, top=6, doc=""):
    SPACES[name] = Space(name, dims, builder, top, doc)


def seqs(alphabet, maxlen, minlen=0):
    out = []
    for n in range(minlen, maxlen + 1):
        for t in product(alphabet, repeat=n):
            out.append(list(t))
    return out


def node(mask, body, sig="x"):
    return dict(mask=mask, body=list(body), sig=sig)


def T(*sts):
    return ("try", list(sts))


Y = ("yield",)
ER = ("error",)


def SG(n):
    return ("sig", n)


def RES(k):
    return ("resume", k)


def CAN(k):
    return ("cancel", k)


def PROP(k):
    return ("prop", k)


def ST(k):
    return ("status", k)


def NEW(k):
    return ("new", k)


SIMPLE_Q = [Y, ER, SG(0), SG(5)]
SIMPLE_M = [Y, ER, SG(0), SG(4), SG(5), SG(9)]
SIMPLE_T = [Y, ER, SG(0), SG(1), SG(4), SG(5), SG(7), SG(8), SG(9), SG("debug")]

# design alphabet {none, y, e, t, u, a, 0, 5, yi, ep} + default (no mask argument) + d w r 9 and two-letter mixes
MASKS_DESIGN = ["", "y", "e", "t", "u", "a", "0", "5", "yi", "ep"]
MASKS_ALL = MASKS_DESIGN + [None, "d", "w", "r", "9", "4", "ye", "y5", "e5", "ut", "yd", "e0"]
MASKS_Q = ["", "y", "e", "t", "a", "5"]
MASKS_S = ["", "y", "e", "a"]


# ------------------------------------------------------------------ part: single

ROOT_SCRIPTS_1 = {
    "r5": [T(RES(1))] * 5 + [ST(1)],
    "rc": [T(RES(1)), T(CAN(1)), T(RES(1)), ST(1)],
    "c0": [T(CAN(1)), T(RES(1)), ST(1)],
    "rrc": [T(RES(1)), T(RES(1)), T(CAN(1)), T(RES(1))],
    "bare": [RES(1), RES(1), RES(1), RES(1)],
    "barec": [RES(1), CAN(1), RES(1)],
    "prop": [T(PROP(1)), T(RES(1)), T(PROP(1)), T(RES(1)), T(PROP(1)), ST(1)],
    "each": [T(("each", 1)), T(RES(1)), ST(1)],
    "loop": [T(("loopin", 1)), T(("geneach", 1)), ST(1)],
    "prot": [("protect", [RES(1)]), ("protect", [RES(1)]), ("protect", [CAN(1)]), ("lastv", 1)],
}


def b_single(script, mask, body):
    return [node("a", [NEW(1)] + ROOT_SCRIPTS_1[script]), node(mask, body)]


def b_fnsig(sig, mask, body, script):
    return [node("a", [NEW(1)] + ROOT_SCRIPTS_1[script]), node(mask, body, sig)]


# ------------------------------------------------------------------ part: nest2 (chain 0 -> 1 -> 2)

EACH2 = ("each", 2)
ROOT_SCRIPTS_2 = {
    "r4": [T(RES(1))] * 4 + [ST(2)],
    "rcr": [T(RES(1)), T(CAN(1)), T(RES(1)), ST(2)],
    "bare": [RES(1), RES(1), RES(1)],
}


def b_nest2(script, m1, m2, b1, b2):
    return [node("a", [NEW(1)] + ROOT_SCRIPTS_2[script]), node(m1, [NEW(2)] + b1), node(m2, b2)]


# ------------------------------------------------------------------ part: reenter (root drives both levels)

REENTER_B1 = [[RES(2)], [RES(2), RES(2)], [RES(2), Y], [T(RES(2))], [("defer", [RES(2)])], [EACH2],
              [RES(2), PROP(2)], [CAN(2)]]


def b_reenter(script, m1, m2, b1, b2):
    return [node("a", [NEW(1)] + [T(a) for a in script] + [ST(1), ST(2)]), node(m1, [NEW(2)] + b1), node(m2, b2)]


# ------------------------------------------------------------------ part: nest3 (chain 0 -> 1 -> 2 -> 3) and siblings

def b_nest3(m1, m2, m3, b1, b2, b3):
    return [node("a", [NEW(1)] + [T(RES(1))] * 4 + [ST(2), ST(3)]),
            node(m1, [NEW(2)] + b1), node(m2, [NEW(3)] + b2), node(m3, b3)]


def b_sib(script, m1, m2, m3, b1, b2, b3):
    return [node("a", [NEW(1)] + ROOT_SCRIPTS_2[script][:-1] + [ST(2), ST(3)]),
            node(m1, [NEW(2), NEW(3)] + b1), node(m2, b2), node(m3, b3)]


# ------------------------------------------------------------------ part: cleanup forms

def K(kind, body):
    if kind == "prompt":
        return ("prompt", "t1", list(body))
    if kind == "withdyns":
        return ("withdyns", "k1", list(body))
    return (kind, list(body))


KINDS = ["defer", "edefer", "with", "withvars", "try", "protect", "prompt", "withdyns"]
RET = ("return", "t1")
ROOT_SCRIPTS_C = {
    "r4": [T(RES(1))] * 4,
    "c0": [T(CAN(1)), T(RES(1))],
    "c1": [T(RES(1)), T(CAN(1)), T(RES(1))],
    "c2": [T(RES(1)), T(RES(1)), T(CAN(1)), T(RES(1))],
    "bare": [RES(1), RES(1), CAN(1)],
}


def b_cleanup1(script, m1, kind, inner, tail):
    return [node("a", [NEW(1)] + ROOT_SCRIPTS_C[script] + [ST(1)]), node(m1, [K(kind, inner)] + tail)]


def b_cleanup2(script, m1, k1, k2, inner2, after):
    return [node("a", [NEW(1)] + ROOT_SCRIPTS_C[script] + [ST(1)]), node(m1, [K(k1, [K(k2, inner2)] + after)])]


ROOT_SCRIPTS_C3 = dict(ROOT_SCRIPTS_C)
ROOT_SCRIPTS_C3.update({
    "re2": [T(RES(1)), T(RES(2)), T(RES(1)), T(RES(1))],
    "ca2": [T(RES(1)), T(CAN(2)), T(RES(1)), T(RES(1))],
})
CLEAN3_B2 = [[Y], [ER], [SG(5)], [SG(0)], [Y, Y], [("defer", [Y])], [("edefer", [Y, ER])]]


def b_cleanup3(script, m1, m2, kind, inner, b2):
    return [node("a", [NEW(1)] + ROOT_SCRIPTS_C3[script] + [ST(1), ST(2)]),
            node(m1, [NEW(2), K(kind, inner)]), node(m2, b2)]


# ------------------------------------------------------------------ part: dynamic bindings

SET = ("setdyn", "k1")
GET = ("dyn", "k1")
SET2 = ("setdyn", "k2")
GET2 = ("dyn", "k2")


def WD(*b):
    return ("withdyns", "k1", list(b))


DYN_CREATE = [[NEW(2)], [WD(NEW(2))], [("defer", [NEW(2)])], [T(SET, NEW(2))]]


def b_dyn(pre, m1, m2, a, create, b, b2):
    return [node("a", pre + [NEW(1), T(RES(1)), GET, T(RES(1)), GET, T(RES(2)), GET]),
            node(m1, a + create + [RES(2)] + b + [T(RES(2)), GET]),
            node(m2, b2)]


# ------------------------------------------------------------------ part: generators

def b_gen(script, m1, m2, consume, b2, tail):
    return [node("a", [NEW(1)] + script + [ST(1), ST(2)]), node(m1, [NEW(2), consume] + tail), node(m2, b2)]


GEN_SCRIPTS = [[T(RES(1))] * 4, [T(RES(1)), T(RES(2)), T(RES(1)), T(RES(1))], [T(RES(1)), T(CAN(1)), T(RES(2))]]
GEN_CONSUME = [EACH2, ("loopin", 2), ("geneach", 2), T(EACH2), ("defer", [EACH2]), ("cfun", "map", [EACH2])]


# ------------------------------------------------------------------ part: C callback frames

def b_cframe(m1, m2, how, pre, inner, tail, b2):
    return [node("a", [NEW(1)] + [T(RES(1))] * 3 + [ST(1), ST(2)]),
            node(m1, [NEW(2)] + pre + [("cfun", how, inner)] + tail), node(m2, b2)]


# NCB: a nested callback from C that runs to completion inside the callback; what follows it is still inside a C frame
NCB = ("cfun", "replace", [])
CF_INNER = [Y, ER, SG(0), SG(5), RES(2), CAN(2), PROP(2), EACH2, T(Y), T(ER), ("defer", [Y]),
            ("protect", [SG(5)]), T(RES(2)), NCB]
CF_INNER_Q = [Y, ER, SG(5), RES(2), CAN(2), PROP(2), EACH2, T(Y), ("defer", [Y]), T(RES(2)), NCB]


# ------------------------------------------------------------------ registry per tier

def define(tier=None):
    """bound 1 (quick, and first half of thorough) and bound 2 (names ending in +, thorough only)"""
    SPACES.clear()
    # ---- single
    scripts1 = sorted(ROOT_SCRIPTS_1)
    space("single", [scripts1, MASKS_ALL, seqs(SIMPLE_M, 2)], b_single,
          doc="one fiber: every mask x every body of <=2 signal statements x 10 root scripts (resume x5, cancel at "
              "each point, bare = root itself in the signal path, propagate, each/loop/generate, protect)")
    space("single+", [scripts1, MASKS_ALL, seqs(SIMPLE_T, 3, 1)], b_single,
          doc="bodies of <=3 statements over yield/error/signal 0,1,4,5,7,8,9,:debug")
    space("fnsig", [["x", "opt", "var", ""], [None, "y", "", "a"], seqs(SIMPLE_Q, 1), ["r5", "c0", "each"]], b_fnsig,
          doc="fiber function signatures [x] [&opt x] [& x] []: where the first resume value goes")
    # ---- nest2
    a1 = [RES(2), CAN(2), PROP(2), EACH2, Y, ER, SG(5)]
    mq = ["", "y", "e", "a", "5"]
    space("nest2", [["r4", "rcr"], mq, mq, seqs(a1, 2), seqs(SIMPLE_Q, 2)], b_nest2,
          doc="two levels: routing of every signal by the masks of both levels; resume/cancel/propagate/each of the child")
    space("nest2+", [["r4", "rcr"], MASKS_DESIGN, MASKS_DESIGN, seqs(a1 + [ST(2), SG(0)], 2), seqs(SIMPLE_M, 2)], b_nest2,
          doc="all 10 design masks on both levels, more statements")
    space("nest2-deep+", [["r4", "bare"], MASKS_Q, MASKS_Q, seqs(a1, 3, 3), seqs(SIMPLE_Q, 1)], b_nest2,
          doc="parent bodies of exactly 3 statements; root without try (the root itself in the signal path)")
    # ---- reenter
    acts = [RES(1), RES(2), CAN(1), CAN(2)]
    b1q = [[RES(2)], [RES(2), Y], [T(RES(2))], [("defer", [RES(2)])], [EACH2], [RES(2), PROP(2)]]
    space("reenter", [seqs(acts, 3, 1), ["", "y"], ["", "y", "e"], b1q, seqs([Y, ST(1), RES(1), CAN(1)], 2)], b_reenter,
          doc="the root resumes/cancels both the parent and (directly) the child that is still suspended under it; "
              "the child may resume/cancel its parent")
    space("reenter+", [seqs(acts, 4, 1), ["", "y", "a"], MASKS_S, REENTER_B1, seqs([Y, SG(5), RES(1), CAN(1), ST(1)], 2)], b_reenter,
          doc="root scripts of <=4 actions, 3x4 masks")
    # ---- nest3 / siblings
    m3 = ["", "y", "e"]
    b2 = seqs([RES(3), CAN(3), PROP(3), Y, ("each", 3)], 2)
    space("nest3", [m3, m3, m3, seqs([RES(2), CAN(2), Y], 2), b2, seqs(SIMPLE_Q, 1)], b_nest3,
          doc="three levels: signals and cancellation through two intermediate fibers")
    space("nest3+", [MASKS_S, MASKS_S, MASKS_S, seqs([RES(2), CAN(2), Y], 2), b2, seqs(SIMPLE_Q, 2)], b_nest3,
          doc="4x4x4 masks, leaf bodies <=2")
    space("siblings", [["r4", "rcr"], ["y", "a"], m3, m3, seqs([RES(2), RES(3), CAN(2), CAN(3)], 2),
                       seqs([Y, ER, SG(5), RES(3), RES(1)], 1), seqs([Y, ER, SG(5), RES(2)], 1)], b_sib,
          doc="one parent, two children that may resume each other or their parent")
    space("siblings+", [["r4", "rcr"], ["y", "a"], m3, m3, seqs([RES(2), RES(3), CAN(2), CAN(3)], 3),
                        seqs([Y, ER, SG(5), RES(3), RES(1)], 2), seqs([Y, ER, SG(5), RES(2)], 1)], b_sib,
          doc="parent bodies <=3, first child <=2")
    # ---- cleanup
    scc = sorted(ROOT_SCRIPTS_C)
    space("cleanup1", [scc, ["", "y", "e", "t", "a", "5"], KINDS, seqs([Y, ER, SG(0), SG(4), SG(5), SG(9), RET], 2), [[], [Y]]],
          b_cleanup1, doc="each cleanup form (defer edefer with with-vars try protect prompt with-dyns) around every body of <=2 "
                          "signal statements; root resumes / cancels at every point")
    space("cleanup1+", [scc, ["", "y", "e", "t", "a", "5"], KINDS, seqs([Y, ER, SG(0), SG(4), SG(5), SG(9), RET], 3, 3), [[], [Y]]],
          b_cleanup1, doc="bodies of exactly 3 statements")
    space("cleanup2", [["r4", "c1", "c2"], ["", "y"], KINDS, KINDS, seqs([Y, ER, SG(0), SG(5), RET], 2), [[], [Y], [ER]]],
          b_cleanup2, doc="cleanup forms nested in each other")
    space("cleanup2+", [["c0", "bare"], ["", "y", "a"], KINDS, KINDS, seqs([Y, ER, SG(0), SG(5), RET], 2), [[], [Y], [ER]]],
          b_cleanup2, doc="remaining root scripts, mask :a")
    space("cleanup3", [sorted(ROOT_SCRIPTS_C3), ["", "y"], ["", "y"], KINDS, seqs([RES(2), Y, ER, CAN(2)], 2), CLEAN3_B2],
          b_cleanup3, doc="a child fiber resumed / cancelled inside a cleanup form, re-entered or cancelled directly by the root")
    space("cleanup3+", [sorted(ROOT_SCRIPTS_C3), ["", "y", "a"], ["", "y", "e"], KINDS, seqs([RES(2), Y, ER, CAN(2), EACH2], 2), CLEAN3_B2],
          b_cleanup3, doc="3x3 masks, each over the child inside the form")
    # ---- dyn
    dq = ["y", "yi", "yp"]
    space("dyn", [[[], [SET]], dq, dq, seqs([SET, GET], 1), DYN_CREATE, seqs([SET, GET, Y], 1),
                  seqs([SET, GET, WD(GET), T(SET)], 2)], b_dyn,
          doc="setdyn/dyn/with-dyns in three levels with every combination of no-env / :i / :p flags and creation points")
    space("dyn+", [[[], [SET]], dq + ["", "i", "p", None], dq + ["", "i", "p", None], seqs([SET, GET], 1), DYN_CREATE,
                   seqs([SET, GET, Y], 1), seqs([SET, GET, Y, WD(GET), WD(SET), T(SET), SET2, GET2, ("defer", [SET])], 2)], b_dyn,
          doc="7x7 flag combinations, second key, more statements")
    # ---- generators
    gb = [Y, ER, SG(0), SG(5), SG(9), T(Y), ("defer", [Y])]
    space("generator", [GEN_SCRIPTS, ["", "y", "a"], MASKS_DESIGN, GEN_CONSUME, seqs(gb, 2), [[]]], b_gen,
          doc="each / loop :in / generate consuming a fiber whose body yields, errors, signals; all design masks on the generator")
    space("generator+", [GEN_SCRIPTS, MASKS_S, MASKS_ALL, GEN_CONSUME, seqs(gb, 3, 3), [[]]], b_gen,
          doc="generator bodies of exactly 3 statements, all 22 masks")
    # ---- C frames
    space("cframe", [["", "y", "e"], ["", "y"], ["replace", "binop", "map"], [[], [RES(2)]], seqs(CF_INNER_Q, 2), [[], [Y]],
                     [[], [Y], [ER], [SG(5)]]], b_cframe,
          doc="statements executed inside a callback invoked from C (string/replace, operator method) -- every signal "
              "leaving the callback is coerced to an error -- and inside a plain Janet higher-order function (map)")
    space("cframe+", [["", "y", "e", "a"], ["", "y", "e"], ["replace", "binop", "peg", "map"], [[], [RES(2)]], seqs(CF_INNER, 2),
                      [[], [Y]], [[], [Y], [ER], [SG(5)], [Y, Y]]], b_cframe,
          doc="peg cmt callbacks as well, 13 inner statements")


def plan(tier):
    define()
    names = list(SPACES)
    first = [n for n in names if not n.endswith("+")]
    if tier == "quick":
        return first
    # bound 2: smallest spaces first, so that a loaded machine completes as many parts as possible
    return first + sorted([n for n in names if n.endswith("+")], key=lambda n: SPACES[n].size)


def bound_text(tier, done):
    return "; ".join("%s: %d programs" % (n, SPACES[n].size) for n in done)


def pinned_programs():
    """(name, nodes, text): minimal programs for the defects this check found"""
    return [
        ("cancel-cyclic-child-chain",
         [node("a", [NEW(1), T(RES(1)), T(RES(2)), ST(1), ST(2), T(RES(1))]),
          node("y", [NEW(2), RES(2)]),
          node("", [Y, CAN(1)])],
         "f1 resumes f2, f2's yield passes through f1 (f1 pending, child f2); f2 is resumed directly and cancels f1 "
         "(before c70d813: janet_continue_signal walked f1->f2->f1->... for ever)"),
        ("cancel-cyclic-child-chain-3",
         [node("a", [NEW(1), T(RES(1)), T(RES(2)), ST(1), ST(2), ST(3)]),
          node("y", [NEW(2), RES(2)]),
          node("", [NEW(3), Y, RES(3)]),
          node("", [CAN(1)])],
         "as above, the canceller is a fresh child of the re-entered fiber"),
        ("propagate-dead-in-c-callback",
         [node("a", [NEW(1), T(RES(1)), ("cfun", "replace", [PROP(1)]), ST(1)]),
          node("y", [])],
         "(propagate x f) with f dead inside a string/replace callback (before 868d7cc: returned from the callback "
         "frame without unwinding it; the code after the C call ran twice or the process died)"),
        ("propagate-dead-in-c-callback-2",
         [node("a", [NEW(1), T(RES(1)), T(RES(2)), ST(1)]),
          node("y", []),
          node("a", [("cfun", "binop", [PROP(1)]), Y])],
         "the same inside an operator-method callback of a nested fiber"),
        ("propagate-dead",
         [node("a", [NEW(1), T(RES(1)), T(RES(2)), ST(2)]),
          node("y", []),
          node("y", [PROP(1), Y])],
         "(propagate x f) with f dead outside any callback"),
        ("reentrant-resume-of-chain-ancestor-a",
         [node("a", [NEW(1), T(RES(1)), T(RES(1)), ST(1), ST(2)]),
          node("y", [NEW(2), RES(2)]),
          node("e", [Y, RES(1)])],
         "f1 is suspended on f2's yield; the root resumes f1, which first continues f2 while f1 still shows :pending; "
         "f2 resumes f1 (allowed: status :pending), f1 runs to its end; when f2 returns, janet_continue_no_check "
         "runs the finished f1 once more"),
        ("reentrant-resume-of-chain-ancestor-b",
         [node("a", [NEW(1), T(RES(1)), T(RES(1)), ST(1), ST(2)]),
          node("ye", [NEW(2), RES(2), ER, ST(2)]),
          node("e", [Y, RES(1)])],
         "as above, but f1 ends with an error inside the re-entrant resume (status :error, observed by f2); the outer "
         "continuation then runs f1 past its error: a finished fiber runs again and ends :dead")]
