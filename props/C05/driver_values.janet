# C05 driver 2: "values arrive unchanged and in order" over a universe of value kinds x every
# route a value can take through the fiber protocol.  item = [route value-index ...]
# out  = "T <canon received>"  or  "F sent=<canon> got=<canon>"

(use prelude)

(def some-table @{:a 1})
(def some-array @[1 2])
(def some-buffer @"buf")
(def some-fn (fn named [x] x))
(def some-fiber (fiber/new (fn [] 1)))
(def values
  [nil true false 0 (- 0) 1 -1 1.5 math/nan math/inf 1e300 "str" "" :kw 'sym [1 2] [] {:a 1}
   some-table some-array some-buffer some-fn print some-fiber (int/s64 "9007199254740993") (int/u64 "18446744073709551615")
   [some-table [some-array]] @[nil nil] (tuple/brackets 1 2)])

(defn same? [v r]
  (and (= (type v) (type r))
       (or (= v r) (and (number? v) (not= v v) (not= r r)))
       (= (canon v) (canon r))))

(def routes
  @{:arg (fn [v] (resume (fiber/new (fn [x] x)) v))
    :arg-opt (fn [v] (resume (fiber/new (fn [&opt x] x)) v))
    :yield-out (fn [v] (resume (fiber/new (fn [] (yield v)))))
    :yield-in (fn [v] (def f (fiber/new (fn [] (yield (yield 0))))) (resume f) (resume f v))
    :return (fn [v] (def f (fiber/new (fn [] (yield 0) v))) (resume f) (resume f))
    :error (fn [v] (resume (fiber/new (fn [] (error v)) :e)))
    :cancel (fn [v] (def f (fiber/new (fn [] (yield 0)) :ye)) (resume f) (cancel f v))
    :cancel-new (fn [v] (cancel (fiber/new (fn [] 0) :e) v))
    :propagate (fn [v] (resume (fiber/new (fn [] (def c (fiber/new (fn [] (error 0)) :e)) (resume c) (propagate v c)) :e)))
    :pass2-out (fn [v] (resume (fiber/new (fn [] (resume (fiber/new (fn [] (yield v)) :))) :y)))
    :pass2-in (fn [v] (def f (fiber/new (fn [] (resume (fiber/new (fn [] (yield (yield 0))) :))) :y)) (resume f) (resume f v))
    :pass3-error (fn [v] (resume (fiber/new (fn [] (resume (fiber/new (fn [] (resume (fiber/new (fn [] (error v)) :y))) :y))) :e)))
    :each (fn [v] (var r :none) (each x (fiber/new (fn [] (yield v))) (set r x)) r)
    :loop-in (fn [v] (var r :none) (loop [x :in (fiber/new (fn [] (yield v)))] (set r x)) r)
    :generate (fn [v] (var r :none) (each x (generate [y :in [v]] y) (set r x)) r)
    :last-value-yield (fn [v] (def f (fiber/new (fn [] (yield v)))) (resume f) (fiber/last-value f))
    :last-value-return (fn [v] (def f (fiber/new (fn [] v))) (resume f) (fiber/last-value f))
    :last-value-error (fn [v] (def f (fiber/new (fn [] (error v)) :e)) (resume f) (fiber/last-value f))
    :try (fn [v] (try (error v) ([e] e)))
    :try-value (fn [v] (try v ([e] :caught)))
    :protect (fn [v] (get (protect (error v)) 1))
    :protect-value (fn [v] (get (protect v) 1))
    :defer-value (fn [v] (defer nil v))
    :defer-error (fn [v] (try (defer nil (error v)) ([e] e)))
    :edefer-error (fn [v] (try (edefer nil (error v)) ([e] e)))
    :with-value (fn [v] (with [x 1 (fn [_] nil)] v))
    :prompt (fn [v] (prompt :a (return :a v)))
    :prompt-nested (fn [v] (prompt :a (prompt :b (defer nil (return :a v)))))
    :label (fn [v] (label l (return l v)))
    :with-dyns (fn [v] (with-dyns [:c05 v] (dyn :c05)))
    :dyn-inherit (fn [v] (resume (fiber/new (fn [] (setdyn :c05 v) (resume (fiber/new (fn [] (dyn :c05)) :i))))))
    :dyn-proto (fn [v] (resume (fiber/new (fn [] (setdyn :c05 v) (resume (fiber/new (fn [] (dyn :c05)) :p))))))
    :dyn-default (fn [v] (dyn :c05-unset v))
    :c-callback-error (fn [v] (try (string/replace "a" (fn [s] (error v)) "a") ([e] e)))
    :map-yield (fn [v] (resume (fiber/new (fn [] (map (fn [x] (yield v)) [0])))))
    :yield-through-defer (fn [v] (resume (fiber/new (fn [] (defer nil (yield v))))))
    :resume-through-try (fn [v] (def f (fiber/new (fn [] (try (yield 0) ([e] e))))) (resume f) (resume f v))})

(each n (range 10)
  (put routes (keyword "signal-" n) (fn [v] (resume (fiber/new (fn [] (signal n v)) :u))))
  (when (>= n 5)
    (put routes (keyword "signal-in-" n)
         (fn [v] (def f (fiber/new (fn [] (signal n 0)) :u)) (resume f) (resume f v)))))
(put routes :signal-debug (fn [v] (resume (fiber/new (fn [] (signal :debug v)) :d))))

(defn seq3
  "three values out by yield and three values in by resume, interleaved: both sides see them in order"
  [i j k]
  (def outs [(in values i) (in values j) (in values k)])
  (def ins [(in values k) (in values i) (in values j)])
  (def got-in @[])
  (def got-out @[])
  (def f (fiber/new (fn [] (each o outs (array/push got-in (yield o))) :done)))
  (array/push got-out (resume f))
  (each w ins (array/push got-out (resume f w)))
  (and (= 4 (length got-out)) (= :done (last got-out))
       (all same? outs (slice got-out 0 3))
       (all same? ins got-in)
       (= :dead (fiber/status f))))

(batch-run
  (fn [item]
    (def route (in item 0))
    (if (= route :seq3)
      (if (seq3 (in item 1) (in item 2) (in item 3)) (string "T seq " (in item 1) (in item 2) (in item 3)) "F seq3")
      (let [v (in values (in item 1))
            r ((in routes route) v)]
        (if (same? v r)
          (string "T " (canon r))
          (string "F sent=" (canon v) " got=" (canon r)))))))
