# C03 literal-operand forms: the ordering/equality operators compiled with a number *literal* as one operand
# (the compiler then uses the immediate opcodes) evaluated against every x, next to the first-class function forms.
# item: {:lit "-128" :xs ["1" "(int/s64 5)" ...]} -> per x one line of 0/1 digits:
#   (< x L) (<= x L) (> x L) (>= x L) (= x L) (not= x L) (< L x) (<= L x) (> L x) (>= L x) (= L x) (not= L x)
#   then the same twelve through function values, then (cmp x L)+1
(use prelude)

(defn- b [x] (if x "1" "0"))
(defn- call2 [f x y] (f x y))

(batch-run
  (fn [item]
    (def L (item :lit))
    (def src (string "(fn [x] [(< x " L ") (<= x " L ") (> x " L ") (>= x " L ") (= x " L ") (not= x " L ") "
                     "(< " L " x) (<= " L " x) (> " L " x) (>= " L " x) (= " L " x) (not= " L " x)])"))
    (def f (eval (parse src)))
    (def lv (eval (parse L)))
    (def out @"")
    (each xs (item :xs)
      (def x (eval (parse xs)))
      (each r (f x) (buffer/push out (b r)))
      (each [op swap] [[< false] [<= false] [> false] [>= false] [= false] [not= false]
                       [< true] [<= true] [> true] [>= true] [= true] [not= true]]
        (buffer/push out (b (if swap (call2 op lv x) (call2 op x lv)))))
      (buffer/push out (string (+ 1 (cmp x lv))))
      (buffer/push out "|"))
    (string out)))
