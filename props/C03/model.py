"""Reference model for C03: a tiny algebra of Janet values as Python data.

Python knows the *mathematical content* of every value the check builds, independently of
Janet's `=`/`hash`/`compare`:

  key(v)    content key  - two values must be `=` in Janet  iff  their keys are equal
                           (-0 and 0 have the same key; a bracketed and a parenthesised tuple differ;
                           a struct's content is its own pairs plus the content of its prototype;
                           identity values (array/table/buffer/function/fiber/...) are equal only to
                           themselves: key = name of the global object)
  exact(v)  exact key    - additionally separates -0 from 0 (printed form must agree per exact key)
  canon(v)  the text engine/drv/prelude.janet `canon` must print for the value
  src(v)    a Janet expression that evaluates to the value through the plain constructors
  data(v)   the value as parser input (jdn text), or None when it has no textual form

Values are tuples:
  ('nil',) ('bool', b) ('num', float) ('str', bytes) ('sym', bytes) ('kw', bytes)
  ('tup', bracket:bool, (elems...)) ('struct', ((k, v)...), proto|None) ('id', global_name)
  ('abs', kind, int)      core/s64 or core/u64 boxed integers (content = kind + integer)
"""
import itertools
import math
import re

NIL = ('nil',)
TRUE = ('bool', True)
FALSE = ('bool', False)


def num(x):
    return ('num', float(x))


def s(b):
    return ('str', b.encode() if isinstance(b, str) else bytes(b))


def sym(b):
    return ('sym', b.encode() if isinstance(b, str) else bytes(b))


def kw(b):
    return ('kw', b.encode() if isinstance(b, str) else bytes(b))


def tup(*e):
    return ('tup', False, tuple(e))


def btup(*e):
    return ('tup', True, tuple(e))


def st(pairs=(), proto=None):
    """pairs: sequence of (k, v) with distinct-content keys, no nil."""
    pairs = tuple(pairs)
    ks = [key(k) for k, _ in pairs]
    assert len(set(ks)) == len(ks), "duplicate key in model struct"
    return ('struct', pairs, proto)


def ident(name):
    return ('id', name)


def s64(i):
    return ('abs', 's64', int(i))


def u64(i):
    return ('abs', 'u64', int(i))


# --------------------------------------------------------------------------
# keys

def key(v, exact=False):
    t = v[0]
    if t == 'num':
        x = v[1]
        if x == 0 and not exact:
            return ('num', 0.0, 1.0)
        return ('num', x, math.copysign(1.0, x))
    if t == 'tup':
        return ('tup', v[1], tuple(key(e, exact) for e in v[2]))
    if t == 'struct':
        return ('struct', frozenset((key(k, exact), key(x, exact)) for k, x in v[1]),
                None if v[2] is None else key(v[2], exact))
    return v


def exact(v):
    return key(v, True)


def has_ident(v):
    t = v[0]
    if t == 'id':
        return True
    if t == 'tup':
        return any(has_ident(e) for e in v[2])
    if t == 'struct':
        return any(has_ident(k) or has_ident(x) for k, x in v[1]) or (v[2] is not None and has_ident(v[2]))
    return False


def has_abs(v):
    t = v[0]
    if t == 'abs':
        return True
    if t == 'tup':
        return any(has_abs(e) for e in v[2])
    if t == 'struct':
        return any(has_abs(k) or has_abs(x) for k, x in v[1]) or (v[2] is not None and has_abs(v[2]))
    return False


def has_proto(v):
    t = v[0]
    if t == 'tup':
        return any(has_proto(e) for e in v[2])
    if t == 'struct':
        return v[2] is not None or any(has_proto(k) or has_proto(x) for k, x in v[1])
    return False


def all_paren(v):
    t = v[0]
    if t == 'tup':
        return (not v[1]) and all(all_paren(e) for e in v[2])
    if t == 'struct':
        return all(all_paren(k) and all_paren(x) for k, x in v[1]) and (v[2] is None or all_paren(v[2]))
    return True


def kind(v):
    """Coarse label used in violation signatures."""
    t = v[0]
    if t == 'tup':
        inner = sorted(set(kind(e) for e in v[2]))
        return ('btuple' if v[1] else 'tuple') + ('<' + ','.join(inner) + '>' if inner else '')
    if t == 'struct':
        inner = sorted(set(kind(k) for k, _ in v[1]) | set(kind(x) for _, x in v[1]))
        return 'struct' + ('+proto' if v[2] is not None else '') + ('<' + ','.join(inner) + '>' if inner else '')
    if t == 'num':
        x = v[1]
        if x == 0:
            return 'zero'
        return 'number'
    if t == 'bool':
        return 'boolean'
    if t == 'str':
        return 'string'
    if t == 'sym':
        return 'symbol'
    if t == 'kw':
        return 'keyword'
    if t == 'id':
        return 'identity'
    if t == 'abs':
        return v[1]
    return t


def short_kind(v):
    """Even coarser: the top-level type only (+proto)."""
    t = v[0]
    if t == 'tup':
        return ('btuple' if v[1] else 'tuple') + ('+proto' if has_proto(v) else '')
    if t == 'struct':
        return 'struct+proto' if has_proto(v) else 'struct'
    return kind(v)


def jtype(v):
    """Janet (type x) of the value, or None when unknown (identity)."""
    return {'nil': 'nil', 'bool': 'boolean', 'num': 'number', 'str': 'string', 'sym': 'symbol',
            'kw': 'keyword', 'tup': 'tuple', 'struct': 'struct'}.get(v[0])


# --------------------------------------------------------------------------
# text forms

def _hexbytes(b):
    out = []
    for c in b:
        if c == 34:
            out.append('\\"')
        elif c == 92:
            out.append('\\\\')
        elif 32 <= c < 127:
            out.append(chr(c))
        else:
            out.append('\\x%02x' % c)
    return ''.join(out)


def canon_num(x):
    if x != x:
        return 'nan'
    if x == math.inf:
        return 'inf'
    if x == -math.inf:
        return '-inf'
    if x == 0 and math.copysign(1.0, x) < 0:
        return '-0'
    if x == math.trunc(x) and abs(x) < 1e15:
        return '%d' % int(x)
    return '%.17g' % x


_RANK = {'nil': 0, 'bool': 1, 'num': 2, 'str': 3, 'sym': 4, 'kw': 5, 'tup': 6, 'struct': 7}


def canon(v):
    """Text printed by prelude `canon` (only for values without identity/abstract leaves)."""
    t = v[0]
    if t == 'nil':
        return 'nil'
    if t == 'bool':
        return 'true' if v[1] else 'false'
    if t == 'num':
        return canon_num(v[1])
    if t == 'str':
        return '"' + _hexbytes(v[1]) + '"'
    if t == 'sym':
        return "'" + _hexbytes(v[1])
    if t == 'kw':
        return ':' + _hexbytes(v[1])
    if t == 'tup':
        o, c = ('[', ']') if v[1] else ('(', ')')
        return o + ' '.join(canon(e) for e in v[2]) + c
    if t == 'struct':
        items = sorted(((_RANK[k[0]], canon(k)), canon(x)) for k, x in v[1])
        body = '{' + ' '.join(kc[1] + ' ' + xc for kc, xc in items) + '}'
        if v[2] is not None:
            body += '^' + canon(v[2])
        return body
    raise ValueError('no canon for %r' % (v,))


def _num_text(x):
    if x == math.inf:
        return 'math/inf'
    if x == -math.inf:
        return 'math/-inf'
    if x == 0 and math.copysign(1.0, x) < 0:
        return '(- 0)'  # compiler folds the literal -0.0 to integer 0: build it
    if x == math.trunc(x) and abs(x) < 1e17:
        return '%d' % int(x)
    return repr(x)


def _str_lit(b):
    return '"' + _hexbytes(b) + '"'


_SYMOK = re.compile(rb'^[A-Za-z!$%&*+\-./<=>?^_][A-Za-z0-9!$%&*+\-./:<=>?^_]*$')


def sym_printable(b):
    if not _SYMOK.match(b):
        return False
    if b in (b'nil', b'true', b'false'):
        return False
    # things that scan as numbers are not symbols
    if re.match(rb'^[+\-.]?[0-9]', b) or b in (b'-', b'+', b'.'):
        return b in (b'-', b'+', b'.')
    return True


def kw_printable(b):
    return b == b'' or re.match(rb'^[A-Za-z0-9!$%&*+\-./:<=>?^_]+$', b) is not None


def src(v):
    """Expression that evaluates to v via plain constructors."""
    t = v[0]
    if t == 'nil':
        return 'nil'
    if t == 'bool':
        return 'true' if v[1] else 'false'
    if t == 'num':
        return _num_text(v[1])
    if t == 'str':
        return _str_lit(v[1])
    if t == 'sym':
        return '(symbol %s)' % _str_lit(v[1])
    if t == 'kw':
        if kw_printable(v[1]):
            return ':' + v[1].decode()
        return '(keyword %s)' % _str_lit(v[1])
    if t == 'tup':
        return '(%s%s)' % ('tuple/brackets' if v[1] else 'tuple', ''.join(' ' + src(e) for e in v[2]))
    if t == 'struct':
        body = ''.join(' %s %s' % (src(k), src(x)) for k, x in v[1])
        if v[2] is not None:
            return '(struct/with-proto %s%s)' % (src(v[2]), body)
        return '(struct%s)' % body
    if t == 'id':
        return v[1]
    if t == 'abs':
        return '(int/%s "%d")' % (v[1], v[2])
    raise ValueError(v)


def data(v):
    """jdn text (what the parser reads), or None."""
    t = v[0]
    if t == 'nil':
        return 'nil'
    if t == 'bool':
        return 'true' if v[1] else 'false'
    if t == 'num':
        x = v[1]
        if math.isinf(x):
            return None
        if x == 0 and math.copysign(1.0, x) < 0:
            return '-0'
        if x == math.trunc(x) and abs(x) < 1e17:
            return '%d' % int(x)
        return repr(x)
    if t == 'str':
        return _str_lit(v[1])
    if t == 'sym':
        return v[1].decode() if sym_printable(v[1]) else None
    if t == 'kw':
        return ':' + v[1].decode() if kw_printable(v[1]) else None
    if t == 'tup':
        parts = [data(e) for e in v[2]]
        if any(p is None for p in parts):
            return None
        return ('[%s]' if v[1] else '(%s)') % ' '.join(parts)
    if t == 'struct':
        if v[2] is not None:
            return None
        parts = []
        for k, x in v[1]:
            a, b = data(k), data(x)
            if a is None or b is None:
                return None
            parts.append(a + ' ' + b)
        return '{%s}' % ' '.join(parts)
    return None


def mut_src(v):
    """Expression building the *mutable* twin (arrays/tables/buffers) whose `freeze` is v.
    Only for values whose tuples are all parenthesised; None otherwise."""
    t = v[0]
    if has_ident(v) or has_abs(v):
        return None
    if t in ('nil', 'bool', 'num', 'sym', 'kw'):
        return src(v)
    if t == 'str':
        return '(buffer %s)' % _str_lit(v[1])
    if t == 'tup':
        if v[1]:
            return None
        parts = [mut_src(e) for e in v[2]]
        if any(p is None for p in parts):
            return None
        return '(array%s)' % ''.join(' ' + p for p in parts)
    if t == 'struct':
        parts = []
        for k, x in v[1]:
            # keys stay immutable (a frozen key must not collide with another key)
            b = mut_src(x)
            if b is None or not all_paren(k):
                return None
            parts.append('%s %s' % (src(k), b))
        body = '(table%s)' % ''.join(' ' + p for p in parts)
        if v[2] is not None:
            p = mut_src(v[2])
            if p is None:
                return None
            return '(table/setproto %s %s)' % (body, p)
        return body
    return None


def jstr(text):
    """Janet string literal for a Python str of Janet source."""
    return _str_lit(text.encode())


# --------------------------------------------------------------------------
# construction routes

def perm_sample(n, limit):
    """Deterministic selection of permutations of range(n): all if n! <= limit, else identity,
    reverse, rotations."""
    allp = list(itertools.permutations(range(n)))
    if len(allp) <= limit:
        return allp
    out = [tuple(range(n)), tuple(reversed(range(n)))]
    for r in range(1, n):
        p = tuple((i + r) % n for i in range(n))
        if p not in out:
            out.append(p)
    return out[:limit]


def routes(v, perm_limit=6, deep=True):
    """List of (route_name, janet_expression) that must all produce a value with content key(v).
    Route names are stable (they appear in signatures)."""
    t = v[0]
    out = []
    d = data(v)
    plain = src(v)
    out.append(('ctor', plain))
    ident_inside = has_ident(v)
    abs_inside = has_abs(v)
    if d is not None:
        out.append(('quote', "(quote %s)" % d))
        out.append(('parse', "(parse %s)" % jstr(d)))
        out.append(('parse-ws', "(parse %s)" % jstr("\n\n   \t" + d + " ")))
        if not (t == 'sym' and v[1] in (b'',)):
            out.append(('parse-all', "(in (parse-all %s) 1)" % jstr("  :pad " + d + " :pad")))
    if not ident_inside:
        out.append(('marshal', "(unmarshal (marshal %s))" % plain))
        if not abs_inside:
            out.append(('marshal2', "(unmarshal (marshal (unmarshal (marshal %s))))" % plain))
    if d is not None and not abs_inside:
        # %j prints jdn; parse it back
        out.append(('pj', "(parse (string/format \"%%j\" %s))" % plain))
    if t == 'nil':
        out += [('get-miss', '(get {} :x)'), ('do', '(do)'), ('in-tuple', "(in (tuple nil) 0)")]
    elif t == 'bool':
        if v[1]:
            out += [('expr', '(= 1 1)'), ('not', '(not nil)'), ('expr2', '(< 1 2)')]
        else:
            out += [('expr', '(= 1 2)'), ('not', '(not 1)'), ('expr2', '(< 2 1)')]
    elif t == 'str':
        b = v[1]
        lit = _str_lit(b)
        out.append(('string-fn', '(string %s)' % lit))
        out.append(('from-bytes', '(string/from-bytes%s)' % ''.join(' %d' % c for c in b)))
        out.append(('slice', '(string/slice %s 1 -2)' % _str_lit(b'x' + b + b'y')))
        out.append(('of-buffer', '(string (buffer %s))' % lit))
        out.append(('freeze', '(freeze (buffer %s))' % lit))
        if len(b) >= 2:
            out.append(('concat', '(string %s %s)' % (_str_lit(b[:1]), _str_lit(b[1:]))))
            out.append(('join', '(string/join [%s %s])' % (_str_lit(b[:1]), _str_lit(b[1:]))))
        out.append(('of-symbol', '(string (symbol %s))' % lit))
        out.append(('of-keyword', '(string (keyword %s))' % lit))
    elif t in ('sym', 'kw'):
        b = v[1]
        lit = _str_lit(b)
        f = 'symbol' if t == 'sym' else 'keyword'
        g = 'keyword' if t == 'sym' else 'symbol'
        out.append(('of-buffer', '(%s (buffer %s))' % (f, lit)))
        out.append(('of-other', '(%s (%s %s))' % (f, g, lit)))
        out.append(('slice', '(%s/slice %s 1 -2)' % (f, _str_lit(b'x' + b + b'y'))))
        if len(b) >= 2:
            out.append(('concat', '(%s %s %s)' % (f, _str_lit(b[:1]), _str_lit(b[1:]))))
        if t == 'sym' and sym_printable(b):
            out.append(('quote-sym', "'" + b.decode()))
    elif t == 'tup':
        es = [src(e) for e in v[2]]
        body = ''.join(' ' + e for e in es)
        if not v[1]:
            out.append(('slice', '(tuple/slice (tuple :pad%s :pad) 1 -2)' % body))
            out.append(('slice-array', '(tuple/slice (array%s))' % body))
            out.append(('splice', '(tuple ;(array%s))' % body))
            out.append(('apply', '(apply tuple (array%s))' % body))
            out.append(('join', '(tuple/join (tuple%s) (tuple%s))' % (''.join(' ' + e for e in es[:1]),
                                                                    ''.join(' ' + e for e in es[1:]))))
            out.append(('bracket-literal-eval', '[%s]' % ' '.join(es)))
            m = mut_src(v)
            if m is not None:
                out.append(('freeze', '(freeze %s)' % m))
            if all_paren(v) and not ident_inside and not abs_inside:
                out.append(('freeze-self', '(freeze %s)' % plain))
            out.append(('setmap', '(tuple/setmap (tuple%s) 7 9)' % body))
            out.append(('quasi', '~(%s)' % ' '.join(',' + e for e in es)))
        else:
            # built by the bracket-tuple instruction at run time (the literal routes are built by the parser)
            out.append(('quasi', '~[%s]' % ' '.join(',' + e for e in es)))
            out.append(('splice', '(tuple/brackets ;(array%s))' % body))
            out.append(('apply', '(apply tuple/brackets (array%s))' % body))
            out.append(('setmap', '(tuple/setmap (tuple/brackets%s) 7 9)' % body))
    elif t == 'struct':
        pairs = v[1]
        n = len(pairs)
        proto = v[2]
        ps = perm_sample(n, perm_limit)
        for pi, p in enumerate(ps):
            kv = ''.join(' %s %s' % (src(pairs[i][0]), src(pairs[i][1])) for i in p)
            tag = 'p' + ''.join(str(i) for i in p) if n else 'p'
            if proto is None:
                if pi:
                    out.append(('ctor:' + tag, '(struct%s)' % kv))
                out.append(('literal:' + tag, '{%s}' % kv.strip()))
                out.append(('to-struct:' + tag, '(table/to-struct (table%s))' % kv))
                puts = ''.join(' (put t %s %s)' % (src(pairs[i][0]), src(pairs[i][1])) for i in p)
                out.append(('to-struct-puts:' + tag,
                            '(let [t @{}]%s (table/to-struct t))' % puts))
                out.append(('to-struct-tomb:' + tag,
                            '(let [t @{}] (put t :junk1 1) (put t "junk2" 2) (put t 77 3)%s (put t :junk1 nil) (put t "junk2" nil) (put t 77 nil) (table/to-struct t))' % puts))
                if all_paren(v) and not ident_inside and not abs_inside:
                    out.append(('freeze-table:' + tag, '(freeze (table%s))' % kv))
                if n:
                    k0, v0 = src(pairs[p[0]][0]), src(pairs[p[0]][1])
                    out.append(('ctor-dup:' + tag, '(struct%s %s %s)' % (kv, k0, v0)))
                    out.append(('ctor-dup-front:' + tag, '(struct %s :overwritten%s)' % (k0, kv)))
                    out.append(('ctor-nil:' + tag, '(struct :gone nil%s %s nil)' % (kv, k0)))
                    out.append(('with-proto-nil:' + tag, '(struct/with-proto nil%s)' % kv))
                if n >= 2:
                    # split into own + prototype, then flatten (own pairs win)
                    own = ''.join(' %s %s' % (src(pairs[i][0]), src(pairs[i][1])) for i in p[:n // 2])
                    rest = ''.join(' %s %s' % (src(pairs[i][0]), src(pairs[i][1])) for i in p[n // 2:])
                    out.append(('proto-flatten:' + tag,
                                '(struct/proto-flatten (struct/with-proto (struct%s)%s))' % (rest, own)))
                    k0 = src(pairs[p[0]][0])
                    out.append(('proto-flatten-shadow:' + tag,
                                '(struct/proto-flatten (struct/with-proto (struct%s %s :shadowed)%s))' % (rest, k0, own)))
                dd = [data(pairs[i][0]) for i in p] + [data(pairs[i][1]) for i in p]
                if all(x is not None for x in dd):
                    text = '{' + ' '.join('%s %s' % (data(pairs[i][0]), data(pairs[i][1])) for i in p) + '}'
                    if pi:
                        out.append(('quote:' + tag, '(quote %s)' % text))
                        out.append(('parse:' + tag, '(parse %s)' % jstr(text)))
                    if n:
                        k0, v0 = data(pairs[p[0]][0]), data(pairs[p[0]][1])
                        out.append(('parse-dup:' + tag, '(parse %s)' % jstr(text[:-1] + ' %s %s}' % (k0, v0))))
                m = mut_src(('struct', tuple(pairs[i] for i in p), None))
                if m is not None:
                    out.append(('freeze:' + tag, '(freeze %s)' % m))
            else:
                psrc = src(proto)
                if pi:
                    out.append(('ctor:' + tag, '(struct/with-proto %s%s)' % (psrc, kv)))
                out.append(('to-struct-proto:' + tag, '(table/to-struct (table%s) %s)' % (kv, psrc)))
                m = mut_src(('struct', tuple(pairs[i] for i in p), proto))
                if m is not None:
                    out.append(('freeze-proto:' + tag, '(freeze %s)' % m))
                if n:
                    k0, v0 = src(pairs[p[0]][0]), src(pairs[p[0]][1])
                    out.append(('ctor-dup:' + tag, '(struct/with-proto %s%s %s %s)' % (psrc, kv, k0, v0)))
        if all_paren(v) and not ident_inside and not abs_inside:
            out.append(('freeze-self', '(freeze %s)' % plain))
    elif t == 'num':
        out += num_routes(v[1])
    # de-duplicate expressions, keep first name
    seen = set()
    res = []
    for name, e in out:
        if e in seen:
            continue
        seen.add(e)
        res.append((name, e))
    return res


def num_routes(x):
    """Extra routes for numbers: arithmetic that is exact in IEEE double arithmetic
    (Python evaluates the same expression in the same arithmetic and we assert it)."""
    out = []

    def add(name, expr, pyval):
        # Python evaluates the same expression in the same (IEEE double) arithmetic: a route whose
        # Python value is not exactly x is simply not a route for x
        if pyval == x and math.copysign(1.0, pyval) == math.copysign(1.0, x):
            out.append((name, expr))

    if math.isinf(x):
        if x > 0:
            add('div0', '(/ 1 0)', math.inf)
            add('overflow', '(* 1e308 10)', 1e308 * 10)
            add('scan', '(scan-number "1e999")', math.inf)
        else:
            add('div0', '(/ -1 0)', -math.inf)
            add('neg', '(- math/inf)', -math.inf)
            add('overflow', '(* -1e308 10)', -1e308 * 10)
        return out
    if x == 0:
        if math.copysign(1.0, x) > 0:
            add('sub', '(- 1 1)', 1.0 - 1.0)
            add('mul', '(* 0 5)', 0.0 * 5.0)
            add('scan', '(scan-number "0.0")', 0.0)
            add('scan-hex', '(scan-number "0x0")', 0.0)
            add('neg-neg', '(- (- 0))', -(-0.0))
            add('add-zeros', '(+ (- 0) 0)', -0.0 + 0.0)
        else:
            add('mul', '(* -1 0)', -1.0 * 0.0)
            add('div-inf', '(/ -1 math/inf)', -1.0 / math.inf)
            add('scan', '(scan-number "-0")', -0.0)
            add('scan-float', '(scan-number "-0.0")', -0.0)
            add('parse', '(parse "-0")', -0.0)
            add('parse-float', '(parse "-0.0")', -0.0)
            add('underflow', '(* -5e-324 0.5)', -5e-324 * 0.5)
        return out
    if x == math.trunc(x) and abs(x) < 2 ** 62:
        i = int(x)
        add('add', '(+ %d 1)' % (i - 1), float(i - 1) + 1.0) if float(i - 1) + 1.0 == x else None
        add('sub', '(- %d 1)' % (i + 1), float(i + 1) - 1.0) if float(i + 1) - 1.0 == x else None
        add('scan-hex', '(scan-number "%s0x%x")' % ('-' if i < 0 else '', abs(i)), float(i))
        add('scan-float', '(scan-number "%d.0")' % i, float(i))
        add('mul', '(* %d 1)' % i, float(i) * 1.0)
        add('trunc', '(math/trunc %d)' % i, float(i))
        if abs(i) <= 2 ** 53:
            add('of-s64', '(int/to-number (int/s64 "%d"))' % i, float(i))
        if i % 2 == 0:
            add('double', '(* %d 2)' % (i // 2), float(i // 2) * 2.0)
    else:
        add('half-sum', '(+ %r %r)' % (x / 2, x / 2), x / 2 + x / 2)
        add('scan', '(scan-number "%r")' % x, x)
        add('mul', '(* %r 1)' % x, x * 1.0)
    return out
