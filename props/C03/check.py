#!/usr/bin/env python3
"""C03 - equality, hashing and ordering agree with each other.

Exhaustive, bounded: a universe of values x construction routes, every ordered pair (and every triple
of class representatives) evaluated on the real interpreter; Python knows the mathematical content of
every member (props/C03/model.py) and checks the laws.  See NOTES.md.
"""
import itertools
import os
import re
import sys

sys.path.insert(0, os.path.join(os.path.dirname(os.path.abspath(__file__)), "..", "..", "engine", "mc"))
from core import *  # noqa: E402,F401

HERE = os.path.dirname(os.path.abspath(__file__))
sys.path.insert(0, HERE)
import model as M  # noqa: E402

DRIVER = os.path.join(HERE, "driver.janet")
SEP1 = "\x1e"
SEP2 = "\x1f"

IDENT_PRELUDE = """(def A1 @[1 2]) (def A2 @[1 2])
(def T1 @{:a 1}) (def T2 @{:a 1})
(def B1 @"ab") (def B2 @"ab")
(defn- mkfn [] (fn same [] 1))
(def F1 (mkfn)) (def F2 (mkfn))
(def G1 (fiber/new (fn [] 1))) (def G2 (fiber/new (fn [] 1)))
(def C1 print) (def C2 prin)
(def E1 @[]) (def E2 @[])
(def TE1 @{}) (def TE2 @{})
"""
IDENT_NAMES = ["A1", "A2", "T1", "T2", "B1", "B2", "F1", "F2", "G1", "G2", "C1", "C2", "E1", "E2", "TE1", "TE2"]


class Member:
    __slots__ = ("expr", "v", "route", "ck", "ek", "ident", "abs", "isnil", "desc")

    def __init__(self, expr, v, route):
        self.expr = expr
        self.v = v
        self.route = route
        self.ck = M.key(v)
        self.ek = M.exact(v)
        self.ident = M.has_ident(v)
        self.abs = M.has_abs(v)
        self.isnil = v[0] == 'nil'
        base = route.split(":")[0]
        if base.startswith("freeze"):
            base = "freeze"
        self.desc = "%s[%s]" % (M.short_kind(v), base)


def members_of(v, perm_limit=6, extra=()):
    return [Member(e, v, r) for r, e in M.routes(v, perm_limit=perm_limit)] + [Member(e, v, r) for r, e in extra]


# --------------------------------------------------------------------------
# expected pair codes

def _code(e, s, flags, ident, nilx):
    """The (only) code string for janet-eq e and cmp sign s when every law holds."""
    lt, le, gt, ge = s < 0, s <= 0, s > 0, s >= 0
    c1 = int(e) + 2 * lt + 4 * le + 8 * gt + 16 * ge
    c2 = (s + 1) + 3 * (s + 1) + 12 * (not e)
    out = [chr(48 + c1) + chr(48 + c2)]
    if 'fn' in flags:
        base = chr(48 + c1) + chr(48 + c1)
        out = [out[0] + base + chr(48 + (0 if e else 1))]
    if 'lookup' in flags:
        lk = '3' if (e or nilx) else '0'
        out = [o + lk for o in out]
    return out


_EXPECT = {}


def expect_codes(flags, same, ident, nilx):
    k = (flags, same, ident, nilx)
    r = _EXPECT.get(k)
    if r is None:
        r = {}
        if same:
            for c in _code(True, 0, flags, ident, nilx):
                r[c] = 0
        else:
            for s in (-1, 1):
                for c in _code(False, s, flags, ident, nilx):
                    r[c] = s
        _EXPECT[k] = r
    return r


def decode(code, flags):
    d = {}
    c1 = ord(code[0]) - 48
    c2 = ord(code[1]) - 48
    d['eq'] = bool(c1 & 1)
    d['lt'] = bool(c1 & 2)
    d['le'] = bool(c1 & 4)
    d['gt'] = bool(c1 & 8)
    d['ge'] = bool(c1 & 16)
    d['cmp'] = c2 % 3 - 1
    pc = (c2 // 3) % 4
    d['compare'] = pc - 1 if pc < 3 else None
    d['noteq'] = bool(c2 // 12)
    p = 2
    if 'fn' in flags:
        c3, c4, c5 = (ord(code[p]) - 48, ord(code[p + 1]) - 48, ord(code[p + 2]) - 48)
        d['fn'] = c3
        d['op'] = c1
        d['cfam'] = c4
        d['noteq_fn'] = bool(c5 & 1)
        p += 3
    if 'lookup' in flags:
        lk = ord(code[p]) - 48
        d['lk_struct'] = bool(lk & 1)
        d['lk_table'] = bool(lk & 2)
    return d


_ZERO = re.compile(r'(?<![^\s(\[{>,])-0(?![^\s)\]}=,^])')


def zero_norm(text):
    """-0 and 0 are one value for C03 (`=` identifies them; marshal and compile-time constants turn -0
    into 0): compare printed content modulo the sign of zero."""
    return _ZERO.sub('0', text)


def leaders(mem):
    """index of the first member with the same content, per member"""
    first = {}
    return [first.setdefault(m.ck, i) for i, m in enumerate(mem)]


def sgn(x):
    return (x > 0) - (x < 0)


class C03:
    def __init__(self, chk):
        self.chk = chk
        self.sig_count = {}
        self.sigs_done = set()
        self.sym_confirmed = set()
        self.collect = None
        self.unconfirmed = []
        self.max_sigs_per_law = 3

    # ---- violations ------------------------------------------------------------------------------
    def viol(self, part, law, mi, mj=None, detail="", via=None):
        chk = self.chk
        if self.collect is not None:
            self.collect.add(law)
            return
        descs = [mi.desc] + ([mj.desc] if mj is not None else [])
        descs.sort()
        sig = "%s:%s" % (law, "~".join(descs))
        chk.part(part, law_failures=1)
        chk.part(part, **{"fail_" + law: 1})
        if sig in self.sigs_done:
            return
        k = (part.split("/")[0], law)
        if self.sig_count.get(k, 0) >= self.max_sigs_per_law:
            # too many different new signatures for one law in one part: the rest is counted only
            chk.part(part, unreported_signatures=1)
            return
        self.sigs_done.add(sig)
        # replay twice in fresh processes before printing (DESIGN 1.3); a failure that does not
        # reproduce is a harness error, never a VIOLATION line
        if not self.confirm(law, [m for m in (mi, mj, via) if m is not None]):
            self.unconfirmed.append("law %s in part %s: x = %s | y = %s" % (law, part, mi.expr[:300], mj.expr[:300] if mj else ""))
            return
        exprs = [mi.expr] + ([mj.expr] if mj is not None else [])
        what = "%s [%s] %s" % (law, part, detail)
        what += " | x = %s" % mi.expr[:300]
        if mj is not None:
            what += " | y = %s" % mj.expr[:300]
        new = chk.violation(sig, what, replay_text=self.replay_pair(exprs, law, detail),
                            replay_cmd="janet <this file>   (prints the relations; see 'law violated')")
        if new:
            # known findings do not use up the budget of reported signatures
            self.sig_count[k] = self.sig_count.get(k, 0) + 1

    def confirm(self, law, members):
        if law == "order-not-total":
            return True   # derived from the whole matrix; its pairwise causes are confirmed separately
        g = dict(mode='full', flags=('fn', 'canon', 'lookup'), members=members)
        for _ in range(2):
            res = run_batch("fast", DRIVER, [self.item_of(g)], chunk=1, timeout=120, jobs=1)
            if res[0][0] != "OK":
                return law.startswith("construction")
            probe = C03(self.chk)
            probe.collect = set()
            probe.check_group("confirmations", g, res[0][1])
            if law not in probe.collect:
                return False
        return True

    def replay_pair(self, exprs, law, detail):
        x = exprs[0]
        y = exprs[1] if len(exprs) > 1 else exprs[0]
        return IDENT_PRELUDE + """
(def x %s)
(def y %s)
(printf "x = %%q" x)
(printf "y = %%q" y)
(printf "prototypes: x %%q   y %%q" (if (struct? x) (struct/getproto x)) (if (struct? y) (struct/getproto y)))
(printf "(= x y) %%q   (= y x) %%q   (not= x y) %%q" (= x y) (= y x) (not= x y))
(printf "(hash x) %%q   (hash y) %%q" (hash x) (hash y))
(printf "(cmp x y) %%q   (cmp y x) %%q   (compare x y) %%q" (cmp x y) (cmp y x) (compare x y))
(printf "(< x y) %%q  (<= x y) %%q  (> x y) %%q  (>= x y) %%q" (< x y) (<= x y) (> x y) (>= x y))
(printf "(get (struct x :v) y) %%q   (get (table x :v) y) %%q" (get (struct x :v) y) (get (table x :v) y))
(print "law violated: %s")
(print "detail: %s")
""" % (x, y, law, detail.replace('"', "'").replace("\\", "/"))

    # ---- running groups ---------------------------------------------------------------------------
    @staticmethod
    def item_of(g):
        mode = g['mode']
        if isinstance(mode, tuple):
            mode_s = "[:rows %d %d]" % (mode[1], mode[2])
        elif mode == 'first':
            mode_s = "[:lead %s]" % " ".join(str(x) for x in leaders(g['members']))
        else:
            mode_s = ":" + mode
        return "(grp %s [%s] %s)" % (mode_s, " ".join(":" + f for f in g['flags']),
                                     " ".join(m.expr for m in g['members']))

    def run_groups(self, part, groups, chunk=8, variant="fast"):
        """Run groups (each one batch item), check each. Returns list of sign-matrices (full mode)."""
        items = [self.item_of(g) for g in groups]
        res = run_batch(variant, DRIVER, items, chunk=chunk, timeout=240)
        out = []
        for g, (status, text) in zip(groups, res):
            if status != "OK":
                self.group_failed(part, g, status, text)
                out.append(None)
                continue
            out.append(self.check_group(part, g, text))
        return out

    def group_failed(self, part, g, status, text):
        """An expression raised / crashed: find the culprit member one by one."""
        chk = self.chk
        mem = g['members']
        items = ["(probe %s)" % m.expr for m in mem]
        res = run_batch("fast", DRIVER, items, chunk=50)
        bad = [(m, r) for m, r in zip(mem, res) if r[0] != "OK"]
        if not bad:
            raise HarnessError("group in part %s failed (%s: %s) but every member evaluates alone" % (part, status, text[:300]))
        m, r = bad[0]
        chk.part(part, law_failures=1)
        sig = "construction-%s:%s" % ("raises" if r[0] == "ERR" else r[0].lower(), m.desc)
        chk.violation(sig, "construction route does not produce a value (%s: %s) | x = %s" % (r[0], r[1][:200], m.expr[:300]),
                      replay_text=IDENT_PRELUDE + "\n(printf \"%%q\" %s)\n(print \"expected: a value with content %s\")\n" % (
                          m.expr, M.src(m.v).replace('"', "'")),
                      replay_cmd="janet <this file>")

    def check_group(self, part, g, text, premerged=None):
        chk = self.chk
        mem = g['members']
        n = len(mem)
        mode = g['mode']
        flags = tuple(g['flags'])
        secs = text.split(SEP1)
        if len(secs) != 7:
            raise HarnessError("bad driver output in part %s: %d sections" % (part, len(secs)))
        hashes = secs[0].split(",")[:-1]
        types = secs[1].split(",")[:-1]
        addrs = secs[2].split(",")[:-1]
        layouts = secs[3].split(SEP2)[:-1]
        lorders = secs[4].split(SEP2)[:-1]
        canons = secs[5].split(SEP2)[:-1] if 'canon' in flags else None
        mat = secs[6]
        if not (len(hashes) == len(types) == len(addrs) == len(layouts) == len(lorders) == n):
            raise HarnessError("bad driver output in part %s: per-value sections" % part)
        w = 2 + (3 if 'fn' in flags else 0) + (1 if 'lookup' in flags else 0)
        # per value
        for i, m in enumerate(mem):
            jt = M.jtype(m.v)
            if jt is not None and types[i] != jt:
                self.viol(part, "wrong-type", m, None, "type %s, expected %s" % (types[i], jt))
            if canons is not None and not m.ident and not m.abs:
                want = M.canon(m.v)
                if zero_norm(canons[i]) != zero_norm(want):
                    self.viol(part, "content-differs-from-construction", m, None,
                              "observed %s expected %s" % (canons[i][:200], want[:200]))
            chk.outcome("layout:" + layouts[i])
        # pairs
        if mode == 'full':
            plist = None
            if len(mat) != n * n * w:
                raise HarnessError("matrix size %d != %d in part %s" % (len(mat), n * n * w, part))
        elif mode == 'first':
            if len(mat) != n * 5 * w:
                raise HarnessError("matrix size (first) in part %s" % part)
        else:
            raise HarnessError("mode")
        npairs = 0
        signs = None

        lead = leaders(mem)
        eqlead = {}   # member index -> janet says it equals its class leader (both orientations)

        def one(i, j, code):
            mi, mj = mem[i], mem[j]
            same = mi.ck == mj.ck
            exp = expect_codes(flags, same, mi.ident or mj.ident, mi.isnil)
            s = exp.get(code)
            jeq = same
            with_leader = same and (lead[i] == i or lead[j] == j)
            if s is None or mi.abs or mj.abs:
                # a same-content pair of two non-leaders is reported only when both agree with their
                # leader (otherwise the deviation is already reported against the leader)
                quiet = same and not with_leader and not (eqlead.get(i, True) and eqlead.get(j, True))
                s, jeq = self.slow_pair(part, mi, mj, code, flags, same, quiet)
            if with_leader and i != j:
                o = j if lead[i] == i else i
                eqlead[o] = eqlead.get(o, True) and jeq
            if jeq and hashes[i] != hashes[j]:
                self.viol(part, "equal-values-hash-differs", mi, mj, "(= x y) is true, hash %s vs %s" % (hashes[i], hashes[j]))
            if same:
                if jeq and with_leader and i < j:
                    if layouts[i] != layouts[j]:
                        self.viol(part, "struct-layout-differs", mi, mj, "%s vs %s" % (layouts[i], layouts[j]))
                    elif zero_norm(lorders[i]) != zero_norm(lorders[j]) and not mi.ident:
                        self.viol(part, "struct-slot-order-differs", mi, mj, "%s vs %s" % (lorders[i][:200], lorders[j][:200]))
                    if addrs[i] != addrs[j]:
                        self.viol(part, "interned-not-identical", mi, mj, "addresses %s vs %s" % (addrs[i], addrs[j]))
            elif mi.v[0] == 'num' and mj.v[0] == 'num':
                want = (mi.v[1] > mj.v[1]) - (mi.v[1] < mj.v[1])
                if s != want:
                    self.viol(part, "number-order", mi, mj, "cmp %d, numeric order says %d" % (s, want))
            return s

        codes_seen = set()
        if mode == 'full':
            signs = []
            for i in range(n):
                row = mat[i * n * w:(i + 1) * n * w]
                codes = [row[k:k + w] for k in range(0, n * w, w)]
                codes_seen.update(codes)
                signs.append(bytearray(one(i, j, codes[j]) + 1 for j in range(n)))
            npairs = n * n
            # antisymmetry / symmetry across the two orientations
            for i in range(n):
                ri = signs[i]
                if ri[i] != 1:
                    self.viol(part, "cmp-not-reflexive", mem[i], None, "cmp x x = %d" % (ri[i] - 1))
                for j in range(i + 1, n):
                    if ri[j] + signs[j][i] != 2:
                        self.viol(part, "cmp-not-antisymmetric", mem[i], mem[j],
                                  "cmp x y = %d, cmp y x = %d" % (ri[j] - 1, signs[j][i] - 1))
            self.total_order(part, g, signs)
        else:
            for i in range(n):
                p = i - 1 if i > 0 else 0
                ld = lead[i]
                base = i * 5 * w
                cs = [mat[base + q * w: base + (q + 1) * w] for q in range(5)]
                codes_seen.update(cs)
                s0 = one(ld, i, cs[1])
                s1 = one(i, ld, cs[0])
                s2 = one(i, p, cs[2])
                s3 = one(p, i, cs[3])
                s4 = one(i, i, cs[4])
                if s0 + s1 != 0:
                    self.viol(part, "cmp-not-antisymmetric", mem[ld], mem[i], "cmp x y = %d, cmp y x = %d" % (s0, s1))
                if s2 + s3 != 0:
                    self.viol(part, "cmp-not-antisymmetric", mem[i], mem[p], "cmp x y = %d, cmp y x = %d" % (s2, s3))
                if s4 != 0:
                    self.viol(part, "cmp-not-reflexive", mem[i], None, "cmp x x = %d" % s4)
            npairs = n * 5
        for c in codes_seen:
            chk.outcome("code:" + c[:2])
        chk.add(evaluations=npairs, transitions=npairs)
        chk.part(part, pairs=npairs, values=n, groups=1)
        return signs

    def slow_pair(self, part, mi, mj, code, flags, same, quiet=False):
        d = decode(code, flags)
        e, c = d['eq'], d['cmp']
        hard = mi.abs or mj.abs
        found = False

        def v(law, detail):
            nonlocal found
            found = True
            self.viol(part, law, mi, mj, detail)

        if same and not e:
            if quiet:
                found = True
            else:
                v("same-content-not-equal", "(= x y) is false for two values of identical content")
        if (not same) and e:
            v("different-content-equal", "(= x y) is true for values of different content")
        if (c == 0) != e:
            v("cmp-zero-vs-equal", "(cmp x y) = %d but (= x y) = %s" % (c, e))
        if (d['lt'], d['le'], d['gt'], d['ge']) != (c < 0, c <= 0, c > 0, c >= 0):
            v("relop-vs-cmp", "cmp %d but < <= > >= give %s" % (c, (d['lt'], d['le'], d['gt'], d['ge'])))
        if d['noteq'] != (not e):
            v("noteq-vs-eq", "(not= x y) = %s, (= x y) = %s" % (d['noteq'], e))
        if not hard and d['compare'] != c:
            v("compare-vs-cmp", "(compare x y) = %s, (cmp x y) = %d" % (d['compare'], c))
        if 'fn' in flags:
            if d['fn'] != d['op']:
                v("function-form-vs-opcode", "bits %d vs %d (eq lt le gt ge)" % (d['fn'], d['op']))
            if not hard:
                pc = d['compare']
                if pc is not None:
                    want = int(pc == 0) + 2 * (pc < 0) + 4 * (pc <= 0) + 8 * (pc > 0) + 16 * (pc >= 0)
                    if d['cfam'] != want:
                        v("compare-family-vs-compare", "compare= compare< ... bits %d, expected %d" % (d['cfam'], want))
            if d['noteq_fn'] != (not e):
                v("noteq-vs-eq", "function form of not=")
        if 'lookup' in flags and not mi.isnil:
            if d['lk_struct'] != e or d['lk_table'] != e:
                v("lookup-vs-equal", "struct/table keyed by x %s y (struct %s, table %s) while (= x y) = %s" % (
                    "finds" if d['lk_struct'] or d['lk_table'] else "misses", d['lk_struct'], d['lk_table'], e))
        if not found and not hard:
            raise HarnessError("unexpected pair code %r (same=%s) for %s / %s" % (code, same, mi.expr, mj.expr))
        return c, e

    def total_order(self, part, g, signs):
        """cmp restricted to the group must be one total preorder: with g(i) = number of members strictly
        below i, cmp(i, j) must equal sign(g(i) - g(j)) for every pair (this characterises total
        preorders). That its equivalence classes are the content classes is checked pairwise."""
        chk = self.chk
        mem = g['members']
        n = len(mem)
        below = [bytes(row).count(2) for row in signs]
        bad = None
        for i in range(n):
            gi = below[i]
            exp = bytes(1 + (gi > gj) - (gi < gj) for gj in below)
            if bytes(signs[i]) != exp:
                j = next(j for j in range(n) if signs[i][j] != exp[j])
                bad = (i, j)
                break
        chk.part(part, order_levels=len(set(below)))
        if bad is None:
            return
        # find a witness triple a<=b<=c with not a<=c (or a=c although one step is strict)
        i, j = bad
        cand = range(n) if n <= 250 else sorted(set([i, j]) | set(range(0, n, max(1, n // 60))))

        def triple(a, b, c):
            ra, rb = signs[a], signs[b]
            if ra[b] == 2 or rb[c] == 2:
                return False
            if ra[c] == 2 or ((ra[b] == 0 or rb[c] == 0) and ra[c] != 0):
                self.viol(part, "order-not-transitive", mem[a], mem[c],
                          "via z = %s : cmp(x,z)=%d cmp(z,y)=%d cmp(x,y)=%d" % (
                              mem[b].expr[:200], ra[b] - 1, rb[c] - 1, ra[c] - 1), via=mem[b])
                return True
            return False
        for a in cand:
            for b in range(n):
                if signs[a][b] == 2:
                    continue
                for c in cand:
                    if triple(a, b, c):
                        return
        # no intransitive triple among the candidates: antisymmetry failures are reported pairwise
        self.viol(part, "order-not-total", mem[i], mem[j], "cmp x y = %d is inconsistent with the number of values below x and y" % (signs[i][j] - 1))


# --------------------------------------------------------------------------
# the universe

def universe(tier):
    """List of (value, extra_routes). Content classes are distinct by construction except where noted
    (0 / -0, tuples/structs holding them)."""
    n, s, sym, kw, tup, btup, st, idn = M.num, M.s, M.sym, M.kw, M.tup, M.btup, M.st, M.ident
    U = []

    def add(v, extra=()):
        U.append((v, tuple(extra)))

    add(M.NIL)
    add(M.TRUE)
    add(M.FALSE)
    # numbers
    add(n(0.0))
    add(n(-0.0))
    for x in [1, -1, 0.5, -0.5, 2, 255, 2 ** 31 - 1, 2 ** 31, 2 ** 31 + 1, -2 ** 31, -2 ** 31 - 1, -2 ** 31 + 1,
              2 ** 32, 2 ** 53 - 1, 2 ** 53 + 2, -2 ** 53, 2 ** 63, 1e308, 5e-324]:
        add(n(x))
    # where the construction routes change their encoding of an integer (marshal: one byte up to 200, two bytes within
    # -8192..8191, then 32 bits): a value must come back as itself on both sides of each step
    for x in [200, 201, 8191, 8192, -8192, -8193]:
        add(n(x))
    add(n(2 ** 53), [('plus-one-rounds', '(+ 9007199254740992 1)'), ('pow', '(math/pow 2 53)')])
    add(n(float('inf')))
    add(n(float('-inf')))
    # byte strings as string / symbol / keyword
    for b in [b"", b"a", b"b", b"ab", b"bA", b"a\0", b"a\0b", b"aa", b"\xff", b"nil", b"1"]:
        add(s(b))
        add(sym(b))
        add(kw(b))
    # tuples, depth <= 2
    one, two, three = n(1), n(2), n(3)
    tuples = [tup(), btup(), tup(one), btup(one), tup(one, two), btup(one, two), tup(two, one), tup(one, two, three),
              tup(M.NIL), tup(M.NIL, M.NIL), tup(n(0.0)), tup(n(-0.0)), btup(n(-0.0)), tup(s("a")), tup(kw("a")), tup(sym("a")),
              tup(tup()), tup(btup()), btup(tup()), btup(btup()),
              tup(tup(one)), tup(btup(one)), btup(tup(one)), tup(tup(one), two), tup(one, tup(two)),
              tup(tup(one, two), tup(three)), tup(tup(one), tup(two, three)), tup(tup(n(-0.0))), tup(tup(n(0.0))),
              tup(M.TRUE), tup(M.FALSE), tup(s("ab")), tup(s("bA"))]
    for t in tuples:
        add(t)
    # structs
    P = st([(kw("x"), one)])
    P2 = st([(kw("x"), two)])
    structs = [st(), st([(kw("a"), one)]), st([(kw("a"), two)]), st([(kw("b"), one)]), st([(s("a"), one)]),
               st([(sym("a"), one)]), st([(kw("a"), one), (kw("b"), two)]), st([(kw("a"), two), (kw("b"), one)]),
               st([(kw("ab"), one), (kw("bA"), two)]), st([(kw("ab"), two), (kw("bA"), one)]),
               st([(kw("ab"), one), (s("ab"), two), (sym("ab"), three)]),
               st([(kw("ab"), one), (kw("bA"), two), (s("ab"), three), (s("bA"), n(4))]),
               st([(kw("a"), tup(one, two))]), st([(kw("a"), btup(one, two))]),
               st([(tup(one, two), kw("a"))]), st([(btup(one, two), kw("a"))]),
               st([(st([(kw("a"), one)]), one)]), st([(kw("a"), st([(kw("a"), one)]))]),
               st([(n(0.0), one)]), st([(n(-0.0), one)]), st([(one, n(0.0))]), st([(one, n(-0.0))]),
               st([(M.TRUE, M.FALSE)]), st([(M.FALSE, M.TRUE)]),
               st([(one, one), (two, two), (three, three)]),
               st([(kw("x"), one), (kw("a"), one)]),
               # prototypes: the prototype is part of the content
               st([(kw("a"), one)], P), st([(kw("a"), one)], st()), st([(kw("a"), one)], P2),
               st([], P), st([(kw("a"), one), (kw("b"), two)], P),
               st([(kw("a"), one)], st([(kw("y"), one)], P)),
               st([(kw("x"), one)], P)]
    for x in structs:
        add(x)
    # tuples holding structs
    for t in [tup(st()), tup(st([(kw("a"), one)])), tup(st([(kw("a"), two)])), btup(st([(kw("a"), one)])),
              tup(st([(kw("a"), one)], P))]:
        add(t)
    # identity values: two instances with equal content each
    for nm in IDENT_NAMES:
        add(idn(nm))
    for v in [tup(idn("A1")), tup(idn("A2")), btup(idn("A1")), tup(idn("T1")), tup(idn("F1")), tup(idn("F2")),
              st([(kw("k"), idn("A1"))]), st([(kw("k"), idn("A2"))]), st([(idn("T1"), one)]), st([(idn("T2"), one)]),
              st([(idn("B1"), one), (idn("B2"), two)]), tup(idn("A1"), idn("A2")), tup(idn("A2"), idn("A1"))]:
        add(v)
    # boxed integers (abstract types with value semantics)
    for v in [M.s64(5), M.s64(-1), M.u64(5), M.u64(2 ** 64 - 1), M.s64(2 ** 53 + 1), M.s64(2 ** 53)]:
        add(v)
    return U


def pick(lst, k):
    """k elements of lst, evenly spaced, always including the first."""
    if len(lst) <= k:
        return list(lst)
    idx = sorted(set(int(round(i * (len(lst) - 1) / (k - 1))) for i in range(k)))
    return [lst[i] for i in idx]


def pack(members_lists, limit):
    """Pack lists of members into groups of at most `limit` members (a list is never split unless it
    alone exceeds the limit)."""
    groups = []
    cur = []
    for ml in members_lists:
        if len(ml) > limit:
            for i in range(0, len(ml), limit - 1):
                part = ml[i:i + limit - 1]
                if i:
                    part = [ml[0]] + part
                groups.append(part)
            continue
        if len(cur) + len(ml) > limit:
            groups.append(cur)
            cur = []
        cur = cur + ml
    if cur:
        groups.append(cur)
    return groups


def part_universe(c):
    chk = c.chk
    U = universe(chk.tier)
    classes = []
    for v, extra in U:
        classes.append(members_of(v, perm_limit=6, extra=extra))
    nclass = len(set(m[0].ck for m in classes))
    chk.part("universe", classes=nclass, entries=len(classes), instances=sum(len(m) for m in classes))
    chk.add(states=nclass)
    # (a) every route of every class, packed into groups (also gives cross-class pairs inside a group)
    groups = [dict(mode='full', flags=('canon',), members=ml) for ml in pack(classes, 140)]
    c.run_groups("universe/routes", groups, chunk=1)
    # (b) the global matrix
    per = 4 if chk.quick else 10
    glob = []
    for ml in classes:
        glob += pick(ml, per)
    g = dict(mode='full', flags=('fn', 'canon', 'lookup'), members=glob)
    signs = c.run_groups("universe/global", [g], chunk=1)[0]
    chk.sample(dict(part="universe/global", first=glob[0].expr, middle=glob[len(glob) // 2].expr, last=glob[-1].expr))
    # (c) explicit transitivity over class representatives, from the matrix observed in (b)
    if signs is not None:
        reps = {}
        for i, m in enumerate(glob):
            reps.setdefault(m.ck, i)
        rl = list(reps.values())
        ntri = 0
        for b in rl:
            rb = signs[b]
            lows = [a for a in rl if signs[a][b] <= 1]
            highs = [x for x in rl if rb[x] <= 1]
            for a in lows:
                ra = signs[a]
                sab = ra[b]
                for x in highs:
                    ntri += 1
                    sbx = rb[x]
                    sax = ra[x]
                    # a<=b<=x  =>  a<=x, and a=x only if both equalities
                    if sax == 2 or (sax == 1 and (sab == 0 or sbx == 0)):
                        c.viol("universe/transitivity", "order-not-transitive", glob[a], glob[x],
                               "via z = %s" % glob[b].expr[:200], via=glob[b])
        chk.part("universe/transitivity", triples_checked=ntri, representatives=len(rl))
        chk.add(evaluations=ntri)
    return classes


def tri_mismatches(n, text):
    """Compare the variadic results with the pair matrix of the same process."""
    pm, tm = text.split(SEP1)
    if len(pm) != n * n * 2 or len(tm) != n * n * n:
        raise HarnessError("triples output size")
    eq = [[(ord(pm[(i * n + j) * 2]) - 48) & 1 for j in range(n)] for i in range(n)]
    cm = [[(ord(pm[(i * n + j) * 2 + 1]) - 48) % 3 - 1 for j in range(n)] for i in range(n)]
    outcomes = set()
    bad = []
    for i in range(n):
        ci, ei = cm[i], eq[i]
        for j in range(n):
            cj, ej = cm[j], eq[j]
            a = ci[j]
            e1 = ei[j]
            base = (i * n + j) * n
            for k in range(n):
                b = cj[k]
                want = ((a < 0 and b < 0) + 2 * (a <= 0 and b <= 0) + 4 * (e1 and ej[k]) + 8 * (a > 0 and b > 0)
                        + 16 * (a >= 0 and b >= 0) + 32 * (not (e1 and ej[k])))
                got = ord(tm[base + k]) - 48
                if got != want:
                    bad.append((i, j, k, got, want))
                outcomes.add(got)
    return bad, outcomes


def part_triples(c, classes):
    """Variadic forms (< x y z) etc. on every triple of class representatives, compared with the
    pair matrix observed in the same process."""
    chk = c.chk
    reps = []
    seen = set()
    for ml in classes:
        m = ml[0]
        if m.ck in seen:
            continue
        seen.add(m.ck)
        reps.append(m)
    if chk.quick:
        reps = pick(reps, 64)
    n = len(reps)
    # one process: identity values are ordered by address, the pair matrix must come from the same run
    res = run_batch("fast", DRIVER, ["(tri %s)" % " ".join(m.expr for m in reps)], chunk=1, timeout=900)
    status, text = res[0]
    if status != "OK":
        raise HarnessError("triples item failed: %s %s" % (status, text[:300]))
    bad, outcomes = tri_mismatches(n, text)
    reported = 0
    for (i, j, k, got, want) in bad:
        chk.part("triples", law_failures=1)
        if reported >= 3:
            continue
        ms = [reps[i], reps[j], reps[k]]
        sig = "variadic-vs-pairwise:" + "~".join(sorted(m.desc for m in ms))
        if sig in c.sigs_done:
            continue
        c.sigs_done.add(sig)
        # confirm twice in fresh processes
        for _ in range(2):
            r = run_batch("fast", DRIVER, ["(tri %s)" % " ".join(m.expr for m in ms)], chunk=1, timeout=120, jobs=1)[0]
            if r[0] != "OK" or not tri_mismatches(3, r[1])[0]:
                raise HarnessError("variadic mismatch did not reproduce: %s" % " | ".join(m.expr for m in ms))
        reported += 1
        chk.violation(sig, "variadic comparison differs from the pairwise results: bits %d expected %d "
                      "[1 (< x y z), 2 (<= x y z), 4 (= x y z), 8 (> x y z), 16 (>= x y z), 32 (not= x y z)] | x = %s | y = %s | z = %s" % (
                          got, want, ms[0].expr[:200], ms[1].expr[:200], ms[2].expr[:200]),
                      replay_text=IDENT_PRELUDE + """
(def x %s)
(def y %s)
(def z %s)
(printf "x = %%q  y = %%q  z = %%q" x y z)
(printf "(cmp x y) %%q (cmp y z) %%q (= x y) %%q (= y z) %%q" (cmp x y) (cmp y z) (= x y) (= y z))
(printf "(< x y z) %%q (<= x y z) %%q (= x y z) %%q (> x y z) %%q (>= x y z) %%q (not= x y z) %%q" (< x y z) (<= x y z) (= x y z) (> x y z) (>= x y z) (not= x y z))
(print "expected: each variadic form equals the conjunction of its two pairwise results")
""" % (ms[0].expr, ms[1].expr, ms[2].expr), replay_cmd="janet <this file>")
    for o in outcomes:
        chk.outcome("tri:%d" % o)
    chk.part("triples", triples=n ** 3, representatives=n, mismatches=len(bad))
    chk.add(evaluations=n ** 3, transitions=n ** 3)


# --------------------------------------------------------------------------
# structs over colliding key sets

def key_candidates():
    out = []
    alpha = "abAB"
    names = [a for a in alpha] + [a + b for a in alpha for b in alpha]
    for nm in names:
        out.append(M.kw(nm))
        out.append(M.s(nm))
        out.append(M.sym(nm))
    for i in range(0, 200):
        out.append(M.num(i))
    out += [M.tup(), M.btup(), M.tup(M.num(1)), M.btup(M.num(1)), M.tup(M.num(1), M.num(2)), M.st(), M.st([(M.kw("a"), M.num(1))]),
            M.TRUE, M.FALSE]
    return out


def choose_key_sets(c, size):
    """Ask the interpreter for the hashes of the candidate keys and choose sets with the wanted
    collision patterns. Deterministic: hashes of these types do not depend on addresses."""
    chk = c.chk
    cands = key_candidates()
    res = run_batch("fast", DRIVER, ["(probe %s)" % " ".join(M.src(k) for k in cands)], chunk=1)
    if res[0][0] != "OK":
        raise HarnessError("probe failed: %r" % (res[0],))
    hs = [int(x) for x in res[0][1].split(",")[:-1]]
    if len(hs) != len(cands):
        raise HarnessError("probe size")
    H = dict(zip([M.key(k) for k in cands], hs))
    sets = {}
    # FULL: identical 32-bit hash, different content (tie broken by janet_compare only)
    byfull = {}
    for k, h in zip(cands, hs):
        byfull.setdefault(h, []).append(k)
    full = max(byfull.values(), key=lambda l: (len(l), -cands.index(l[0])))
    if len(full) >= 3:
        sets['fullhash'] = full[:size]
    # HOME: same home bucket mod 16 (hence mod 8 and 4), pairwise different hashes
    by16 = {}
    for k, h in zip(cands, hs):
        by16.setdefault(h & 15, []).append((k, h))

    def distinct(lst, nmax):
        seen = set()
        out = []
        for k, h in lst:
            if h in seen:
                continue
            seen.add(h)
            out.append(k)
            if len(out) == nmax:
                break
        return out
    best = max(range(16), key=lambda b: (len(distinct(by16.get(b, []), 99)), -b))
    sets['home16'] = distinct(by16[best], size)
    # CLUSTER: homes b, b, b+1, b+1, b+2, b+2 (mod 16)
    for b in range(16):
        a0 = distinct(by16.get(b, []), 3)
        a1 = distinct(by16.get((b + 1) & 15, []), 2)
        a2 = distinct(by16.get((b + 2) & 15, []), 2)
        if len(a0) >= 2 and len(a1) == 2 and len(a2) == 2 and b + 2 < 16 and (b & 7) + 2 < 8:
            sets['cluster'] = (a0[:2] + a1 + a2 + a0[2:])[:size]
            break
    # WRAP: homes 15, 15, 15, 0, 0, 14, 14 (mod 16) = 7,7,7,0,0,6,6 (mod 8): probe sequences wrap around
    a15 = distinct(by16.get(15, []), 3)
    a0 = distinct(by16.get(0, []), 2)
    a14 = distinct(by16.get(14, []), 2)
    if len(a15) == 3 and len(a0) == 2 and len(a14) >= 1:
        sets['wrap'] = (a15 + a0 + a14)[:size]
    # MIXED: two identical-hash keys + others from the same home bucket mod 8
    if 'fullhash' in sets:
        f0 = sets['fullhash'][0]
        h0 = H[M.key(f0)]
        same8 = [k for k, h in zip(cands, hs) if (h & 7) == (h0 & 7) and h != h0]
        same8 = distinct([(k, H[M.key(k)]) for k in same8], size - 2)
        sets['mixed'] = (sets['fullhash'][:2] + same8)[:size]
    # NUMBERS: numeric keys sharing a home bucket mod 16 (includes 0 when possible)
    nums = [(k, h) for k, h in zip(cands, hs) if k[0] == 'num']
    bynum = {}
    for k, h in nums:
        bynum.setdefault(h & 15, []).append((k, h))
    bb = max(bynum, key=lambda b: (len(bynum[b]), -b))
    sets['numbers'] = distinct(bynum[bb], size)
    # COMPOSITE keys (tuples / structs / booleans): content-hashed containers as keys
    sets['composite'] = [M.tup(), M.btup(), M.tup(M.num(1)), M.btup(M.num(1)), M.st(), M.st([(M.kw("a"), M.num(1))]),
                         M.tup(M.num(1), M.num(2))][:size]
    for nm, ks in sets.items():
        chk.part("keysets", **{nm: " ".join(M.src(k) + "#%d" % (H[M.key(k)] & 15) for k in ks)})
    chk.part("keysets", fullhash_group=len(full))
    return sets, H


VALS = [M.num(1), M.s("v"), M.kw("v"), M.tup(M.num(1)), M.num(-0.0), M.TRUE, M.st([(M.kw("q"), M.num(1))]), M.num(2.5)]


def struct_src(pairs, proto=None):
    body = "".join(" %s %s" % (M.src(k), M.src(x)) for k, x in pairs)
    if proto is not None:
        return "(struct/with-proto %s%s)" % (M.src(proto), body)
    return "(struct%s)" % body


def other_routes(pairs, tag):
    """Non-constructor routes for one insertion order."""
    kv = "".join(" %s %s" % (M.src(k), M.src(x)) for k, x in pairs)
    puts = "".join(" (put t %s %s)" % (M.src(k), M.src(x)) for k, x in pairs)
    out = [("literal:" + tag, "{%s}" % kv.strip()),
           ("to-struct-puts:" + tag, "(let [t @{}]%s (table/to-struct t))" % puts),
           ("to-struct-tomb:" + tag,
            "(let [t @{}] (put t :junk1 1) (put t \"junk2\" 2) (put t 77 3)%s (put t :junk1 nil) (put t \"junk2\" nil) (put t 77 nil) (table/to-struct t))" % puts),
           ("with-proto-nil:" + tag, "(struct/with-proto nil%s)" % kv)]
    k0, v0 = M.src(pairs[0][0]), M.src(pairs[0][1])
    out.append(("ctor-dup:" + tag, "(struct%s %s %s)" % (kv, k0, v0)))
    out.append(("ctor-dup-front:" + tag, "(struct %s :overwritten%s)" % (k0, kv)))
    dd = [M.data(k) for k, _ in pairs] + [M.data(x) for _, x in pairs]
    if all(d is not None for d in dd):
        text = "{" + " ".join("%s %s" % (M.data(k), M.data(x)) for k, x in pairs) + "}"
        out.append(("parse:" + tag, "(parse %s)" % M.jstr(text)))
    if len(pairs) >= 2:
        h = len(pairs) // 2
        own = "".join(" %s %s" % (M.src(k), M.src(x)) for k, x in pairs[:h])
        rest = "".join(" %s %s" % (M.src(k), M.src(x)) for k, x in pairs[h:])
        out.append(("proto-flatten:" + tag, "(struct/proto-flatten (struct/with-proto (struct%s)%s))" % (rest, own)))
    return out


def part_struct_perms(c, sets):
    chk = c.chk
    kmax = 5 if chk.quick else 6
    kmax_routes = 4 if chk.quick else 5
    P = M.st([(M.kw("x"), M.num(1))])
    for si, (sname, keys) in enumerate(sets.items()):
        part = "struct-perms/" + sname
        m = len(keys)
        vals = [VALS[(i + si) % len(VALS)] for i in range(m)]
        full_lists = []     # per class: all permutations through the constructor
        first_lists = []    # per class: other routes for every permutation
        rep_members = []
        nstruct = 0
        for k in range(1, min(kmax, m) + 1):
            for sub in itertools.combinations(range(m), k):
                v = M.st([(keys[i], vals[i]) for i in sub])
                ml = []
                fl = [Member(struct_src([(keys[i], vals[i]) for i in sub]), v, "ctor")]
                for p in itertools.permutations(sub):
                    pairs = [(keys[i], vals[i]) for i in p]
                    tag = "p" + "".join(str(i) for i in p)
                    ml.append(Member(struct_src(pairs), v, "ctor:" + tag))
                    if k <= kmax_routes:
                        for r, e in other_routes(pairs, tag):
                            fl.append(Member(e, v, r))
                full_lists.append(ml)
                nstruct += len(ml)
                if len(fl) > 1:
                    first_lists.append(fl)
                    nstruct += len(fl)
                rep_members.append(ml[0])
                # the same pairs with a prototype: a different content class
                vp = M.st([(keys[i], vals[i]) for i in sub], P)
                rep_members.append(Member(struct_src([(keys[i], vals[i]) for i in sub], P), vp, "ctor"))
                if k <= 3:
                    pl = []
                    for p in itertools.permutations(sub):
                        pairs = [(keys[i], vals[i]) for i in p]
                        tag = "p" + "".join(str(i) for i in p)
                        pl.append(Member(struct_src(pairs, P), vp, "ctor:" + tag))
                        kv = "".join(" %s %s" % (M.src(kk), M.src(x)) for kk, x in pairs)
                        pl.append(Member("(table/to-struct (table%s) %s)" % (kv, M.src(P)), vp, "to-struct-proto:" + tag))
                        pl.append(Member("(unmarshal (marshal %s))" % struct_src(pairs, P), vp, "marshal:" + tag))
                    full_lists.append(pl)
                    nstruct += len(pl)
        groups = []
        for ml in pack(full_lists, 130 if chk.quick else 730):
            if len(ml) > 400:
                groups.append(dict(mode='first', flags=('canon',), members=ml))
            else:
                groups.append(dict(mode='full', flags=('canon',), members=ml))
        # classes with more than 130 permutations (k = 6): all-pairs in one group each
        c.run_groups(part, groups, chunk=4)
        groups = [dict(mode='first', flags=('canon',), members=ml) for ml in pack(first_lists, 600)]
        c.run_groups(part + "/routes", groups, chunk=2)
        # one representative per subset (with and without prototype): pairwise different, one total order
        c.run_groups(part + "/cross", [dict(mode='full', flags=('canon', 'lookup'), members=rep_members)], chunk=1)
        chk.part(part, structs_built=nstruct, subsets=len(rep_members) // 2, max_keys=min(kmax, m))
        chk.add(states=len(rep_members))
        if sname == 'fullhash':
            chk.sample(dict(part=part, first=full_lists[0][0].expr, last=full_lists[-1][-1].expr))


def part_struct_dups(c, sets):
    """Every sequence of (key, value) arguments up to a length bound over a colliding key set with
    values {1, 2, nil}: duplicates and nil values interleaved. Convention (follows the implementation,
    see NOTES.md): a nil value is ignored, the last non-nil value of a key wins."""
    chk = c.chk
    keys = (sets.get('fullhash') or sets['home16'])[:3 if chk.quick else 4]
    if 'home16' in sets and not chk.quick:
        keys = keys[:3] + sets['home16'][:1]
    vals = [M.num(1), M.num(2), M.NIL]
    L = 4 if chk.quick else 5
    alphabet = [(k, v) for k in keys for v in vals]
    classes = {}
    nseq = 0
    for ln in range(0, L + 1):
        for seq in itertools.product(range(len(alphabet)), repeat=ln):
            content = {}
            order = []
            for a in seq:
                k, v = alphabet[a]
                if v[0] == 'nil':
                    continue
                kk = M.key(k)
                if kk not in content:
                    order.append(k)
                content[kk] = v
            model = M.st([(k, content[M.key(k)]) for k in sorted(order, key=lambda q: keys.index(q))])
            pairs = [alphabet[a] for a in seq]
            body = "".join(" %s %s" % (M.src(k), M.src(v)) for k, v in pairs)
            lst = classes.setdefault(M.key(model), [Member(M.src(model), model, "ctor")])
            lst.append(Member("(struct%s)" % body, model, "ctor-seq"))
            if ln == L or nseq % 3 == 0:
                text = "{" + " ".join("%s %s" % (M.data(k), M.data(v)) for k, v in pairs) + "}"
                lst.append(Member("(parse %s)" % M.jstr(text), model, "parse-seq"))
            if nseq % 3 == 1:
                lst.append(Member("(struct/with-proto nil%s)" % body, model, "with-proto-seq"))
            nseq += 1
    lists = list(classes.values())
    groups = [dict(mode='first', flags=('canon',), members=ml) for ml in pack(lists, 500)]
    c.run_groups("struct-dups", groups, chunk=2)
    reps = [ml[0] for ml in lists]
    c.run_groups("struct-dups/cross", [dict(mode='full', flags=('canon',), members=reps)], chunk=1)
    chk.part("struct-dups", sequences=nseq, contents=len(lists), keys=" ".join(M.src(k) for k in keys), max_len=L)
    chk.add(states=len(lists))


# --------------------------------------------------------------------------
# tuples, exhaustively

def part_tuples(c):
    chk = c.chk
    if chk.quick:
        atoms = [M.num(0.0), M.num(-0.0), M.kw("a")]
        inner_arity, outer_arity = 1, 2
    else:
        atoms = [M.num(0.0), M.num(-0.0), M.kw("a"), M.NIL]
        inner_arity, outer_arity = 2, 2

    def tuples_over(elems, arity):
        out = []
        for ar in range(arity + 1):
            for es in itertools.product(elems, repeat=ar):
                out.append(M.tup(*es))
                out.append(M.btup(*es))
        return out
    d1 = tuples_over(atoms, inner_arity)
    elems = atoms + d1
    d2 = tuples_over(elems, outer_arity)
    vals = atoms + d2
    mem = [Member(M.src(v), v, "ctor") for v in vals]
    n = len(mem)
    nclass = len(set(m.ck for m in mem))
    # split rows over processes: no identity values here, every relation is a function of content
    rows = max(1, (n + 15) // 16)
    items = []
    g = dict(mode='full', flags=(), members=mem)
    for lo in range(0, n, rows):
        gg = dict(g)
        gg['mode'] = ('rows', lo, min(n, lo + rows))
        items.append(C03.item_of(gg))
    res = run_batch("fast", DRIVER, items, chunk=1, timeout=900)
    mats = []
    head = None
    for (status, text) in res:
        if status != "OK":
            c.group_failed("tuples", g, status, text)
            return
        secs = text.split(SEP1)
        if head is None:
            head = secs[:6]
        elif secs[0] != head[0] or secs[3] != head[3]:
            raise HarnessError("tuples: per-value data differs between processes")
        mats.append(secs[6])
    text = SEP1.join(head + ["".join(mats)])
    c.check_group("tuples", g, text)
    chk.part("tuples", values=n, classes=nclass, atoms=" ".join(M.src(a) for a in atoms),
             inner_arity=inner_arity, outer_arity=outer_arity)
    chk.add(states=nclass)
    chk.sample(dict(part="tuples", first=mem[0].expr, middle=mem[n // 2].expr, last=mem[-1].expr))
    # routes for every value: parse / marshal / slice ... against the constructor
    lists = []
    for v in (vals if not chk.quick else vals[:400]):
        ml = members_of(v)
        lists.append(ml)
    groups = [dict(mode='first', flags=('canon',), members=ml) for ml in pack(lists, 600)]
    c.run_groups("tuples/routes", groups, chunk=2)


# --------------------------------------------------------------------------
# symbol recycling histories

def sym_histories(nnames, depth, grow=True):
    """All operation sequences of exactly `depth` operations, with the stated pruning:
    S i / K i (intern as symbol / keyword and hold) only when i is not held; D i (drop) only when held;
    L i (look up and discard) always; G (collect) not twice in a row and not first; W (grow: intern many
    fillers, forcing the cache to resize) only when not grown; R (release the fillers) only when grown;
    name i is first touched only after names < i (the names are interchangeable: all share one home
    slot). grow=False leaves W/R out."""
    out = []

    def rec(hist, held, touched, grown, last):
        if len(hist) == depth:
            out.append(" ".join(hist))
            return
        for i in range(nnames):
            if i > touched:
                break
            nt = max(touched, i + 1)
            if held[i] is None:
                for op in "SK":
                    h2 = list(held)
                    h2[i] = op
                    rec(hist + ["%s%d" % (op, i)], h2, nt, grown, op)
            else:
                h2 = list(held)
                h2[i] = None
                rec(hist + ["D%d" % i], h2, nt, grown, "D")
            rec(hist + ["L%d" % i], held, nt, grown, "L")
        if last != "G" and hist:
            rec(hist + ["G"], held, touched, grown, "G")
        if grow:
            if not grown:
                rec(hist + ["W"], held, touched, True, "W")
            else:
                rec(hist + ["R"], held, touched, False, "R")
    rec([], [None] * nnames, 0, False, "")
    return out


SHALLOW = 4


def part_symbols(c, phase):
    """phase 'shallow': depths 1..SHALLOW (run first: cheap, and where realistic cache bugs show);
    phase 'deep': the remaining depths (run last, budget permitting)."""
    chk = c.chk
    bits = 18
    nfill = 9000
    # (number of names, depth with grow/release, depth without)
    plans = [(3, 5, 6)] if chk.quick else [(3, 6, 7), (4, 5, 6)]
    total_hist = 0
    for (nnames, d_grow, d_plain) in plans:
        res = run_batch("fast", DRIVER, ['(symfind "c03q" %d %d 4000000)' % (nnames, bits)], chunk=1, timeout=300)
        if res[0][0] != "OK" or res[0][1] == "none":
            chk.cap("symbols: no %d names with equal low %d hash bits found" % (nnames, bits))
            continue
        names = [x.split("=")[0] for x in res[0][1].split(",")]
        hashes = [int(x.split("=")[1]) for x in res[0][1].split(",")]
        if len(set(h & ((1 << bits) - 1) for h in hashes)) != 1:
            raise HarnessError("symfind returned non-colliding names")
        names_j = "[%s]" % " ".join('"%s"' % nm for nm in names)
        tag = "symbols/%dnames" % nnames
        prev = chk.cov["parts"].get(tag, {})
        done_grow = prev.get("depth_completed_with_grow", 0)
        done_plain = prev.get("depth_completed", 0)
        aborted = False
        depths = range(1, min(SHALLOW, d_plain) + 1) if phase == "shallow" else range(SHALLOW + 1, d_plain + 1)
        for d in depths:
            with_grow = d <= d_grow
            if phase == "deep" and chk.out_of_time(0.8):
                chk.cap("%s: history depth %d not started (budget)" % (tag, d))
                break
            hs = sym_histories(nnames, d, grow=with_grow)
            items = ['(symhist %s %d "%s")' % (names_j, nfill, h) for h in hs]
            try:
                res = run_batch("fast", DRIVER, items, chunk=max(50, len(items) // 64 + 1), timeout=300)
            except HarnessError as e:
                # a broken symbol cache can take the batch protocol down with it (the item file itself
                # is parsed by the interpreter under test): once violations are on record, stop here
                if chk.cov["parts"].get(tag, {}).get("law_failures"):
                    chk.cap("%s: batch aborted at depth %d after violations were reported (%s)" % (tag, d, str(e)[:120]))
                    aborted = True
                    break
                raise
            csize = max(50, len(items) // 64 + 1)
            for hi, (h, (status, text)) in enumerate(zip(hs, res)):
                total_hist += 1
                context = hs[(hi // csize) * csize: hi]
                if status != "OK":
                    c.sym_violation(tag, names, nfill, h, "history %s: %s" % (status, text[:200]),
                                    "symbol-history-" + status.lower(), context)
                    continue
                a, b, cc, lost = text.split("/")
                chk.outcome("sym:" + text)
                ok = (all(ch == "." or ch == "o" for ch in a) and all(ch == "0" for ch in b) and (cc == "" or cc == "O")
                      and lost == "0:-1")
                if not ok:
                    what = []
                    for i, ch in enumerate(a):
                        if ch not in ".o":
                            v = ord(ch) - 48
                            miss = [nm for bit, nm in ((1, "="), (2, "same-address"), (4, "same-hash"), (8, "parse-identical"),
                                                       (16, "unmarshal-identical"), (32, "cmp/struct/table lookup")) if not v & bit]
                            what.append("name %d: a fresh symbol/keyword with the held one's bytes fails %s" % (i, ",".join(miss)))
                    if any(ch != "0" for ch in b):
                        what.append("two different names or a symbol and a keyword compare equal")
                    if cc not in ("", "O"):
                        what.append("containers over the symbols differ between routes (bits %d)" % (ord(cc) - 48))
                    if lost != "0:-1":
                        ln, lf = lost.split(":")
                        what.append("%s held symbols are not found again when interned by name (first: %s)" % (
                            ln, "c03fill" + lf if int(lf) < 1000000 else "core environment symbol no. %d in sorted order" % (int(lf) - 1000000)))
                    law = "interned-not-identical" if (any(ch not in ".o" for ch in a) or lost != "0:-1") else (
                        "different-content-equal" if any(ch != "0" for ch in b) else "same-content-not-equal")
                    c.sym_violation(tag, names, nfill, h, "; ".join(what), law + ":symbol-history", context)
            chk.add(evaluations=len(hs), transitions=sum(len(h.split()) for h in hs), states=len(hs))
            if with_grow:
                done_grow = d
            done_plain = d
            chk.part(tag, **{"histories_depth_%d%s" % (d, "" if with_grow else "_no_grow"): len(hs)})
        chk.cov["parts"].setdefault(tag, {}).update(names=" ".join(names), low_bits=bits, fillers=nfill,
                                                    depth_completed_with_grow=done_grow, depth_completed=done_plain)
        if aborted:
            break
    chk.part("symbols", histories=total_hist)
    if phase == "deep":
        for (nnames, d_grow, d_plain) in plans:
            got = chk.cov["parts"].get("symbols/%dnames" % nnames, {}).get("depth_completed", 0)
            if got < d_plain and not any(("symbols/%dnames" % nnames) in x for x in chk.cov["caps_hit"]):
                chk.cap("symbols/%dnames: stopped at depth %d of %d" % (nnames, got, d_plain))


def _sym_ops(hist, nfill):
    ops = []
    for op in hist.split():
        ch = op[0]
        i = int(op[1:]) if len(op) > 1 else 0
        if ch == "S":
            ops.append("(put held %d (symbol (names %d)))" % (i, i))
        elif ch == "K":
            ops.append("(put held %d (keyword (names %d)))" % (i, i))
        elif ch == "D":
            ops.append("(put held %d nil)" % i)
        elif ch == "L":
            ops.append("(do (symbol (names %d)) nil)" % i)
        elif ch == "G":
            ops.append("(gccollect)")
        elif ch == "W":
            ops.append("(for j 0 %d (array/push fill (symbol \"c03fill\" j)))" % nfill)
        elif ch == "R":
            ops.append("(array/clear fill)")
    return ops


def sym_replay_text(names, nfill, hists):
    """Stand-alone script for a list of histories run one after the other in one process (the last
    one is the failing one; usually the list has one element)."""
    body = []
    for h in hists:
        body.append("# history: %s" % h)
        body.append("(step (fn [] (array/clear held) (for i 0 (length names) (put held i nil)) (array/clear fill)))")
        body.append("(gccollect)")
        body += ["(step (fn [] %s))" % o for o in _sym_ops(h, nfill)]
    return """(def names [%s])   # strings whose hashes agree in the low 18 bits: one home slot in the symbol cache
(def held @[])
(def fill @[])
(defn step [f] (f) nil)
%s
(for i 0 (length names)
  (def h (get held i))
  (when h
    (def f (if (symbol? h) (symbol (names i)) (keyword (names i))))
    (printf "name %%d: held %%q fresh %%q  (= fresh held) %%q  (hash) %%q %%q  lookup %%q" i h f (= f h) (hash f) (hash h) (get {h :found} f))))
(var lost 0)
(for j 0 (length fill) (unless (= (symbol "c03fill" j) (fill j)) (++ lost)))
(print "held filler symbols not found again: " lost)
(print "expected: every (= fresh held) true, equal hashes, lookup :found, 0 fillers lost")
""" % (" ".join('"%s"' % n for n in names), "\n".join(body))


def sym_ok(status, text):
    if status != "OK":
        return False
    parts = text.split("/")
    if len(parts) != 4:
        return False
    a, b, cc, lost = parts
    return (all(ch == "." or ch == "o" for ch in a) and all(ch == "0" for ch in b) and (cc == "" or cc == "O")
            and lost == "0:-1")


def _sym_violation(self, tag, names, nfill, hist, what, sig, context=()):
    """Confirm in a fresh process before reporting: first the history alone, then (if the failure
    needs the state left by earlier histories of the same worker) the worker's whole prefix."""
    names_j = "[%s]" % " ".join('"%s"' % nm for nm in names)

    def run_seq(hs):
        items = ['(symhist %s %d "%s")' % (names_j, nfill, h) for h in hs]
        return run_batch("fast", DRIVER, items, chunk=len(items), timeout=300, jobs=1)[-1]
    if sig in self.sym_confirmed:
        self.chk.part(tag, law_failures=1)
        self.chk.violation(sig, "after history [%s]: %s" % (hist, what))
        return
    for hs in ([hist], list(context) + [hist]):
        r1 = run_seq(hs)
        r2 = run_seq(hs)
        if not sym_ok(*r1) and not sym_ok(*r2):
            self.sym_confirmed.add(sig)
            self.chk.part(tag, law_failures=1)
            self.chk.violation(sig, "after history [%s]%s: %s" % (
                hist, "" if len(hs) == 1 else " (preceded by %d other histories in the same process)" % (len(hs) - 1), what),
                replay_text=sym_replay_text(names, nfill, hs), replay_cmd="janet <this file>")
            return
        if not context:
            break
    self.unconfirmed.append("symbol history [%s] failed in the batch (%s)" % (hist, what[:200]))


C03.sym_violation = _sym_violation


# --------------------------------------------------------------------------

LIT_DRIVER = os.path.join(HERE, "driver_lit.janet")


def part_literals(c):
    """Operators compiled with a number literal as an operand (immediate opcodes) against every x of a small number
    universe and a few non-numbers: must agree with numeric order (numbers), with the first-class function forms and
    with cmp (everything)."""
    chk = c.chk
    ints = sorted(set(list(range(-131, -124)) + list(range(-4, 5)) + list(range(124, 132)) + [255, 256, -255, -256, -257,
                      32767, 32768, -32768, -32769, 2 ** 31 - 1, -2 ** 31, 2 ** 31, 65535]))
    lits = [(str(i), float(i)) for i in ints] + [("0.5", 0.5), ("-0.5", -0.5), ("-0.0", -0.0), ("1e10", 1e10), ("-1e10", -1e10),
                                                 ("127.5", 127.5), ("-128.5", -128.5)]
    xs_num = lits + [("math/inf", float("inf")), ("math/-inf", float("-inf")), ("9007199254740992", 2.0 ** 53),
                     ("-9007199254740992", -2.0 ** 53), ("(+ 0.1 0.2)", 0.1 + 0.2)]
    xs_other = ['"a"', ":k", "'s", "nil", "true", "false", "[1]", "{:a 1}", '@"b"', "(int/s64 5)", "(int/s64 -5)", "(int/s64 -1)",
                "(int/u64 5)", "(int/s64 -128)", "(int/u64 200)"]
    xs = [t for t, _ in xs_num] + xs_other
    items = ["{:lit %s :xs [%s]}" % (jdn(t), " ".join(jdn(x) for x in xs)) for t, _ in lits]
    res = run_batch("fast", LIT_DRIVER, items, chunk=4, timeout=120)
    names = ["(< x L)", "(<= x L)", "(> x L)", "(>= x L)", "(= x L)", "(not= x L)",
             "(< L x)", "(<= L x)", "(> L x)", "(>= L x)", "(= L x)", "(not= L x)"]
    for (lt, lv), (status, text) in zip(lits, res):
        if status != "OK":
            chk.violation("literal-operand:%s" % status.lower(), "operators with the literal %s as an operand: %s %s" % (lt, status, text[:300]),
                          replay_text="# see props/C03/driver_lit.janet, item {:lit %s}\n" % jdn(lt))
            continue
        rows = text.strip().strip('"').split("|")[:-1]
        if len(rows) != len(xs):
            raise HarnessError("literal part: %d rows for %d operands" % (len(rows), len(xs)))
        for k, (xt, row) in enumerate(zip(xs, rows)):
            chk.add(evaluations=25, transitions=1, states=1)
            inl, fnv, cmpv = row[:12], row[12:24], int(row[24]) - 1
            chk.outcome(("lit", inl, cmpv))
            want = None
            if k < len(xs_num):
                xv = xs_num[k][1]
                rel = [xv < lv, xv <= lv, xv > lv, xv >= lv, xv == lv, xv != lv, lv < xv, lv <= xv, lv > xv, lv >= xv, lv == xv, lv != xv]
                want = "".join("1" if r else "0" for r in rel)
            bad = None
            if want is not None and inl != want:
                bad = ("numeric", want)
            elif inl != fnv:
                bad = ("function-form", fnv)
            else:
                sign = ["1" if r else "0" for r in (cmpv < 0, cmpv <= 0, cmpv > 0, cmpv >= 0, cmpv == 0, cmpv != 0)]
                if inl[:6] != "".join(sign):
                    bad = ("cmp", "".join(sign))
            if bad:
                i = next(i for i in range(len(bad[1])) if inl[i] != bad[1][i])
                form = names[i].replace("L", lt).replace("x", xt)
                chk.part("literals", law_failures=1)
                chk.violation("literal-operand:%s:%s" % (bad[0], names[i].split()[0].strip("(")),
                              "%s compiled with the literal gives %s, but the %s relation says %s (x = %s, literal %s; "
                              "all twelve forms inline %s, reference %s)" % (
                                  form, inl[i] == "1", bad[0], inl[i] != "1", xt, lt, inl, bad[1]),
                              replay_text="(def x %s)\n(printf \"%%q inline, %%q as a function value, (cmp x %s) = %%q\" %s ((fn [f a b] (f a b)) %s x %s) (cmp x %s))\n" % (
                                  xt, lt, names[i].replace("L", lt), names[i].split()[0].strip("("), lt, lt)
                              if i < 6 else "(def x %s)\n(printf \"%%q inline, (cmp %s x) = %%q\" %s (cmp %s x))\n" % (xt, lt, names[i].replace("L", lt), lt),
                              replay_cmd="janet <this file>")
    chk.part("literals", literals=len(lits), operands=len(xs), forms=12)


def main():
    chk = Check("C03")
    chk.rule("value universe (numbers incl. -0, 2^31 and 2^53 neighbourhoods, infinities; byte strings as string/"
             "symbol/keyword incl. hash-colliding ones; nested tuples of both bracket kinds; structs incl. prototypes "
             "and colliding key sets; identity values in two equal-content instances; boxed integers) x every "
             "construction route of model.routes(); every ordered pair evaluated with = not= hash cmp compare < <= > >= "
             "(opcode and function forms) and compared with the content key known to Python; triples of class "
             "representatives for transitivity and the variadic forms; structs over key sets whose hashes collide "
             "(identical hash / same bucket / cluster / wrap-around) with every subset x every insertion order x routes; "
             "every argument sequence with duplicate keys and nil values up to a length bound; all tuples over a small "
             "alphabet to depth 2; all bounded histories of intern/drop/collect/grow on symbol names sharing one "
             "symbol-cache home slot. A case is distinct by its (expression, expression) pair; non-trivial when the two "
             "routes or contents differ.")
    chk.assume("verif/table-info reports the physical slot layout of a struct; verif/addr the address of a symbol")
    chk.assume("NaN is excluded (not generated)")
    chk.assume("hash values of strings/keywords/symbols/numbers/tuples/structs of those do not depend on addresses "
               "(colliding key sets are chosen from hashes reported by the interpreter under test)")
    c = C03(chk)
    only = chk.args.only

    def want(p):
        return only is None or only == p

    import time as _time

    def timed(name, fn, *a):
        t = _time.time()
        r = fn(*a)
        chk.part("timing", **{name + "_s": round(_time.time() - t, 1)})
        return r

    if want("symbols"):
        timed("symbols_shallow", part_symbols, c, "shallow")
    classes = None
    if want("universe"):
        classes = timed("universe", part_universe, c)
    elif want("triples"):
        classes = [members_of(v, extra=e) for v, e in universe(chk.tier)]
    if want("triples"):
        timed("triples", part_triples, c, classes)
    sets = None
    if want("struct-perms") or want("struct-dups"):
        sets, H = choose_key_sets(c, 6 if chk.quick else 7)
    if want("struct-perms"):
        timed("struct_perms", part_struct_perms, c, sets)
    if want("struct-dups"):
        timed("struct_dups", part_struct_dups, c, sets)
    if want("tuples"):
        timed("tuples", part_tuples, c)
    if want("literals"):
        timed("literals", part_literals, c)
    if want("symbols"):
        timed("symbols_deep", part_symbols, c, "deep")
    if c.unconfirmed:
        for u in c.unconfirmed[:5]:
            chk.cap("failure seen once but not reproduced in a fresh process: " + u[:300])
        if not chk.violations:
            raise HarnessError("%d failures did not reproduce when re-evaluated in a fresh process; first: %s" % (
                len(c.unconfirmed), c.unconfirmed[0][:600]))
    chk.cov["bound_completed"] = ("universe all pairs; struct key subsets <= %d keys all orders; dup sequences <= %d; "
                                  "tuples depth 2; symbol histories depth %s" % (
                                      5 if chk.quick else 6, 4 if chk.quick else 5,
                                      "/".join("%s:%s" % (k.split("/")[1], v.get("depth_completed", "-"))
                                               for k, v in sorted(chk.cov["parts"].items()) if k.startswith("symbols/"))))
    chk.finish()


if __name__ == "__main__":
    harness_guard(main)
