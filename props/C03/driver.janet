# C03 driver: evaluates construction-route expressions and reports raw relation matrices.
# All law checking is done in Python (props/C03/check.py); this file only observes.
(use prelude)

# ---- identity universe: two instances each with equal content ---------------------------------
(def A1 @[1 2]) (def A2 @[1 2])
(def T1 @{:a 1}) (def T2 @{:a 1})
(def B1 @"ab") (def B2 @"ab")
(defn- mkfn [] (fn same [] 1))
(def F1 (mkfn)) (def F2 (mkfn))
(def G1 (fiber/new (fn [] 1))) (def G2 (fiber/new (fn [] 1)))
(def C1 print) (def C2 prin)
(def E1 @[]) (def E2 @[])
(def TE1 @{}) (def TE2 @{})

(def- SEP1 "\x1e")
(def- SEP2 "\x1f")

(defn- b2i [x] (if x 1 0))

(defn- ev [form]
  (eval form))

# Canonical text of a value, same format as prelude `canon`, but struct keys are taken from the
# physical slots (verif/table-info) instead of `next`: on a struct whose layout is corrupt `next`
# may cycle for ever, and the check must report such a struct, not hang on it.
(defn- type-rank [x]
  (case (type x)
    :nil 0 :boolean 1 :number 2 :string 3 :symbol 4 :keyword 5
    :tuple 6 :struct 7 :buffer 8 :array 9 :table 10 11))

(varfn ccanon [x] "")

(defn- struct-canon [x]
  (def b @"{")
  (def ks (seq [k :in ((verif/table-info x) :order)] [(type-rank k) (ccanon k) k]))
  (sort ks (fn [a b] (if (= (a 0) (b 0)) (< (a 1) (b 1)) (< (a 0) (b 0)))))
  (var first true)
  (each [_ kt k] ks
    (if first (set first false) (buffer/push b " "))
    (buffer/push b kt " " (ccanon (struct/rawget x k))))
  (buffer/push b "}")
  (when-let [p (struct/getproto x)]
    (buffer/push b "^" (ccanon p)))
  (string b))

(varfn ccanon [x]
  (case (type x)
    :struct (struct-canon x)
    :tuple (let [b @""]
             (buffer/push b (if (= :brackets (tuple/type x)) "[" "("))
             (var first true)
             (each v x (if first (set first false) (buffer/push b " ")) (buffer/push b (ccanon v)))
             (buffer/push b (if (= :brackets (tuple/type x)) "]" ")"))
             (string b))
    :table (string "<table " (verif/addr x) ">")
    :array (string "<array " (verif/addr x) ">")
    (canon x)))

(defn- layout [v]
  (if (struct? v)
    (let [ti (verif/table-info v)]
      (string (ti :capacity) ":" (ti :slots)))
    "-"))

# slot-order content of a struct: keys and values in physical slot order
(defn- layout-order [v]
  (if (struct? v)
    (let [ti (verif/table-info v)
          b @""]
      (each k (ti :order)
        (buffer/push b (ccanon k) "=>" (ccanon (struct/rawget v k)) ","))
      (string b))
    "-"))

(defn- addr-of [v]
  (case (type v)
    :symbol (string (verif/addr v))
    :keyword (string (verif/addr v))
    "-"))

# the polymorphic compare family may raise when an abstract value is on the right-hand side
# (e.g. (compare "a" (int/s64 1))): report that as "other"
(defn- safe2 [f x y] (try (f x y) ([e] :raised)))

(defn- pair-basic [into x y]
  # opcode forms
  (def c1 (+ (b2i (= x y))
             (* 2 (b2i (< x y)))
             (* 4 (b2i (<= x y)))
             (* 8 (b2i (> x y)))
             (* 16 (b2i (>= x y)))))
  (def c (cmp x y))
  (def pc (safe2 compare x y))
  (def pcn (if (or (= pc -1) (= pc 0) (= pc 1)) (+ pc 1) 3))
  (def c2 (+ (+ c 1) (* 3 pcn) (* 12 (b2i (not= x y)))))
  (buffer/push-byte into (+ 48 c1))
  (buffer/push-byte into (+ 48 c2)))

(defn- call2 [f x y] (f x y))

(defn- pair-fn [into x y]
  # first-class function forms and the polymorphic compare family
  (def c3 (+ (b2i (call2 = x y))
             (* 2 (b2i (call2 < x y)))
             (* 4 (b2i (call2 <= x y)))
             (* 8 (b2i (call2 > x y)))
             (* 16 (b2i (call2 >= x y)))))
  (def c4 (+ (b2i (= true (safe2 compare= x y)))
             (* 2 (b2i (= true (safe2 compare< x y))))
             (* 4 (b2i (= true (safe2 compare<= x y))))
             (* 8 (b2i (= true (safe2 compare> x y))))
             (* 16 (b2i (= true (safe2 compare>= x y))))))
  # (deep= is deliberately not called: it iterates with `next`, which can cycle on a corrupt struct)
  (def c5 (b2i (call2 not= x y)))
  (buffer/push-byte into (+ 48 c3))
  (buffer/push-byte into (+ 48 c4))
  (buffer/push-byte into (+ 48 c5)))

(defn- lookup-bits [x y]
  # does a struct / table keyed by x find y ?  (nil keys cannot be stored)
  (if (nil? x)
    3
    (+ (b2i (= :v (get (struct x :v) y)))
       (* 2 (b2i (= :v (get (table x :v) y)))))))

(defn- do-grp [item]
  (def mode (in item 1))
  (def flags (in item 2))
  (def want-fn (index-of :fn flags))
  (def want-canon (index-of :canon flags))
  (def want-lookup (index-of :lookup flags))
  (def vals @[])
  (for i 3 (length item) (array/push vals (ev (in item i))))
  (def n (length vals))
  (def out @"")
  # hashes
  (for i 0 n (buffer/push out (string (hash (in vals i))) ","))
  (buffer/push out SEP1)
  (for i 0 n (buffer/push out (type (in vals i)) ","))
  (buffer/push out SEP1)
  (for i 0 n (buffer/push out (addr-of (in vals i)) ","))
  (buffer/push out SEP1)
  (for i 0 n (buffer/push out (layout (in vals i)) SEP2))
  (buffer/push out SEP1)
  (for i 0 n (buffer/push out (layout-order (in vals i)) SEP2))
  (buffer/push out SEP1)
  (when want-canon
    (for i 0 n (buffer/push out (ccanon (in vals i)) SEP2)))
  (buffer/push out SEP1)
  (defn pair [i j]
    (def x (in vals i))
    (def y (in vals j))
    (pair-basic out x y)
    (when want-fn (pair-fn out x y))
    (when want-lookup (buffer/push-byte out (+ 48 (lookup-bits x y)))))
  (cond
    (= mode :full) (for i 0 n (for j 0 n (pair i j)))
    # [:lead l0 l1 ...]: member i against its class leader l_i and against its predecessor
    (and (tuple? mode) (= :lead (in mode 0)))
    (for i 0 n
      (def p (if (> i 0) (- i 1) 0))
      (def l (in mode (+ i 1)))
      (pair i l) (pair l i) (pair i p) (pair p i) (pair i i))
    # [:rows lo hi]: rows lo..hi-1 of the full matrix
    (and (tuple? mode) (= :rows (in mode 0)))
    (for i (in mode 1) (in mode 2) (for j 0 n (pair i j)))
    (error "bad mode"))
  (string out))

(defn- do-tri [item]
  (def vals @[])
  (for i 1 (length item) (array/push vals (ev (in item i))))
  (def n (length vals))
  (def out @"")
  (for i 0 n (for j 0 n (pair-basic out (in vals i) (in vals j))))
  (buffer/push out SEP1)
  (for i 0 n
    (def x (in vals i))
    (for j 0 n
      (def y (in vals j))
      (for k 0 n
        (def z (in vals k))
        (buffer/push-byte out
                          (+ 48
                             (b2i (< x y z))
                             (* 2 (b2i (<= x y z)))
                             (* 4 (b2i (= x y z)))
                             (* 8 (b2i (> x y z)))
                             (* 16 (b2i (>= x y z)))
                             (* 32 (b2i (not= x y z))))))))
  (string out))

(defn- do-probe [item]
  (def out @"")
  (for i 1 (length item)
    (buffer/push out (string (hash (ev (in item i)))) ","))
  (string out))

# ---- symbol recycling ----------------------------------------------------------------------------

# find `n` strings prefix<i> whose hashes agree in the low `bits` bits (same home slot in the symbol
# cache for every capacity <= 2^bits). Strings are not interned, so the search does not touch the cache.
(defn- do-symfind [item]
  (def prefix (in item 1))
  (def n (in item 2))
  (def bits (in item 3))
  (def limit (in item 4))
  (def mask (- (blshift 1 bits) 1))
  (def buckets @{})
  (var found nil)
  (var i 0)
  (while (and (not found) (< i limit))
    (def s (string prefix i))
    (def h (band (hash s) mask))
    (unless (get buckets h) (put buckets h @[]))
    (array/push (get buckets h) s)
    (when (>= (length (get buckets h)) n) (set found (get buckets h)))
    (++ i))
  (if found
    (string/join (map |(string $ "=" (hash $)) found) ",")
    "none"))

(def- held @[])
(def- fill @[])
(def- env-syms (sort (filter symbol? (keys root-env))))

(defn- op-s [names i] (put held i (symbol (in names i))) nil)
(defn- op-k [names i] (put held i (keyword (in names i))) nil)
(defn- op-d [names i] (put held i nil) nil)
(defn- op-l [names i] (symbol (in names i)) nil)
(defn- op-w [nfill] (for j 0 nfill (array/push fill (symbol "c03fill" j))) nil)
(defn- op-r [] (array/clear fill) nil)
(defn- scrub []
  # overwrite dead stack slots so that no stale reference keeps a dropped symbol alive
  (var a 0) (var b 0) (var c 0) (var d 0) (var e 0) (var f 0) (var g 0) (var h 0)
  (+ a b c d e f g h))

(defn- check-held [names n]
  (def out @"")
  (for i 0 n
    (def h (get held i))
    (if (nil? h)
      (buffer/push out ".")
      (do
        (def name (in names i))
        (def issym (symbol? h))
        (def f (if issym (symbol name) (keyword name)))
        (def p (if issym (parse name) (parse (string ":" name))))
        (def u (unmarshal (marshal h)))
        (def bits (+ (b2i (= f h))
                     (* 2 (b2i (= (verif/addr f) (verif/addr h))))
                     (* 4 (b2i (= (hash f) (hash h))))
                     (* 8 (b2i (and (= p h) (= (verif/addr p) (verif/addr h)))))
                     (* 16 (b2i (and (= u h) (= (verif/addr u) (verif/addr h)))))
                     (* 32 (b2i (and (= 0 (cmp f h)) (= :v (get (struct h :v) f)) (= :v (get (table h :v) f)))))))
        (buffer/push-byte out (+ 48 bits)))))
  # distinct names must stay distinct; same bytes as symbol vs keyword are different values
  (buffer/push out "/")
  (for i 0 n
    (for j 0 n
      (def a (get held i))
      (def b (get held j))
      (when (and a b (not= i j))
        (buffer/push-byte out (+ 48 (b2i (= a b)) (* 2 (b2i (= 0 (cmp a b)))))))))
  # containers over the (possibly recycled) symbols: content equality across routes
  (buffer/push out "/")
  (def live (filter identity held))
  (when (> (length live) 0)
    (def t1 (tuple ;live))
    (def t2 (unmarshal (marshal t1)))
    (def t3 (parse (string/format "%j" t1)))
    (def kvs (mapcat |[$ 1] live))
    (def s1 (struct ;kvs))
    (def s2 (struct ;(mapcat |[$ 1] (reverse live))))
    (def s3 (parse (string/format "%j" s1)))
    (def s4 (unmarshal (marshal s1)))
    (buffer/push-byte out (+ 48
                             (b2i (and (= t1 t2) (= (hash t1) (hash t2)) (= 0 (cmp t1 t2))))
                             (* 2 (b2i (and (= t1 t3) (= (hash t1) (hash t3)) (= 0 (cmp t1 t3)))))
                             (* 4 (b2i (and (= s1 s2) (= (hash s1) (hash s2)) (= 0 (cmp s1 s2)))))
                             (* 8 (b2i (and (= s1 s3) (= (hash s1) (hash s3)) (= 0 (cmp s3 s1)))))
                             (* 16 (b2i (and (= s1 s4) (= (hash s1) (hash s4)) (= 0 (cmp s4 s1))))))))
  # every filler symbol that is still held must be found again (a resize must not lose entries)
  (buffer/push out "/")
  (var lost 0)
  (var first-lost -1)
  (for j 0 (length fill)
    (unless (= (symbol "c03fill" j) (in fill j))
      (when (< first-lost 0) (set first-lost j))
      (++ lost)))
  # ... and so must every symbol the core environment is keyed by (entries that were in the cache long before)
  (eachp [j s] env-syms
    (unless (= s (symbol (string s)))
      (when (< first-lost 0) (set first-lost (+ 1000000 j)))
      (++ lost)))
  (buffer/push out (string lost ":" first-lost))
  (string out))

(defn- run-hist [names n nfill ops]
  (each op ops
    (def c (in op 0))
    (def i (if (> (length op) 1) (- (in op 1) 48) 0))
    (case c
      (chr "S") (op-s names i)
      (chr "K") (op-k names i)
      (chr "D") (op-d names i)
      (chr "L") (op-l names i)
      (chr "G") (do (scrub) (gccollect))
      (chr "W") (op-w nfill)
      (chr "R") (op-r)
      (error (string "bad op " op)))))

(defn- do-symhist [item]
  (def names (in item 1))
  (def nfill (in item 2))
  (def ops (string/split " " (in item 3)))
  (def n (length names))
  # reset
  (array/clear held)
  (for i 0 n (put held i nil))
  (array/clear fill)
  (scrub)
  (gccollect)
  (run-hist names n nfill (filter |(not (empty? $)) ops))
  (def res (check-held names n))
  (array/clear held)
  (array/clear fill)
  res)

(batch-run
  (fn [item]
    (case (in item 0)
      'grp (do-grp item)
      'tri (do-tri item)
      'probe (do-probe item)
      'symfind (do-symfind item)
      'symhist (do-symhist item)
      (error (string "unknown item kind " (in item 0))))))
