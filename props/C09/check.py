#!/usr/bin/env python3
"""C09 -- marshal/unmarshal and disasm/asm round trips preserve values and behaviour.

Bounded-exhaustive enumeration (K1) of
  * integers (every encoding-width boundary; all 2^32 int32 values in the thorough tier),
  * leaf values of every marshalable type at every length/width boundary,
  * value graphs: every rooted graph of <= N container nodes (array, tuple, bracket tuple,
    table, struct, buffer; tables/structs with prototypes) with every assignment of edges
    (sharing, cycles, self references, containers as keys), each round-tripped plainly, with the
    image dictionaries, twice, and with each node registered in a custom lookup table,
  * code: closures sharing mutable captured variables (detached, on-stack, early-detached
    environments), suspended fibers with live children, compiled PEGs, channels, boxed integers,
    RNGs, whole environments through make-image/load-image, every bytecode function of the core
    environment,
  * disasm -> asm for every upvalue-free function of a generated corpus and of the core.
Everything runs on the real interpreter (vjanet `fast`); shapes are compared through the canonical
printer (identity-aware) against Python-predicted texts, behaviour by driving original and copy
with the same call / resume sequences and comparing logs (and with Python models of the templates).
See NOTES.md.
"""
import itertools
import multiprocessing
import os
import re
import sys

HERE = os.path.dirname(os.path.abspath(__file__))
sys.path.insert(0, os.path.join(HERE, "..", "..", "engine", "mc"))
from core import *  # noqa: E402,F401
import core as _core  # noqa: E402

HERE = os.path.dirname(os.path.abspath(__file__))
sys.path.insert(0, HERE)
import model as M  # noqa: E402
# codegen imported below when present

DRIVER = os.path.join(HERE, "driver.janet")
DRIVER_CODE = os.path.join(HERE, "driver_code.janet")
NPROC = int(os.environ.get("VERIF_JOBS", "16"))


# ------------------------------------------------------------------ helpers

def prelude_canon_source():
    """the canonical printer of the prelude, for stand-alone replay files"""
    return open(os.path.join(HERE, "canon2.janet")).read()


def run_items(driver, items, timeout=300):
    """run items in ONE vjanet process (used inside pool workers)"""
    return _core._run_chunk(vjanet("fast"), driver, items, None, timeout, ())


class Viol:
    def __init__(self, sig, what, replay):
        self.sig, self.what, self.replay = sig, what, replay


def report(chk, viols):
    # stable order: simplest (shortest replay) first per signature
    best = {}
    for v in viols:
        if v.sig not in best or (len(v.replay), v.replay) < (len(best[v.sig].replay), best[v.sig].replay):
            best[v.sig] = v
    for sig in sorted(best):
        v = best[sig]
        n = sum(1 for w in viols if w.sig == sig)
        chk.violation(sig=sig, what="%s (%d cases with this signature)" % (v.what, n),
                      replay_text=v.replay, replay_cmd="janet <this file>")


def pool_map(fn, shards):
    if NPROC <= 1 or len(shards) <= 1:
        return [fn(s) for s in shards]
    with multiprocessing.Pool(min(NPROC, len(shards))) as pool:
        return pool.map(fn, shards, chunksize=1)


# ------------------------------------------------------------------ replay generation (plain janet)

def src_desc(d, nodename=lambda i: "n%d" % i):
    if d is None:
        return "nil"
    if d is True:
        return "true"
    if d is False:
        return "false"
    k = d[0]
    if k == "n":
        return nodename(d[1])
    if k == "int":
        return str(d[1])
    if k == "real":
        x = M.bits_to_double(d[1])
        if x != x:
            return "math/nan"
        if x in (float("inf"), float("-inf")):
            return "math/inf" if x > 0 else "math/-inf"
        return '(scan-number "%r")' % x
    if k in ("str", "sym", "kw", "buf"):
        conv = dict(str="string", sym="symbol", kw="keyword", buf="buffer")[k]
        return "(%s (strbytes %d %d))" % (conv, d[1], d[2])
    if k == "lit":
        return '"%s"' % d[1]
    if k == "kwlit":
        return ":" + d[1]
    if k == "s64":
        return '(int/s64 "%d")' % d[1]
    if k == "u64":
        return '(int/u64 "%d")' % d[1]
    ctor = dict(arr="array", tup="tuple", btup="tuple/brackets", tab="table", struct="struct")[k]
    return "(%s %s)" % (ctor, " ".join(src_desc(x, nodename) for x in d[1:]))


STRBYTES_SRC = """(defn strbytes [n seed]
  (def b (buffer/new n))
  (for j 0 n (buffer/push-byte b (band (+ seed (* 37 j)) 255)))
  b)
"""


def src_graph(nodes, order):
    """Janet statements that build the graph; root is n0"""
    lines = []
    for i, nd in enumerate(nodes):
        f = nd[0][0]
        if f == "A":
            lines.append("(def n%d @[])" % i)
        elif f == "T":
            lines.append("(def n%d @{})" % i)
        elif f == "U":
            lines.append('(def n%d (buffer "buf%d"))' % (i, i))
    for i in order:
        nd = nodes[i]
        f = nd[0][0]
        nslots, hasp = M.KIND_SLOTS[nd[0]]
        if f in "PB":
            lines.append("(def n%d (%s %s))" % (i, "tuple" if f == "P" else "tuple/brackets",
                                                " ".join(src_desc(s) for s in nd[1:])))
        else:
            kv = " ".join(src_desc(k) + " " + src_desc(v) for k, v in M.table_pairs(nd))
            p = M.node_proto(nd)
            if p is None:
                lines.append("(def n%d (struct %s))" % (i, kv))
            else:
                lines.append("(def n%d (struct/with-proto %s %s))" % (i, src_desc(p), kv))
    for i, nd in enumerate(nodes):
        f = nd[0][0]
        if f == "A":
            for s in nd[1:]:
                lines.append("(array/push n%d %s)" % (i, src_desc(s)))
        elif f == "T":
            for k, v in M.table_pairs(nd):
                lines.append("(put n%d %s %s)" % (i, src_desc(k), src_desc(v)))
            p = M.node_proto(nd)
            if p is not None:
                lines.append("(table/setproto n%d %s)" % (i, src_desc(p)))
    return lines


def replay_value(build_lines, expr, how, expected, got):
    """stand-alone script: build value x, make the copy with `how`, print both canon texts"""
    body = "\n  ".join(list(build_lines))
    return (prelude_canon_source() + STRBYTES_SRC +
            "(defn run []\n  %s\n  (def x %s)\n  (def copy %s)\n"
            "  (print \"original: \" (canon x))\n  (print \"copy    : \" (canon copy))\n"
            "  (print (if (= (canon x) (canon copy)) \"same\" \"DIFFERENT\")))\n(run)\n"
            "# expected copy: %s\n# observed copy: %s\n" % (body, expr, how, expected, got))


# ------------------------------------------------------------------ part: integers

I32_MIN, I32_MAX = -(1 << 31), (1 << 31) - 1


def int_boundaries():
    bs = {0, 127, 128, 8191, 8192, -1, -8192, -8193, I32_MIN, I32_MAX, 255, 256, 16383, 16384, 32767, 32768,
          65535, 65536, -128, -129, -256, -32768, -65536, 1 << 24, -(1 << 24), (1 << 24) - 1}
    for k in range(0, 32):
        bs.add((1 << k))
        bs.add(-(1 << k))
    return sorted(b for b in bs if I32_MIN <= b <= I32_MAX)


def part_ints(chk):
    """integer codec: (unmarshal (marshal i)) == i, element-wise inside arrays"""
    items, meta = [], []
    if chk.quick:
        # the whole range [-2^21, 2^21) plus +-2^16 around every power of two and the int32 ends
        ranges = [(-(1 << 21), 1 << 22)]
        for b in int_boundaries():
            if abs(b) >= (1 << 21):
                lo = max(I32_MIN, b - (1 << 16))
                hi = min(I32_MAX + 1, b + (1 << 16))
                ranges.append((lo, hi - lo))
        split = 1 << 19
    else:
        ranges = [(I32_MIN, 1 << 32)]
        split = 1 << 20
    for lo, n in ranges:
        off = 0
        while off < n:
            m = min(split, n - off)
            items.append("[:ints %d %d]" % (lo + off, m))
            meta.append((lo + off, m))
            off += m
    done = 0
    res = run_batch("fast", DRIVER, items, chunk=max(1, len(items) // (NPROC * 4)), timeout=600)
    viols = []
    for (lo, m), (st, text) in zip(meta, res):
        chk.add(evaluations=m)
        f = text.split(" ") if st == "OK" else None
        if st != "OK" or int(f[0]) != m or f[1] != "0":
            bad = f[2] if f and len(f) > 2 else "?"
            viols.append(Viol("int:array-element-roundtrip", "integers in [%d,%d): %s %s" % (lo, lo + m, st, text),
                              "(def v %s)\n(def c (unmarshal (marshal @[v])))\n(printf \"%%d -> %%d\" v (c 0))\n" % bad))
        else:
            done += m
        chk.outcome("ints:" + (text if st != "OK" else "ok"))
    chk.part("ints", integers=done, ranges=len(ranges), batch_items=len(items))

    # each boundary value and its neighbours alone at top level and as struct key/value
    vals = sorted({b + d for b in int_boundaries() for d in (-2, -1, 0, 1, 2) if I32_MIN <= b + d <= I32_MAX})
    items = ["[:int1 %s]" % " ".join(str(v) for v in vals[i:i + 50]) for i in range(0, len(vals), 50)]
    res = run_batch("fast", DRIVER, items, chunk=4)
    k = 0
    for i, (st, text) in enumerate(res):
        chunk = vals[i * 50:(i + 1) * 50]
        outs = text.split("\t") if st == "OK" else [None] * len(chunk)
        for v, o in zip(chunk, outs):
            exp = "%d (%d {%d %d})" % (v, v, v, v)
            chk.add(evaluations=1)
            k += 1
            chk.outcome("int1:" + ("ok" if o == exp else "bad"))
            if o != exp:
                viols.append(Viol("int:toplevel-roundtrip", "int %d alone / in a struct: expected %s got %s (%s)" % (v, exp, o, st),
                                  "(def v %d)\n(printf \"%%d -> %%v %%v\" v (unmarshal (marshal v)) (unmarshal (marshal [v {v v}])))\n" % v))
    chk.part("ints", toplevel_values=k)
    return viols


# ------------------------------------------------------------------ part: leaves

def leaf_descriptors(chk):
    ds = [None, True, False]
    ints = sorted({b + d for b in (0, 127, 128, 8191, 8192, -8192, -8193, I32_MAX, I32_MIN) for d in (-1, 0, 1)
                   if I32_MIN <= b + d <= I32_MAX})
    ds += [("int", v) for v in ints]
    reals = [2.0 ** 31, -(2.0 ** 31) - 1, 0.5, -0.5, 2.0 ** 31 - 0.5, float("inf"), float("-inf"), float("nan"),
             1e308, 5e-324, 2.0 ** 53, 2.0 ** 63, -(2.0 ** 63), 4294967296.0, 1e100, 0.1, 127.5, 8191.5]
    ds += [("real", M.double_to_bits(x)) for x in reals]
    lens = [0, 1, 2, 127, 128, 129, 255, 256, 8191, 8192, 8193, 70000]
    for kind in ("str", "sym", "kw", "buf"):
        for n in lens:
            for seed in (0, 97):
                if n == 0 and seed:
                    continue
                ds.append((kind, n, seed))
    s64 = {0, 1, -1, 0xF0, 0xF1, -(1 << 63), (1 << 63) - 1}
    u64 = {0, 1, 0xF0, 0xF1, (1 << 64) - 1, 1 << 63, (1 << 63) - 1}
    for k in range(0, 64, 1 if not chk.quick else 4):
        for d in (-1, 0, 1):
            s64.add((1 << k) + d)
            s64.add(-(1 << k) + d)
            u64.add((1 << k) + d)
    for k in range(8, 64, 8):
        for d in (-1, 0, 1):
            s64.add((1 << k) + d)
            s64.add(-(1 << k) + d)
            u64.add((1 << k) + d)
    ds += [("s64", v) for v in sorted(s64) if -(1 << 63) <= v < (1 << 63)]
    ds += [("u64", v) for v in sorted(u64) if 0 <= v < (1 << 64)]
    # small fresh containers of every kind, empty and with every leaf class
    smalls = [("int", 7), ("lit", "s"), ("real", M.double_to_bits(0.5)), None, True, ("s64", 5), ("kwlit", "k")]
    for c in ("arr", "tup", "btup"):
        ds.append((c,))
        for a in smalls:
            ds.append((c, a))
            ds.append((c, a, a))
    for c in ("tab", "struct"):
        ds.append((c,))
        for a in smalls:
            if a is not None:
                ds.append((c, a, ("int", 1)))
                ds.append((c, ("kwlit", "k"), a) if a is not None else (c,))
    ds.append(("buf", 0, 0))
    return ds


NEG_ZERO = ("real", 1 << 63)


def part_leaves(chk):
    viols = []
    ds = leaf_descriptors(chk) + [NEG_ZERO]
    items = ["[:v %s]" % M.jdesc(d) for d in ds]
    res = run_batch("fast", DRIVER, items, chunk=max(8, len(items) // 32))
    for d, (st, text) in zip(ds, res):
        chk.add(evaluations=2)
        c = M.Canon([])
        exp_o = c.text(d)
        w = ("arr", ("lit", "sib"), d, ("tab", ("kwlit", "k"), d), d)
        # the wrapper shares x: predicted with identity of the leaf (x appears three times)
        if st != "OK":
            viols.append(Viol("leaf:%s:error" % leafclass(d), "round trip of %s raised/crashed: %s %s" % (M.jdesc(d), st, text[:300]),
                              replay_value([], src_desc(d), "(unmarshal (marshal x))", exp_o, st)))
            continue
        f = text.split("\t")
        if f[0] != exp_o:
            raise HarnessError("leaf %s: canon of the original is %s, model predicts %s" % (M.jdesc(d), f[0], exp_o))
        chk.outcome("leaf:" + leafclass(d) + ":" + ("=" if f[1] == "=" and f[3] == "=" else "diff"))
        if f[1] != "=":
            viols.append(Viol(leafsig2(d, "toplevel"), "%s -> %s" % (f[0], f[1]),
                              replay_value([], src_desc(d), "(unmarshal (marshal x))", f[0], f[1])))
        if f[3] != "=":
            viols.append(Viol(leafsig2(d, "nested"), "%s -> %s" % (f[2], f[3]),
                              replay_value([], '@["sib" %s]' % src_desc(d), "(unmarshal (marshal x))", f[2], f[3])))
    chk.part("leaves", values=len(ds))
    return viols


def leafclass(d):
    if d is None or d is True or d is False:
        return "const"
    return d[0]


def leafsig2(d, where):
    if d == NEG_ZERO:
        return "real:-0:sign-lost"
    return "leaf:%s:%s" % (leafsig(d), where)


def leafsig(d):
    if d == NEG_ZERO:
        return "real:-0:sign-lost"
    c = leafclass(d)
    if c in ("str", "sym", "kw", "buf"):
        return "%s:len%d" % (c, d[1])
    if c in ("int", "s64", "u64"):
        return "%s:%d" % (c, d[1])
    if c == "real":
        return "real:%r" % M.bits_to_double(d[1])
    return c


# ------------------------------------------------------------------ part: graphs

GRAPH_LEAVES = [("int", 7), ("lit", "s")]
_R = ("kwlit", "R")
REPL = {"A": ("arr", _R), "T": ("tab", _R, ("int", 1)), "U": ("buf", 1, 82), "S": ("struct", _R, ("int", 1)),
        "P": ("tup", _R), "B": ("btup", _R)}
REPL_SRC = {"A": "@[:R]", "T": "@{:R 1}", "U": '@"R"', "S": "{:R 1}", "P": "(tuple :R)", "B": "(tuple/brackets :R)"}


def imm_key(nodes, d, memo):
    """structural identity of a slot value as janet's `=` sees it (mutable nodes by identity)"""
    if not (isinstance(d, tuple) and d[0] == "n"):
        return d
    i = d[1]
    nd = nodes[i]
    if M.is_mutable_kind(nd[0]):
        return ("n", i)
    if i not in memo:
        f = nd[0][0]
        if f in "PB":
            memo[i] = (f, tuple(imm_key(nodes, s, memo) for s in nd[1:]))
        else:
            prs = frozenset((imm_key(nodes, k, memo), imm_key(nodes, v, memo)) for k, v in M.table_pairs(nd))
            p = M.node_proto(nd)
            memo[i] = ("S", prs, imm_key(nodes, p, memo) if p is not None else None)
    return memo[i]


def graph_shard(arg):
    """worker: enumerate one shard of the graph space, run it, compare. Returns a dict."""
    max_nodes, kinds, leaves, shard, nshards, lean = arg
    graphs = []
    skipped = 0
    for g in M.gen_graphs(max_nodes, kinds, leaves, shard=(shard, nshards)):
        order = M.build_order(g)
        if order is None:
            skipped += 1
            continue
        graphs.append((g, order))
    items = []
    for g, order in graphs:
        items.append("[:g %s [%s] %s %s]" % (M.jnodes(g), " ".join(map(str, order)),
                                             "true" if M.is_pure_immutable(g) else "false", "true" if lean else "false"))
    res = run_items(DRIVER, items, timeout=600) if items else []
    out = dict(n=len(graphs), skipped=skipped, viols=[], outcomes=set(), evals=0, sizes={}, first=None, last=None,
               cyclic=0, shared=0)
    root = ("n", 0)
    for (g, order), (st, text) in zip(graphs, res):
        c = M.Canon(g)
        exp = c.text(root)
        nn = len(g)
        out["sizes"][nn] = out["sizes"].get(nn, 0) + 1
        if re.search(r"#\d+(?![=\d])", exp):
            out["shared"] += 1
        build = LazyLines(g, order)
        if out["first"] is None:
            out["first"] = exp
        out["last"] = exp
        if st != "OK":
            out["viols"].append(Viol("graph:%s:%s" % (kinds_sig(g), st.lower()),
                                     "round trip of %s: %s %s" % (exp, st, text[:300]),
                                     replay_value(build, "n0", "(unmarshal (marshal x))", exp, st)))
            continue
        f = text.split("\t")
        if f[0] != exp:
            raise HarnessError("graph %s: canon of the original is %s, model predicts %s" % (M.jnodes(g), f[0], exp))
        out["evals"] += 4 + nn
        hows = [("plain", "(unmarshal (marshal x))"),
                ("imagedict", "(unmarshal (marshal x make-image-dict) load-image-dict)"),
                ("twice", "(unmarshal (marshal (unmarshal (marshal x))))")]
        for j, (name, how) in enumerate(hows):
            got = f[1 + j]
            out["outcomes"].add("g:%s:%s" % (name, "=" if got == "=" else "diff"))
            if got != "=":
                out["viols"].append(Viol("graph:%s:%s" % (name, kinds_sig(g)), "%s: %s -> %s" % (name, exp, got),
                                         replay_value(build, "n0", how, exp, got)))
        eqh = f[4]
        out["outcomes"].add("g:eqhash:" + eqh)
        if eqh not in ("-", "truetrue"):
            out["viols"].append(Viol("graph:immutable-copy-not-equal:%s" % kinds_sig(g),
                                     "(= x copy)(= (hash x) (hash copy)) = %s for %s" % (eqh, exp),
                                     replay_value(build + ["(def c (unmarshal (marshal n0)))",
                                                           "(print \"= \" (= n0 c) \"  hash= \" (= (hash n0) (hash c)))"],
                                                  "n0", "(unmarshal (marshal x))", exp, eqh)))
        memo = {}
        for k in range(nn):
            key = imm_key(g, ("n", k), memo)
            rd = REPL[g[k][0][0]]
            repl = {j: rd for j in range(nn) if imm_key(g, ("n", j), memo) == key}
            try:
                expk = M.Canon(g, repl).text(root)
            except M.Ambiguous:
                continue
            got = f[5 + k]
            out["outcomes"].add("g:reg:" + ("ok" if got == expk else "diff"))
            if got != expk:
                out["viols"].append(Viol("graph:registry:%s:node-%s" % (kinds_sig(g), g[k][0]),
                                         "node %d registered as 'r, looked up as a fresh value: %s -> %s, expected %s" % (k, exp, got, expk),
                                         replay_value(build, "n0", "(unmarshal (marshal x @{n%d 'r}) @{'r %s})" % (k, REPL_SRC[g[k][0][0]]), expk, got)))
        if f[5 + nn] != "=":
            out["viols"].append(Viol("graph:original-mutated:%s" % kinds_sig(g), "marshal changed the original: %s -> %s" % (exp, f[5 + nn]),
                                     replay_value(build + ["(marshal n0)"], "n0", "x", exp, f[5 + nn])))
    return out


class LazyLines:
    """graph construction statements, generated only when a replay is written"""

    def __init__(self, g, order):
        self.g, self.order = g, order

    def __add__(self, more):
        return src_graph(self.g, self.order) + more

    def __iter__(self):
        return iter(src_graph(self.g, self.order))


def kinds_sig(g):
    return "".join(n[0] for n in g)


def part_graphs(chk):
    viols = []
    full = ["A", "P", "B", "T", "S", "U"]
    both = GRAPH_LEAVES
    if chk.quick:
        plans = [("N<=2 all kinds, leaves 7 \"s\", all variants", 2, full, both, 16, False),
                 ("N<=3 kinds APTS, leaf \"s\", plain+registry variants", 3, ["A", "P", "T", "S"], [("lit", "s")], 64, True)]
    else:
        plans = [("N<=3 all kinds, leaves 7 \"s\", all variants", 3, full, both, 128, False),
                 ("N<=4 kinds A P1 T1 S1, leaf 7, plain+registry variants", 4, ["A", "P1", "T1", "S1"], [("int", 7)], 128, True),
                 ("N<=4 kinds A P T1 S1 A1 P1, leaf 7, plain+registry variants", 4, ["A", "P", "T1", "S1", "A1", "P1"], [("int", 7)], 256, True)]
    for name, n, kinds, leaves, nshards, lean in plans:
        if chk.out_of_time(0.6):
            chk.cap("graphs: bound '%s' not run" % name)
            break
        shards = [(n, kinds, leaves, s, nshards, lean) for s in range(nshards)]
        outs = pool_map(graph_shard, shards)
        total = sum(o["n"] for o in outs)
        sizes = {}
        for o in outs:
            viols += o["viols"]
            for oc in o["outcomes"]:
                chk.outcome(oc)
            for k, v in o["sizes"].items():
                sizes[k] = sizes.get(k, 0) + v
        chk.add(states=total, evaluations=sum(o["evals"] for o in outs))
        chk.part("graphs:" + name, graphs=total, unconstructible_skipped=sum(o["skipped"] for o in outs),
                 with_back_references=sum(o["shared"] for o in outs), by_nodes=str(sorted(sizes.items())))
        chk.sample({"graph_first": outs[0]["first"], "graph_last": outs[-1]["last"]})
        chk.cov["bound_completed"] = "graphs " + name
    return viols


# ------------------------------------------------------------------ main

PARTS = []


def main():
    chk = Check("C09")
    chk.rule("value graphs: every rooted graph of <= N container nodes over {array, tuple, bracket tuple, table, "
             "struct, buffer} (tables and structs with every compatible prototype edge), every slot assigned to a "
             "leaf {7, \"s\"} or to any node (sharing, cycles, self reference, containers as table/struct keys), one "
             "representative per node renaming (breadth-first numbering); integers: whole ranges element-wise; leaves: "
             "every type at every length/width boundary; code: template families x call/resume sequences (see parts). "
             "A case is distinct if its recipe differs.")
    chk.assume("the prelude's canonical printer and janet's reader/constructors (array/push, put, struct, tuple) are trusted; "
               "peg/match, resume and function calls on the ORIGINAL are trusted as the behavioural reference (checked by C12/C05/C02)")
    vjanet("fast")
    only = chk.args.only
    viols = []
    for name, fn in PARTS:
        if only and name not in only.split(","):
            continue
        if chk.out_of_time(0.92):
            chk.cap("part %s not run (out of time)" % name)
            continue
        t = chk.elapsed()
        v = fn(chk)
        viols += v
        chk.part("time", **{name: round(chk.elapsed() - t, 1)})
    report(chk, viols)
    chk.finish()


PARTS += [("ints", part_ints), ("leaves", part_leaves), ("graphs", part_graphs)]

if __name__ == "__main__":
    harness_guard(main)
