#!/usr/bin/env python3
"""C09 -- marshal/unmarshal and disasm/asm round trips preserve values and behaviour.

Bounded-exhaustive enumeration (K1) of
  * integers (every encoding-width boundary; all 2^32 int32 values in the thorough tier),
  * leaf values of every marshalable type at every length/width boundary,
  * value graphs: every rooted graph of <= N container nodes (array, tuple, bracket tuple,
    table, struct, buffer; tables/structs with prototypes) with every assignment of edges
    (sharing, cycles, self references, containers as keys), each round-tripped plainly, with the
    image dictionaries, twice, and with each node registered in a custom lookup table,
  * code: closures sharing mutable captured variables (detached, on-stack, early-detached
    environments), suspended fibers with live children, compiled PEGs, channels, boxed integers,
    RNGs, whole environments through make-image/load-image, every bytecode function of the core
    environment,
  * disasm -> asm for every upvalue-free function of a generated corpus and of the core.
Everything runs on the real interpreter (vjanet `fast`); shapes are compared through the canonical
printer (identity-aware) against Python-predicted texts, behaviour by driving original and copy
with the same call / resume sequences and comparing logs (and with Python models of the templates).
See NOTES.md.
"""
import itertools
import multiprocessing
import os
import re
import sys

HERE = os.path.dirname(os.path.abspath(__file__))
sys.path.insert(0, os.path.join(HERE, "..", "..", "engine", "mc"))
from core import *  # noqa: E402,F401
import core as _core  # noqa: E402

HERE = os.path.dirname(os.path.abspath(__file__))
sys.path.insert(0, HERE)
import model as M  # noqa: E402
import codegen as G  # noqa: E402

DRIVER = os.path.join(HERE, "driver.janet")
DRIVER_CODE = os.path.join(HERE, "driver_code.janet")
NPROC = int(os.environ.get("VERIF_JOBS", "16"))


# ------------------------------------------------------------------ helpers

def prelude_canon_source():
    """the canonical printer of the prelude, for stand-alone replay files"""
    return open(os.path.join(HERE, "canon2.janet")).read()


def run_items(driver, items, timeout=300):
    """run items in ONE vjanet process (used inside pool workers)"""
    # a tree on which round trips do not terminate would cost a time limit per item: after a few dead workers the rest
    # of the chunk comes back as SKIPPED (reported as a cap by the callers, the deaths themselves are violations)
    return _core._run_chunk(vjanet("fast"), driver, items, None, min(timeout, 90), (), _core._Deaths(3))


class Viol:
    def __init__(self, sig, what, replay):
        self.sig, self.what, self.replay = sig, what, replay


def report(chk, viols):
    # stable order: simplest (shortest replay) first per signature
    best = {}
    for v in viols:
        if v.sig not in best or (len(v.replay), v.replay) < (len(best[v.sig].replay), best[v.sig].replay):
            best[v.sig] = v
    for sig in sorted(best):
        v = best[sig]
        n = sum(1 for w in viols if w.sig == sig)
        chk.violation(sig=sig, what="%s (%d cases with this signature)" % (v.what, n),
                      replay_text=v.replay, replay_cmd="janet <this file>")


def pool_map(fn, shards):
    if NPROC <= 1 or len(shards) <= 1:
        return [fn(s) for s in shards]
    with multiprocessing.Pool(min(NPROC, len(shards))) as pool:
        return pool.map(fn, shards, chunksize=1)


# ------------------------------------------------------------------ replay generation (plain janet)

def src_desc(d, nodename=lambda i: "n%d" % i):
    if d is None:
        return "nil"
    if d is True:
        return "true"
    if d is False:
        return "false"
    k = d[0]
    if k == "n":
        return nodename(d[1])
    if k == "int":
        return str(d[1])
    if k == "real":
        x = M.bits_to_double(d[1])
        if x != x:
            return "math/nan"
        if x in (float("inf"), float("-inf")):
            return "math/inf" if x > 0 else "math/-inf"
        return '(scan-number "%r")' % x
    if k in ("str", "sym", "kw", "buf"):
        conv = dict(str="string", sym="symbol", kw="keyword", buf="buffer")[k]
        return "(%s (strbytes %d %d))" % (conv, d[1], d[2])
    if k == "lit":
        return '"%s"' % d[1]
    if k == "kwlit":
        return ":" + d[1]
    if k == "s64":
        return '(int/s64 "%d")' % d[1]
    if k == "u64":
        return '(int/u64 "%d")' % d[1]
    if k == "proto":
        return "(table/setproto %s %s)" % (src_desc(d[1], nodename), src_desc(d[2], nodename))
    if k == "sproto":
        return "(struct/with-proto %s)" % " ".join(src_desc(x, nodename) for x in d[1:])
    if k == "warr":
        return "(array/concat (array/weak 4) [%s])" % " ".join(src_desc(x, nodename) for x in d[1:])
    if k in ("wtabk", "wtabv", "wtabkv"):
        ctor = dict(wtabk="table/weak-keys", wtabv="table/weak-values", wtabkv="table/weak")[k]
        return "(merge-into (%s 4) (table %s))" % (ctor, " ".join(src_desc(x, nodename) for x in d[1:]))
    ctor = dict(arr="array", tup="tuple", btup="tuple/brackets", tab="table", struct="struct")[k]
    return "(%s %s)" % (ctor, " ".join(src_desc(x, nodename) for x in d[1:]))


STRBYTES_SRC = """(defn strbytes [n seed]
  (def b (buffer/new n))
  (for j 0 n (buffer/push-byte b (band (+ seed (* 37 j)) 255)))
  b)
"""


def src_graph(nodes, order):
    """Janet statements that build the graph; root is n0"""
    lines = []
    for i, nd in enumerate(nodes):
        f = nd[0][0]
        if f == "A":
            lines.append("(def n%d @[])" % i)
        elif f == "T":
            lines.append("(def n%d @{})" % i)
        elif f == "U":
            lines.append('(def n%d (buffer "buf%d"))' % (i, i))
    for i in order:
        nd = nodes[i]
        f = nd[0][0]
        nslots, hasp = M.KIND_SLOTS[nd[0]]
        if f in "PB":
            lines.append("(def n%d (%s %s))" % (i, "tuple" if f == "P" else "tuple/brackets",
                                                " ".join(src_desc(s) for s in nd[1:])))
        else:
            kv = " ".join(src_desc(k) + " " + src_desc(v) for k, v in M.table_pairs(nd))
            p = M.node_proto(nd)
            if p is None:
                lines.append("(def n%d (struct %s))" % (i, kv))
            else:
                lines.append("(def n%d (struct/with-proto %s %s))" % (i, src_desc(p), kv))
    for i, nd in enumerate(nodes):
        f = nd[0][0]
        if f == "A":
            for s in nd[1:]:
                lines.append("(array/push n%d %s)" % (i, src_desc(s)))
        elif f == "T":
            for k, v in M.table_pairs(nd):
                lines.append("(put n%d %s %s)" % (i, src_desc(k), src_desc(v)))
            p = M.node_proto(nd)
            if p is not None:
                lines.append("(table/setproto n%d %s)" % (i, src_desc(p)))
    return lines


def replay_value(build_lines, expr, how, expected, got):
    """stand-alone script: build value x, make the copy with `how`, print both canon texts"""
    body = "\n  ".join(list(build_lines))
    return (prelude_canon_source() + STRBYTES_SRC +
            "(defn run []\n  %s\n  (def x %s)\n  (def copy %s)\n"
            "  (print \"original: \" (canon x))\n  (print \"copy    : \" (canon copy))\n"
            "  (print (if (= (canon x) (canon copy)) \"same\" \"DIFFERENT\")))\n(run)\n"
            "# expected copy: %s\n# observed copy: %s\n" % (body, expr, how, expected, got))


# ------------------------------------------------------------------ part: integers

I32_MIN, I32_MAX = -(1 << 31), (1 << 31) - 1


def int_boundaries():
    bs = {0, 127, 128, 8191, 8192, -1, -8192, -8193, I32_MIN, I32_MAX, 255, 256, 16383, 16384, 32767, 32768,
          65535, 65536, -128, -129, -256, -32768, -65536, 1 << 24, -(1 << 24), (1 << 24) - 1}
    for k in range(0, 32):
        bs.add((1 << k))
        bs.add(-(1 << k))
    return sorted(b for b in bs if I32_MIN <= b <= I32_MAX)


def part_ints(chk):
    """integer codec: (unmarshal (marshal i)) == i, element-wise inside arrays"""
    items, meta = [], []
    if chk.quick:
        # the whole range [-2^21, 2^21) plus +-2^16 around every power of two and the int32 ends
        ranges = [(-(1 << 21), 1 << 22)]
        for b in int_boundaries():
            if abs(b) >= (1 << 21):
                lo = max(I32_MIN, b - (1 << 16))
                hi = min(I32_MAX + 1, b + (1 << 16))
                ranges.append((lo, hi - lo))
        split = 1 << 19
    else:
        ranges = [(I32_MIN, 1 << 32)]
        split = 1 << 20
    for lo, n in ranges:
        off = 0
        while off < n:
            m = min(split, n - off)
            items.append("[:ints %d %d]" % (lo + off, m))
            meta.append((lo + off, m))
            off += m
    done = 0
    res = run_batch("fast", DRIVER, items, chunk=max(1, len(items) // (NPROC * 4)), timeout=600)
    viols = []
    for (lo, m), (st, text) in zip(meta, res):
        chk.add(evaluations=m)
        f = text.split(" ") if st == "OK" else None
        if st != "OK" or int(f[0]) != m or f[1] != "0":
            bad = f[2] if f and len(f) > 2 else "?"
            viols.append(Viol("int:array-element-roundtrip", "integers in [%d,%d): %s %s" % (lo, lo + m, st, text),
                              "(def v %s)\n(def c (unmarshal (marshal @[v])))\n(printf \"%%d -> %%d\" v (c 0))\n" % bad))
        else:
            done += m
        chk.outcome("ints:" + (text if st != "OK" else "ok"))
    chk.part("ints", integers=done, ranges=len(ranges), batch_items=len(items))

    # each boundary value and its neighbours alone at top level and as struct key/value
    vals = sorted({b + d for b in int_boundaries() for d in (-2, -1, 0, 1, 2) if I32_MIN <= b + d <= I32_MAX})
    items = ["[:int1 %s]" % " ".join(str(v) for v in vals[i:i + 50]) for i in range(0, len(vals), 50)]
    res = run_batch("fast", DRIVER, items, chunk=4)
    k = 0
    for i, (st, text) in enumerate(res):
        chunk = vals[i * 50:(i + 1) * 50]
        outs = text.split("\t") if st == "OK" else [None] * len(chunk)
        for v, o in zip(chunk, outs):
            exp = "%d (%d {%d %d})" % (v, v, v, v)
            chk.add(evaluations=1)
            k += 1
            chk.outcome("int1:" + ("ok" if o == exp else "bad"))
            if o != exp:
                viols.append(Viol("int:toplevel-roundtrip", "int %d alone / in a struct: expected %s got %s (%s)" % (v, exp, o, st),
                                  "(def v %d)\n(printf \"%%d -> %%v %%v\" v (unmarshal (marshal v)) (unmarshal (marshal [v {v v}])))\n" % v))
    chk.part("ints", toplevel_values=k)
    return viols


# ------------------------------------------------------------------ part: leaves

def leaf_descriptors(chk):
    ds = [None, True, False]
    ints = sorted({b + d for b in (0, 127, 128, 8191, 8192, -8192, -8193, I32_MAX, I32_MIN) for d in (-1, 0, 1)
                   if I32_MIN <= b + d <= I32_MAX})
    ds += [("int", v) for v in ints]
    reals = [2.0 ** 31, -(2.0 ** 31) - 1, 0.5, -0.5, 2.0 ** 31 - 0.5, float("inf"), float("-inf"), float("nan"),
             1e308, 5e-324, 2.0 ** 53, 2.0 ** 63, -(2.0 ** 63), 4294967296.0, 1e100, 0.1, 127.5, 8191.5]
    ds += [("real", M.double_to_bits(x)) for x in reals]
    lens = [0, 1, 2, 127, 128, 129, 255, 256, 8191, 8192, 8193, 70000]
    for kind in ("str", "sym", "kw", "buf"):
        for n in lens:
            for seed in (0, 97):
                if n == 0 and seed:
                    continue
                ds.append((kind, n, seed))
    s64 = {0, 1, -1, 0xF0, 0xF1, -(1 << 63), (1 << 63) - 1}
    u64 = {0, 1, 0xF0, 0xF1, (1 << 64) - 1, 1 << 63, (1 << 63) - 1}
    for k in range(0, 64, 1 if not chk.quick else 4):
        for d in (-1, 0, 1):
            s64.add((1 << k) + d)
            s64.add(-(1 << k) + d)
            u64.add((1 << k) + d)
    for k in range(8, 64, 8):
        for d in (-1, 0, 1):
            s64.add((1 << k) + d)
            s64.add(-(1 << k) + d)
            u64.add((1 << k) + d)
    ds += [("s64", v) for v in sorted(s64) if -(1 << 63) <= v < (1 << 63)]
    ds += [("u64", v) for v in sorted(u64) if 0 <= v < (1 << 64)]
    # small fresh containers of every kind, empty and with every leaf class
    smalls = [("int", 7), ("lit", "s"), ("real", M.double_to_bits(0.5)), None, True, ("s64", 5), ("kwlit", "k")]
    for c in ("arr", "tup", "btup"):
        ds.append((c,))
        for a in smalls:
            ds.append((c, a))
            ds.append((c, a, a))
    for c in ("tab", "struct"):
        ds.append((c,))
        for a in smalls:
            if a is not None:
                ds.append((c, a, ("int", 1)))
                ds.append((c, ("kwlit", "k"), a) if a is not None else (c,))
    ds.append(("buf", 0, 0))
    # weak arrays and tables (every weakness), empty / filled / with a prototype
    k, s_, seven = ("kwlit", "k"), ("lit", "s"), ("int", 7)
    ds += [("warr",), ("warr", seven, s_), ("warr", ("arr", seven))]
    for w in ("wtabk", "wtabv", "wtabkv"):
        ds += [(w,), (w, k, seven), (w, s_, ("arr", seven), k, s_), ("proto", (w, k, seven), ("tab", k, s_)),
               ("proto", (w, k, seven), (w, s_, seven))]
    ds.append(("proto", ("tab", k, seven), ("wtabk", s_, seven)))
    # structs with prototypes: empty / filled, prototype empty / filled / itself with a prototype
    for proto in (("struct",), ("struct", k, seven), ("sproto", ("struct", s_, seven), k, seven)):
        ds += [("sproto", proto), ("sproto", proto, k, s_), ("sproto", proto, s_, ("arr", seven), k, seven)]
    return ds


NEG_ZERO = ("real", 1 << 63)


def part_leaves(chk):
    viols = []
    ds = leaf_descriptors(chk) + [NEG_ZERO]
    items = ["[:v %s]" % M.jdesc(d) for d in ds]
    res = run_batch("fast", DRIVER, items, chunk=max(8, len(items) // 32))
    for d, (st, text) in zip(ds, res):
        chk.add(evaluations=2)
        c = M.Canon([])
        exp_o = c.text(d)
        w = ("arr", ("lit", "sib"), d, ("tab", ("kwlit", "k"), d), d)
        # the wrapper shares x: predicted with identity of the leaf (x appears three times)
        if st != "OK":
            viols.append(Viol("leaf:%s:error" % leafclass(d), "round trip of %s raised/crashed: %s %s" % (M.jdesc(d), st, text[:300]),
                              replay_value([], src_desc(d), "(unmarshal (marshal x))", exp_o, st)))
            continue
        f = text.split("\t")
        if f[0] != exp_o:
            raise HarnessError("leaf %s: canon of the original is %s, model predicts %s" % (M.jdesc(d), f[0], exp_o))
        chk.outcome("leaf:" + leafclass(d) + ":" + ("=" if f[1] == "=" and f[3] == "=" else "diff"))
        if f[1] != "=":
            viols.append(Viol(leafsig2(d, "toplevel"), "%s -> %s" % (f[0], f[1]),
                              replay_value([], src_desc(d), "(unmarshal (marshal x))", f[0], f[1])))
        if f[5] != "truetrue":
            viols.append(Viol("real:-0:sign-lost" if d == NEG_ZERO else "leaf:%s:typebyte-or-append" % leafclass(d), "%s: type byte kept / append into a used buffer: %s" % (f[0], f[5]),
                              replay_value(["(def c (unmarshal (marshal %s)))" % src_desc(d),
                                            "(print \"type bytes: \" (in (marshal %s) 0) \" \" (in (marshal c) 0))" % src_desc(d)],
                                           src_desc(d), "(unmarshal (buffer/slice (marshal x @{} @\"pre\") 3))", f[0], f[5])))
        if f[3] != "=":
            viols.append(Viol(leafsig2(d, "nested"), "%s -> %s" % (f[2], f[3]),
                              replay_value([], '@["sib" %s]' % src_desc(d), "(unmarshal (marshal x))", f[2], f[3])))
    chk.part("leaves", values=len(ds))
    return viols


def leafclass(d):
    if d is None or d is True or d is False:
        return "const"
    return d[0]


def leafsig2(d, where):
    if d == NEG_ZERO:
        return "real:-0:sign-lost"
    return "leaf:%s:%s" % (leafsig(d), where)


def leafsig(d):
    if d == NEG_ZERO:
        return "real:-0:sign-lost"
    c = leafclass(d)
    if c in ("str", "sym", "kw", "buf"):
        return "%s:len%d" % (c, d[1])
    if c in ("int", "s64", "u64"):
        return "%s:%d" % (c, d[1])
    if c == "real":
        return "real:%r" % M.bits_to_double(d[1])
    return c


# ------------------------------------------------------------------ part: graphs

GRAPH_LEAVES = [("int", 7), ("lit", "s")]
_R = ("kwlit", "R")
REPL = {"A": ("arr", _R), "T": ("tab", _R, ("int", 1)), "U": ("buf", 1, 82), "S": ("struct", _R, ("int", 1)),
        "P": ("tup", _R), "B": ("btup", _R)}
REPL_SRC = {"A": "@[:R]", "T": "@{:R 1}", "U": '@"R"', "S": "{:R 1}", "P": "(tuple :R)", "B": "(tuple/brackets :R)"}


def imm_key(nodes, d, memo):
    """structural identity of a slot value as janet's `=` sees it (mutable nodes by identity)"""
    if not (isinstance(d, tuple) and d[0] == "n"):
        return d
    i = d[1]
    nd = nodes[i]
    if M.is_mutable_kind(nd[0]):
        return ("n", i)
    if i not in memo:
        f = nd[0][0]
        if f in "PB":
            memo[i] = (f, tuple(imm_key(nodes, s, memo) for s in nd[1:]))
        else:
            prs = frozenset((imm_key(nodes, k, memo), imm_key(nodes, v, memo)) for k, v in M.table_pairs(nd))
            p = M.node_proto(nd)
            memo[i] = ("S", prs, imm_key(nodes, p, memo) if p is not None else None)
    return memo[i]


def graph_shard(arg):
    """worker: enumerate one shard of the graph space, run it, compare. Returns a dict."""
    max_nodes, kinds, leaves, shard, nshards, lean = arg
    graphs = []
    skipped = 0
    for g in M.gen_graphs(max_nodes, kinds, leaves, shard=(shard, nshards)):
        order = M.build_order(g)
        if order is None:
            skipped += 1
            continue
        graphs.append((g, order))
    items = []
    for g, order in graphs:
        items.append("[:g %s [%s] %s %s]" % (M.jnodes(g), " ".join(map(str, order)),
                                             "true" if M.is_pure_immutable(g) else "false", "true" if lean else "false"))
    res = run_items(DRIVER, items, timeout=600) if items else []
    out = dict(n=len(graphs), skipped=skipped, viols=[], outcomes=set(), evals=0, sizes={}, first=None, last=None,
               cyclic=0, shared=0)
    root = ("n", 0)
    for (g, order), (st, text) in zip(graphs, res):
        c = M.Canon(g)
        exp = c.text(root)
        nn = len(g)
        out["sizes"][nn] = out["sizes"].get(nn, 0) + 1
        if re.search(r"#\d+(?![=\d])", exp):
            out["shared"] += 1
        build = LazyLines(g, order)
        if out["first"] is None:
            out["first"] = exp
        out["last"] = exp
        if st == "SKIPPED":
            out["skipped_after_deaths"] = out.get("skipped_after_deaths", 0) + 1
            continue
        if st != "OK":
            out["viols"].append(Viol("graph:%s:%s" % (kinds_sig(g), st.lower()),
                                     "round trip of %s: %s %s" % (exp, st, text[:300]),
                                     replay_value(build, "n0", "(unmarshal (marshal x))", exp, st)))
            continue
        f = text.split("\t")
        if f[0] != exp:
            raise HarnessError("graph %s: canon of the original is %s, model predicts %s" % (M.jnodes(g), f[0], exp))
        out["evals"] += (2 if lean else 5) + nn
        hows = [("plain", "(unmarshal (marshal x))"),
                ("imagedict", "(unmarshal (marshal x make-image-dict) load-image-dict)"),
                ("twice", "(unmarshal (marshal (unmarshal (marshal x))))")]
        for j, (name, how) in enumerate(hows):
            got = f[1 + j]
            out["outcomes"].add("g:%s:%s" % (name, "=" if got == "=" else "diff"))
            if got != "=":
                out["viols"].append(Viol("graph:%s:%s" % (name, kinds_sig(g)), "%s: %s -> %s" % (name, exp, got),
                                         replay_value(build, "n0", how, exp, got)))
        eqh = f[4]
        out["outcomes"].add("g:eqhash:" + eqh)
        if eqh not in ("-", "truetrue"):
            out["viols"].append(Viol("graph:immutable-copy-not-equal:%s" % kinds_sig(g),
                                     "(= x copy)(= (hash x) (hash copy)) = %s for %s" % (eqh, exp),
                                     replay_value(build + ["(def c (unmarshal (marshal n0)))",
                                                           "(print \"= \" (= n0 c) \"  hash= \" (= (hash n0) (hash c)))"],
                                                  "n0", "(unmarshal (marshal x))", exp, eqh)))
        memo = {}
        for k in range(nn):
            key = imm_key(g, ("n", k), memo)
            rd = REPL[g[k][0][0]]
            repl = {j: rd for j in range(nn) if imm_key(g, ("n", j), memo) == key}
            try:
                expk = M.Canon(g, repl).text(root)
            except M.Ambiguous:
                continue
            got = f[5 + k]
            out["outcomes"].add("g:reg:" + ("ok" if got == expk else "diff"))
            if got != expk:
                out["viols"].append(Viol("graph:registry:%s:node-%s" % (kinds_sig(g), g[k][0]),
                                         "node %d registered as 'r, looked up as a fresh value: %s -> %s, expected %s" % (k, exp, got, expk),
                                         replay_value(build, "n0", "(unmarshal (marshal x @{n%d 'r}) @{'r %s})" % (k, REPL_SRC[g[k][0][0]]), expk, got)))
        held = f[5 + nn]
        out["outcomes"].add("g:held:" + ("=" if held == "=" else "diff"))
        if held != "=":
            out["viols"].append(Viol("graph:held-by-closure-and-fiber:%s" % kinds_sig(g),
                                     "[x closure fiber] marshalled together: %s, then via closure, via fiber -> %s" % (exp, held),
                                     replay_value(build + ["(def holder (let [cap n0] (fn holder [] cap)))",
                                                           "(def fb (fiber/new (let [cap n0] (fn body [] (def loc cap) (yield 1) loc))))",
                                                           "(resume fb)", "(def pc (unmarshal (marshal [n0 holder fb])))"],
                                                  "[n0 n0 n0]", "[(in pc 0) ((in pc 1)) (resume (in pc 2))]", "", held)))
        if f[6 + nn] != "=":
            out["viols"].append(Viol("graph:original-mutated:%s" % kinds_sig(g), "marshal changed the original: %s -> %s" % (exp, f[6 + nn]),
                                     replay_value(build + ["(marshal n0)"], "n0", "x", exp, f[6 + nn])))
    return out


class LazyLines:
    """graph construction statements, generated only when a replay is written"""

    def __init__(self, g, order):
        self.g, self.order = g, order

    def __add__(self, more):
        return src_graph(self.g, self.order) + more

    def __iter__(self):
        return iter(src_graph(self.g, self.order))


def kinds_sig(g):
    return "".join(n[0] for n in g)


def part_graphs(chk):
    viols = []
    full = ["A", "P", "B", "T", "S", "U"]
    both = GRAPH_LEAVES
    if chk.quick:
        plans = [("N<=2 all kinds, leaves 7 \"s\", all variants", 2, full, both, 16, False),
                 ("N<=3 all kinds, leaf \"s\", plain+registry variants", 3, full, [("lit", "s")], 64, True)]
    else:
        plans = [("N<=3 all kinds, leaves 7 \"s\", all variants", 3, full, both, 128, False),
                 ("N<=4 kinds A P1 T1 S1, leaf 7, plain+registry variants", 4, ["A", "P1", "T1", "S1"], [("int", 7)], 128, True),
                 ("N<=4 kinds A P T1 S1 A1 P1, leaf 7, plain+registry variants", 4, ["A", "P", "T1", "S1", "A1", "P1"], [("int", 7)], 256, True),
                 ("N<=4 kinds A P T1 S1 U, leaf \"s\", plain+registry variants", 4, ["A", "P", "T1", "S1", "U"], [("lit", "s")], 256, True)]
    for name, n, kinds, leaves, nshards, lean in plans:
        if chk.out_of_time(0.6):
            chk.cap("graphs: bound '%s' not run" % name)
            break
        shards = [(n, kinds, leaves, s, nshards, lean) for s in range(nshards)]
        outs = pool_map(graph_shard, shards)
        total = sum(o["n"] for o in outs)
        sizes = {}
        for o in outs:
            viols += o["viols"]
            for oc in o["outcomes"]:
                chk.outcome(oc)
            for k, v in o["sizes"].items():
                sizes[k] = sizes.get(k, 0) + v
        chk.add(states=total, evaluations=sum(o["evals"] for o in outs))
        chk.part("graphs:" + name, graphs=total, unconstructible_skipped=sum(o["skipped"] for o in outs),
                 with_back_references=sum(o["shared"] for o in outs), by_nodes=str(sorted(sizes.items())))
        firsts = [o["first"] for o in outs if o["first"]]
        lasts = [o["last"] for o in outs if o["last"]]
        if firsts:
            chk.sample({"plan": name, "graph_first": firsts[0], "graph_middle": firsts[len(firsts) // 2], "graph_last": lasts[-1]}, limit=12)
        chk.cov["bound_completed"] = "graphs " + name
    return viols


# ------------------------------------------------------------------ code parts (driver_code.janet)

def replay_code(item, note):
    """stand-alone script: canon2 + the driver's definitions + one call of the handler"""
    src = open(DRIVER_CODE).read()
    src = src[:src.index("# REPLAY-CUT")]
    src = src.replace("(use prelude)\n", "").replace('(import ./canon2 :prefix "")\n', "")
    return (prelude_canon_source() + src +
            "\n(def item (parse %s))\n(print (handle item))\n# %s\n" % (G.jstr(item), note.replace("\n", " ")))


_SAMPLES = []


def run_code(items, chunk=None, timeout=300):
    chunk = chunk or max(4, len(items) // (NPROC * 3) + 1)
    res = run_batch("fast", DRIVER_CODE, items, chunk=chunk, timeout=timeout)
    if items:
        # first, middle and last case of every batch, with what the interpreter answered
        for i in sorted({0, len(items) // 2, len(items) - 1}):
            _SAMPLES.append({"item": items[i][:300], "status": res[i][0], "output": res[i][1][:300]})
    return res


def part_closures(chk):
    viols = []
    L = 3 if chk.quick else 4
    args = (1, 10)
    cases = []
    for variant, groupings, dicts in (("detached", ("together", "separate"), (False, True)),
                                      ("early", ("together",), (False,)),
                                      ("fiber", ("together",), (False, True)),
                                      ("fiber-implicit", ("together", "separate"), (False,))):
        alphabet = [(w, a) for w in (0, 2, 3) for a in ((1, 10) if w != 2 else (0,))] + [(1, 1)]
        if variant == "fiber":
            alphabet += [(4, 5)]
        for grouping in groupings:
            for d in dicts:
                for n in range(1, L + 1):
                    for ops in itertools.product(alphabet, repeat=n):
                        cases.append((variant, grouping, d, ops))
    items = ["[:clo :%s :%s %s [%s]]" % (v, g, "true" if d else "false", " ".join("[%d %d]" % o for o in ops))
             for v, g, d, ops in cases]
    res = run_code(items)
    for (v, g, d, ops), it, (st, text) in zip(cases, items, res):
        chk.add(evaluations=1, transitions=len(ops))
        elo, elc = G.clo_expected(v, g, ops)
        sigbase = "closure:%s:%s%s" % (v, g, ":lookup" if d else "")
        if st != "OK":
            viols.append(Viol(sigbase + ":" + st.lower(), "%s -> %s %s" % (it, st, text[:300]), replay_code(it, "expected copy log: " + elc)))
            continue
        lo, lc, shape = text.split("\t")
        if lo != elo:
            raise HarnessError("closure model disagrees on the ORIGINAL: %s -> %s, model %s" % (it, lo, elo))
        chk.outcome("clo:" + lc)
        if lc != elc:
            viols.append(Viol(sigbase + ":behaviour", "%s: copy log %s, expected %s (original %s)" % (it, lc, elc, lo),
                              replay_code(it, "output: original log <tab> copy log; expected copy log: " + elc)))
        if set(shape.split(",")) != {"same"}:
            viols.append(Viol(sigbase + ":shape", "%s: disassembly of the copies differs: %s" % (it, shape), replay_code(it, "third field must be same,same,same,same")))
    chk.part("closures", cases=len(cases), max_ops=L)
    return viols


def part_fibers(chk):
    viols = []
    cases = []
    for depth, n, m, nested, captured, envmode, fail in itertools.product((1, 2, 3), (1, 2), (0, 1), (False, True),
                                                                           (False, True), (0, 1, 2), (False, True)):
        if depth == 1 and (m or fail):
            continue
        params = (depth, n, m, nested, captured, envmode, fail)
        total = G.fiber_total_yields(params)
        length = total + 3
        for j in range(0, total + 3):
            k = length - j
            if chk.quick:
                afters = [tuple(1 + (i % 2) for i in range(k))]
            else:
                afters = list(itertools.product((1, 2), repeat=min(k, 4)))
                afters = [a + (1,) * (k - len(a)) for a in afters]
            before = tuple(1 + ((i + 1) % 2) for i in range(j))
            for after in afters:
                lookups = (True,) if envmode else (False, True)
                for lk in lookups:
                    cases.append((params, before, after, lk))
    def jb(x):
        return "true" if x is True else "false" if x is False else str(x)
    items = ["[:fib [%s] [%s] [%s] %s]" % (" ".join(jb(x) for x in p), " ".join(map(str, b)), " ".join(map(str, a)), jb(lk))
             for p, b, a, lk in cases]
    res = run_code(items)
    for (p, b, a, lk), it, (st, text) in zip(cases, items, res):
        chk.add(evaluations=1, transitions=len(a) * 4)
        mo = G.FiberModel(p)
        epre = mo.drive(b)
        est = mo.status
        elo = mo.drive(a)
        m2 = G.FiberModel(p)
        m2.drive(b)
        el2 = m2.drive([v + 50 for v in a])
        sigbase = "fiber:depth%d:env%d%s:at-%s" % (p[0], p[5], ":lookup" if lk else "", est[1:])
        if st != "OK":
            viols.append(Viol(sigbase + ":" + st.lower(), "%s -> %s %s" % (it, st, text[:300]), replay_code(it, "expected log " + elo)))
            continue
        pre, st0, st1, lo, l1, l3, l2 = text.split("\t")
        st0, _, lv0 = st0.partition(" ")
        st1, _, lv1 = st1.partition(" ")
        if pre != epre or lo != elo or ":" + st0 != est:
            raise HarnessError("fiber model disagrees on the ORIGINAL: %s -> %s | %s | %s, model %s | %s | %s" % (it, pre, st0, lo, epre, est, elo))
        chk.outcome("fib:" + st0 + ":" + l1[:40])
        note = "fields: log-before, status, status-of-copy, original, copy, copy-from-pair, second copy driven with +50"
        if ":" + st1 != est or lv1 != lv0:
            viols.append(Viol(sigbase + ":status", "%s: copy status / last value %s %s, original %s %s" % (it, st1, lv1, st0, lv0), replay_code(it, note)))
        if l1 != elo or l3 != elo:
            viols.append(Viol(sigbase + ":behaviour", "%s: copy log %s / %s, expected %s" % (it, l1, l3, elo), replay_code(it, note)))
        if l2 != el2:
            viols.append(Viol(sigbase + ":independence", "%s: second copy log %s, expected %s" % (it, l2, el2), replay_code(it, note)))
    chk.part("fibers", cases=len(cases))
    return viols


# a closure in a constant-false branch leaves a malformed sub-definition that unmarshal rejects
DEADBRANCH_MSG = "funcdef has invalid bytecode"
DEADBRANCH_SIG = "function:dead-branch-closure:unmarshal-rejects-funcdef"
DEADBRANCH_REPLAY = ("(defn f [a] (var i a) (if nil (fn [] i)) i)\n(pp (f 1))\n(pp ((disasm f) :defs))\n"
                     "(pp (unmarshal (marshal f)))  # error: funcdef has invalid bytecode\n")


def part_functions(chk):
    viols = []
    corpus = G.function_corpus(chk.quick)
    items = ["[:fn %s [%s]]" % (G.jstr(src), " ".join(G.jstr(c) for c in calls)) for src, calls in corpus]
    res = run_code(items, chunk=4, timeout=300)
    nplain = 0
    for (src, calls), it, (st, text) in zip(corpus, items, res):
        chk.add(evaluations=1 + len(calls) * 6)
        short = src.strip()[:60]
        sigsrc = re.sub(r"[^A-Za-z0-9]+", "-", src.strip()[:40])
        if st != "OK":
            viols.append(Viol(DEADBRANCH_SIG if DEADBRANCH_MSG in text else "function:%s:%s" % (st.lower(), sigsrc),
                              "%s -> %s %s" % (short, st, text[:300]), DEADBRANCH_REPLAY if DEADBRANCH_MSG in text else replay_code(it, "")))
            continue
        if text == "nocompile":
            # every corpus entry is a valid program / a valid assembler description (they all build on the unchanged
            # tree); an entry that is rejected is a behaviour change of compile or asm, not a harness problem
            viols.append(Viol("function:%s:rejected:%s" % ("asm" if src.lstrip().startswith("(asm") else "compile", sigsrc),
                              "%s no longer builds: a valid %s is rejected" % (
                                  short, "assembler description" if src.lstrip().startswith("(asm") else "program"),
                              "(pp (protect %s))\n" % src.strip()))
            continue
        if text == "nondeterministic":
            raise HarnessError("function corpus entry is %s: %s" % (text, short))
        f = text.split("\t")
        ref = f[0]
        if ref.count("V") == 0:
            raise HarnessError("function corpus entry never returns: %s -> %s" % (short, ref))
        chk.outcome("fn:" + ref[:60])
        for v in f[1:]:
            name, _, rest = v.partition(":")
            if rest == "unmarshalable":
                if name != "plain":
                    viols.append(Viol("function:%s:error:%s" % (name, sigsrc), "%s: %s" % (short, v), replay_code(it, "")))
                continue
            if name == "plain":
                nplain += 1
            shape, _, log = rest.partition(":")
            if shape != "same":
                viols.append(Viol("function:%s:shape:%s" % (name, shape.split(".")[-1].rstrip("0123456789-")),
                                  "%s: disassembly of the %s copy differs at %s" % (short, name, shape), replay_code(it, "field " + v)))
            if log != "=":
                viols.append(Viol("function:%s:behaviour:%s" % (name, sigsrc), "%s: %s copy log %s, original %s" % (short, name, log, ref),
                                  replay_code(it, "first field = original log; every other field must end in :=")))
    chk.part("functions", corpus=len(corpus), marshalable_without_lookup=nplain,
             calls=sum(len(c) for _, c in corpus))
    return viols


def part_core(chk):
    viols = []
    st, text = run_code(["[:core-list]"])[0]
    if st != "OK":
        raise HarnessError("core-list: %s %s" % (st, text))
    names = text.split(" ")
    items = ["[:core %s]" % G.jstr(n) for n in names]
    res = run_code(items, chunk=16)
    nasm = 0
    for n, it, (st, text) in zip(names, items, res):
        chk.add(evaluations=4)
        if st != "OK":
            viols.append(Viol("core:%s:%s" % (st.lower(), n), "%s -> %s %s" % (n, st, text[:300]), replay_code(it, "")))
            continue
        f = dict(x.split(":", 1) for x in text.split("\t"))
        chk.outcome("core:" + text)
        if f["cfdict"] != "same":
            viols.append(Viol("core:marshal-shape:" + f["cfdict"].split(".")[-1].rstrip("0123456789-"),
                              "%s: copy through marshal differs at %s" % (n, f["cfdict"]), replay_code(it, "")))
        if f["dict"] != "identical":
            viols.append(Viol("core:imagedict-not-identical", "%s: marshal with make-image-dict did not give back the same function" % n, replay_code(it, "")))
        if f["asm"] == "has-environments":
            continue
        nasm += 1
        if f["asm"] != "same" or f.get("asm2") != "same":
            viols.append(Viol("core:asm-shape:" + (f["asm"] + f.get("asm2", "")).split(".")[-1].rstrip("0123456789-"),
                              "%s: (asm (disasm f)) differs at %s / second pass %s" % (n, f["asm"], f.get("asm2")), replay_code(it, "")))
    chk.part("core-functions", functions=len(names), upvalue_free_assembled=nasm)
    # behaviour of copies of core functions on argument sets
    calls = [(n, c) for n, c in sorted(G.CORE_CALLS.items()) if n in set(names) and c != ["[]"]]
    items = ["[:corecall %s [%s]]" % (G.jstr(n), " ".join(G.jstr(x) for x in c)) for n, c in calls]
    res = run_code(items, chunk=8)
    for (n, c), it, (st, text) in zip(calls, items, res):
        chk.add(evaluations=len(c) * 3)
        if st != "OK":
            viols.append(Viol("corecall:%s:%s" % (st.lower(), n), "%s -> %s %s" % (n, st, text[:300]), replay_code(it, "")))
            continue
        f = text.split("\t")
        chk.outcome("corecall:" + f[0][:60])
        for v in f[1:]:
            name, _, log = v.partition(":")
            if log != "=":
                viols.append(Viol("corecall:%s:%s" % (name, n), "%s: %s copy log %s, original %s" % (n, name, log, f[0]), replay_code(it, "")))
    chk.part("core-functions", called=len(calls))
    return viols


def part_c02(chk):
    """the C02 expression enumerator as a corpus of upvalue-free functions"""
    viols = []
    corpus, note = G.c02_corpus(chk.quick)
    if note:
        chk.cap("c02 corpus: " + note)
    if not corpus:
        return viols
    call = "[1 10 @[]]"
    items = ["[:fn %s [%s] true]" % (G.jstr(src), G.jstr(call)) for _, src in corpus]
    saved = _core.MEM_LIMIT
    _core.MEM_LIMIT = 1500 * 1024 * 1024
    try:
        res = run_code(items, chunk=max(50, len(items) // (NPROC * 4)), timeout=60)
    finally:
        _core.MEM_LIMIT = saved
    fams = {}
    nocompile = nondet = 0
    for (fam, src), it, (st, text) in zip(corpus, items, res):
        chk.add(evaluations=7)
        expr = src.split("(def r\n", 1)[1].rsplit(")\n[r x y tr])", 1)[0].replace("\n", " ")
        if st == "OK" and text == "nocompile":
            nocompile += 1
            continue
        if st == "OK" and text == "nondeterministic":
            nondet += 1
            continue
        fams[fam] = fams.get(fam, 0) + 1
        if st != "OK":
            viols.append(Viol(DEADBRANCH_SIG if DEADBRANCH_MSG in text else "c02:%s:%s" % (fam, st.lower()),
                              "%s -> %s %s" % (expr[:100], st, text[:300]), DEADBRANCH_REPLAY if DEADBRANCH_MSG in text else replay_code(it, "")))
            continue
        f = text.split("\t")
        ref = f[0]
        chk.outcome("c02:" + ref[:50])
        for v in f[1:]:
            name, _, rest = v.partition(":")
            if rest == "unmarshalable":
                if name != "plain":
                    viols.append(Viol("c02:%s:%s:error" % (fam, name), "%s: %s" % (expr[:100], v), replay_code(it, "")))
                continue
            shape, _, log = rest.partition(":")
            if shape != "same":
                viols.append(Viol("c02:%s:%s:shape:%s" % (fam, name, shape.split(".")[-1].rstrip("0123456789-")),
                                  "%s: disassembly of the %s copy differs at %s" % (expr[:100], name, shape), replay_code(it, "field " + v)))
            if log != "=":
                viols.append(Viol("c02:%s:%s:behaviour" % (fam, name), "%s: %s copy log %s, original %s" % (expr[:100], name, log, ref),
                                  replay_code(it, "first field = original log; every other field must end in :=")))
    chk.part("c02-corpus", functions=sum(fams.values()), not_compilable_skipped=nocompile,
             nondeterministic_skipped=nondet, by_family=str(sorted(fams.items())))
    return viols


ASMBIT = [
    ("(fn [a] (var x a) (def g (fn [] (++ x))) (def g2 (unmarshal (marshal g))) [(g) (g2) (g2) (g)])", "1"),
    ("(fn [a] (var x a) (var y 5) (def g (fn [] (++ x))) (def h (fn [] (+= y x))) "
     "(def [g2 h2] (unmarshal (marshal [g h]))) [(g) (h) (g2) (h2) (g2) (h2)])", "1"),
    ("(fn [a] (var x a) (def g (fn [] (++ x))) (def f (fiber/new (fn [] (yield (marshal g))))) (def g2 (unmarshal (resume f))) [(g) (g2) (g2)])", "1"),
]


def part_asm_live(chk):
    """functions produced by asm whose body marshals a closure over their own live frame"""
    viols = []
    items = ["[:asmbit %s %s]" % (G.jstr(s), a) for s, a in ASMBIT]
    res = run_code(items, chunk=1)
    for (s, a), it, (st, text) in zip(ASMBIT, items, res):
        chk.add(evaluations=2)
        chk.outcome("asmbit:" + st)
        if st != "OK":
            viols.append(Viol("asm:no-closure-bitset:marshal-closure-over-live-frame:" + st.lower(),
                              "(asm (disasm f)) %s where f returns normally: f = %s [%s]" % (st, s, text[-300:].replace("\n", " ")),
                              "(def f %s)\n(pp (f %s))\n(def f2 (asm (disasm f)))\n(pp (f2 %s))  # the assembled copy crashes (NULL closure_bitset in marsh.c marshal_one_env)\n" % (s, a, a)))
            continue
        lo, la = text.split("\t")
        if lo != la:
            viols.append(Viol("asm:live-closure:behaviour", "%s: original %s, assembled copy %s" % (s, lo, la), replay_code(it, "")))
    chk.part("asm-live-closure", cases=len(ASMBIT))
    return viols


def part_images(chk):
    viols = []
    mods = G.image_modules(chk.quick)
    items = ["[:image %s [%s]]" % (G.jstr(src), " ".join("[%s %s]" % (G.jstr(n), ":value" if a == ":value" else G.jstr(a)) for n, a in calls))
             for _, src, calls in mods]
    res = run_code(items, chunk=8)
    for (sub, src, calls), it, (st, text) in zip(mods, items, res):
        chk.add(evaluations=len(calls) * 2)
        sig = "image:features-" + "-".join(map(str, sub[:3]))
        if st != "OK":
            viols.append(Viol(sig + ":" + st.lower(), "module %s -> %s %s" % (src[:80], st, text[:300]), replay_code(it, "")))
            continue
        l1, l2, keys, root = text.split("\t")
        chk.outcome("image:" + l1[:80])
        if "missing" in l1 or "E" in l1.replace("VE", ""):
            pass
        if l1 != l2 or keys != "=" or root != "root":
            viols.append(Viol(sig + ":behaviour", "module %s: original env log %s, loaded image log %s, keys %s, proto %s" % (src[:80], l1, l2, keys, root),
                              replay_code(it, "fields: log of the original environment, log of (load-image (make-image env)), binding names, prototype")))
    chk.part("images", modules=len(mods))
    return viols


def part_channels(chk):
    viols = []
    maxops = 5 if chk.quick else 7
    cases = []
    for cap in (0, 1, 2, 3):
        seqs = set()
        for n in range(0, maxops + 1):
            for ops in itertools.product("gt", repeat=n):
                seqs.add(ops)
        for ops in sorted(seqs, key=lambda o: (len(o), o)):
            if cap == 0 and ops:
                continue
            for closed in (False, True):
                cases.append((cap, ops, closed))
    # ring positions: c give+take cycles move the head, then fill to n (every head x count, ring sizes 2, 4, 8)
    have = set(cases)
    for cap in (1, 2, 3, 5):
        for cyc in range(0, 10):
            for pre in range(0, cap + 1):
                for n in range(0, cap + 1):
                    ops = ("g",) * pre + ("t",) * pre + ("g", "t") * cyc + ("g",) * n
                    for closed in (False, True):
                        if (cap, ops, closed) not in have:
                            have.add((cap, ops, closed))
                            cases.append((cap, ops, closed))
    items = ["[:chan %d [%s] %s]" % (cap, " ".join(":" + o for o in ops), "true" if c else "false") for cap, ops, c in cases]
    res = run_code(items)
    for (cap, ops, closed), it, (st, text) in zip(cases, items, res):
        chk.add(evaluations=1)
        sig = "channel:cap%d:%s" % (cap, "closed" if closed else "open")
        eo, ei = G.chan_expected(cap, ops, closed)
        exp = eo + " " + ei
        if st != "OK":
            viols.append(Viol(sig + ":" + st.lower(), "%s -> %s %s" % (it, st, text[:300]), replay_code(it, "expected " + exp)))
            continue
        o, c = text.split("\t")
        if o != exp:
            raise HarnessError("channel model disagrees on the ORIGINAL: %s -> %s, model %s" % (it, o, exp))
        chk.outcome("chan:" + c)
        if c != exp:
            viols.append(Viol(sig + ":state", "%s: copy observed %s, expected %s" % (it, c, exp), replay_code(it, "fields: original, copy")))
    chk.part("channels", cases=len(cases), max_ops=maxops)
    return viols


def part_pegs(chk):
    viols = []
    texts = G.PEG_TEXTS
    items = ["[:peg %s [%s] %s]" % (G.jstr(src), " ".join('"%s"' % t for t in texts), "true" if stable else "false")
             for src, stable in G.PEGS]
    res = run_code(items, chunk=4)
    for (src, stable), it, (st, text) in zip(G.PEGS, items, res):
        chk.add(evaluations=len(texts) * 3)
        sig = "peg:" + re.sub(r"[^A-Za-z0-9]+", "-", src[:40])
        if st != "OK":
            if re.search(r"\((int|int-be|uint-be) ", src) and "invalid peg bytecode" in text:
                # one defect, one signature: the verifier in peg_unmarshal rejects every int / *-be reader
                viols.append(Viol("peg:readint-signed-or-bigendian:unmarshal-rejects",
                                  "%s -> %s %s" % (src[:80], st, text[:300]),
                                  "(def p (peg/compile '(int 1)))\n(pp (peg/match p \"\\x01\"))\n"
                                  "(pp (peg/match (unmarshal (marshal p)) \"\\x01\"))  # error: invalid peg bytecode\n"))
            else:
                viols.append(Viol(sig + ":" + st.lower(), "%s -> %s %s" % (src[:80], st, text[:300]), replay_code(it, "")))
            continue
        ref, plain, dct, ty, stab, pair = text.split("\t")
        chk.outcome("peg:" + ref[:80])
        if plain not in ("=", "unmarshalable") or dct != "=" or pair != "=":
            viols.append(Viol(sig + ":behaviour", "%s: original %s; copies: plain %s, lookup %s, shared %s" % (src[:80], ref, plain, dct, pair),
                              replay_code(it, "fields: original log, plain copy, copy with image dictionaries, type+sharing, byte-stable, copy from a pair")))
        if ty != "core/pegtrue":
            viols.append(Viol(sig + ":sharing", "%s: type/sharing %s" % (src[:80], ty), replay_code(it, "")))
        if stab not in ("-", "true"):
            viols.append(Viol(sig + ":remarshal", "%s: marshalling the copy gives other bytes than marshalling the original" % src[:80], replay_code(it, "")))
    chk.part("pegs", grammars=len(G.PEGS), texts=len(texts))
    return viols


WEAK_EXPECT = {"normal": "value-kept key-kept plain", "k": "value-kept key-gone plain",
               "v": "value-gone key-kept plain", "kv": "value-gone key-gone plain"}


def part_weak(chk):
    """weak tables stay weak (and normal ones normal): what a collection removes from the copy"""
    viols = []
    cases = [(k, p) for k in WEAK_EXPECT for p in (None,) + tuple(WEAK_EXPECT)]
    items = ["[:weak :%s %s]" % (k, ":" + p if p else "nil") for k, p in cases]
    res = run_code(items)
    for (k, p), it, (st, text) in zip(cases, items, res):
        chk.add(evaluations=1)
        exp = WEAK_EXPECT[k] + (" / " + WEAK_EXPECT[p] if p else "")
        chk.outcome("weak:" + text)
        if st != "OK" or text != exp:
            viols.append(Viol("weak-table:%s%s:collection" % (k, ":proto-" + p if p else ""),
                              "%s: after gccollect the copy has [%s], expected [%s] (%s)" % (it, text, exp, st), replay_code(it, "expected " + exp)))
    chk.part("weak-tables", cases=len(cases))
    return viols


def part_rngs(chk):
    viols = []
    cases = [(seed, adv) for seed in (0, 1, 5, 127, 128, 8192, 2147483647, -1, -8193) for adv in (0, 1, 7)]
    items = ["[:rng %d %d]" % c for c in cases]
    res = run_code(items)
    for (seed, adv), it, (st, text) in zip(cases, items, res):
        chk.add(evaluations=1)
        if st != "OK":
            viols.append(Viol("rng:" + st.lower(), "%s -> %s %s" % (it, st, text[:200]), replay_code(it, "")))
            continue
        a, b, b2, a2, ty = text.split("\t")
        chk.outcome("rng:" + a)
        if a != b or a2 != b2 or ty != "core/rngtrue" or a == a2:
            viols.append(Viol("rng:sequence", "%s: original draws %s then %s, copy %s then %s (%s)" % (it, a, a2, b, b2, ty), replay_code(it, "")))
    chk.part("rngs", cases=len(cases))
    return viols


# ------------------------------------------------------------------ main

PARTS = []


def main():
    chk = Check("C09")
    chk.rule("value graphs: every rooted graph of <= N container nodes over {array, tuple, bracket tuple, table, "
             "struct, buffer} (tables and structs with every compatible prototype edge), every slot assigned to a "
             "leaf {7, \"s\"} or to any node (sharing, cycles, self reference, containers as table/struct keys), one "
             "representative per node renaming (breadth-first numbering); integers: whole ranges element-wise; leaves: "
             "every type at every length/width boundary; code: template families x call/resume sequences (see parts). "
             "A case is distinct if its recipe differs.")
    chk.assume("the prelude's canonical printer and janet's reader/constructors (array/push, put, struct, tuple) are trusted; "
               "peg/match, resume and function calls on the ORIGINAL are trusted as the behavioural reference (checked by C12/C05/C02)")
    t_build = chk.elapsed()
    vjanet("fast")
    # a cold build (seconds on an idle machine, minutes on a loaded one) is not charged to the
    # exploration budget
    chk.budget += chk.elapsed() - t_build
    only = chk.args.only
    viols = []
    for name, fn in PARTS:
        if only and name not in only.split(","):
            continue
        if chk.out_of_time(0.92):
            chk.cap("part %s not run (out of time)" % name)
            continue
        t = chk.elapsed()
        v = fn(chk)
        viols += v
        chk.part("time", **{name: round(chk.elapsed() - t, 1)})
    # a few cases written out: first/middle/last of the first batches and of the last one
    for smp in _SAMPLES[:3] + _SAMPLES[-3:]:
        chk.sample(smp, limit=12)
    if not chk.cov["caps_hit"] and not only:
        chk.cov["bound_completed"] = "all parts of the %s tier (see parts)" % chk.tier
    report(chk, viols)
    chk.finish()


PARTS += [("ints", part_ints), ("leaves", part_leaves), ("closures", part_closures), ("fibers", part_fibers),
          ("functions", part_functions), ("c02", part_c02), ("core", part_core), ("asmlive", part_asm_live), ("images", part_images),
          ("channels", part_channels), ("pegs", part_pegs), ("rngs", part_rngs), ("weak", part_weak), ("graphs", part_graphs)]

if __name__ == "__main__":
    harness_guard(main)
