"""C09 reference side: value graphs as construction recipes, the canonical text the
prelude's `canon` must print for them (independent prediction of the *original*), the
bounded-exhaustive graph generator, and small behavioural models (counters, fibers,
channels) used by check.py.

A recipe is a list of nodes; node i = (kind, slots...). A slot is a *descriptor*:
    ("n", i)                 reference to node i (edge)
    None / True / False
    ("int", v)               number with an int32 value
    ("real", bits64)         number given by its IEEE bits
    ("str"|"sym"|"kw", n, seed)   byte string of length n, byte j = (seed + 37*j) & 255
    ("lit", "text")          string "text" (graph leaf)
    ("s64", v) / ("u64", v)  boxed 64-bit integers
    ("arr"|"tup"|"btup", d...)       fresh containers (trees, no sharing)
    ("tab"|"struct", k, v, k, v...)
    ("buf", n, seed)
Node kinds:
    A x y      array  @[x y]            P x y   tuple (x y)       B x y   bracket tuple [x y]
    T x y p    table  @{:a x  y :v} with prototype p (None or ("n", j) of a table node)
    S x y p    struct  {:a x  y :v} with prototype p (None or ("n", j) of a struct node)
    U          buffer @"bufI"
    A0/A1/P0/P1 ... arity variants (see KIND_SLOTS)
"""
import math
import struct as _struct

# ------------------------------------------------------------------ canon text


def hexbytes(b):
    out = []
    for c in b:
        if c == 34:
            out.append('\\"')
        elif c == 92:
            out.append("\\\\")
        elif 32 <= c < 127:
            out.append(chr(c))
        else:
            out.append("\\x%02x" % c)
    return "".join(out)


def bits_to_double(bits):
    return _struct.unpack("<d", _struct.pack("<Q", bits))[0]


def double_to_bits(x):
    return _struct.unpack("<Q", _struct.pack("<d", x))[0]


def canon_num(x):
    if isinstance(x, int):
        return "%d" % x
    if x != x:
        return "nan"
    if x == math.inf:
        return "inf"
    if x == -math.inf:
        return "-inf"
    if x == 0 and math.copysign(1.0, x) < 0:
        return "-0"
    if x == math.trunc(x) and abs(x) < 1e15:
        return "%d" % int(x)
    return "%.17g" % x


def strbytes(n, seed):
    return bytes(((seed + 37 * j) & 255) for j in range(n))


TYPE_RANK = dict(nil=0, boolean=1, number=2, string=3, symbol=4, keyword=5, tuple=6, struct=7,
                 buffer=8, array=9, table=10)


class Canon:
    """Prints the canon text of a value described by descriptors over a node list.
    `replaced`: dict node index -> descriptor printed instead of the node (registry variants)."""

    def __init__(self, nodes, replaced=None):
        self.nodes = nodes
        self.replaced = replaced or {}

    def text(self, d):
        self.seen = {}
        return self._go(d, self.seen)

    def plain(self, d):
        return self._go(d, {})

    # identity key of a descriptor for the `seen` table (None = not identity tracked)
    def _ident(self, d):
        if isinstance(d, tuple):
            if d[0] == "n":
                return ("n", d[1])
            if d[0] in ("s64", "u64"):
                return d            # abstracts compare by value in the seen table
            if d[0] in ("arr", "tab", "buf", "warr", "wtabk", "wtabv", "wtabkv", "proto"):
                return ("fresh", id(d))
        return None

    def rank(self, d):
        d = self._resolve(d)
        if d is None:
            return 0
        if d is True or d is False:
            return 1
        k = d[0]
        if k in ("int", "real"):
            return 2
        if k in ("str", "lit"):
            return 3
        if k == "sym":
            return 4
        if k == "kw" or k == "kwlit":
            return 5
        if k in ("tup", "btup", "P", "B"):
            return 6
        if k in ("struct", "S", "sproto"):
            return 7
        if k in ("buf", "U"):
            return 8
        if k in ("arr", "A", "warr"):
            return 9
        if k in ("tab", "T", "wtabk", "wtabv", "wtabkv", "proto"):
            return 10
        return 11

    def _resolve(self, d):
        """node reference -> ('A', ...) node tuple tagged with its kind; replaced nodes -> replacement"""
        while isinstance(d, tuple) and d[0] == "n":
            if d[1] in self.replaced:
                d = self.replaced[d[1]]
                continue
            node = self.nodes[d[1]]
            return (node[0][0],) + tuple(node[1:]) + (("idx", d[1]),)
        return d

    def _pairs(self, kvs, seen):
        ks = []
        ranks = [self.rank(k) for k, _ in kvs]
        for (k, v), r in zip(kvs, ranks):
            # like canon2.janet: the text of a key only matters when ranks tie
            txt = self.plain(k).encode("latin-1", "replace") if ranks.count(r) > 1 else b""
            ks.append((r, txt, k, v))
        for i in range(len(ks)):
            for j in range(i + 1, len(ks)):
                if ks[i][0] == ks[j][0] and ks[i][1] == ks[j][1]:
                    raise Ambiguous("two keys with the same canonical text")
        ks.sort(key=lambda t: (t[0], t[1]))
        parts = []
        for _, _, k, v in ks:
            parts.append(self._go(k, seen) + " " + self._go(v, seen))
        return " ".join(parts)

    def _go(self, d, seen):
        if isinstance(d, tuple) and d[0] == "n" and d[1] in self.replaced:
            return self._go(self.replaced[d[1]], seen)
        if d is None:
            return "nil"
        if d is True:
            return "true"
        if d is False:
            return "false"
        k = d[0]
        if k == "int":
            return "%d" % d[1]
        if k == "real":
            return canon_num(bits_to_double(d[1]))
        if k == "str":
            return '"' + hexbytes(strbytes(d[1], d[2])) + '"'
        if k == "lit":
            return '"' + hexbytes(d[1].encode()) + '"'
        if k == "sym":
            return "'" + hexbytes(strbytes(d[1], d[2]))
        if k == "kw":
            return ":" + hexbytes(strbytes(d[1], d[2]))
        if k == "kwlit":
            return ":" + hexbytes(d[1].encode())
        if k in ("tup", "btup"):
            o, c = ("(", ")") if k == "tup" else ("[", "]")
            return o + " ".join(self._go(x, seen) for x in d[1:]) + c
        if k == "struct":
            kvs = [(d[i], d[i + 1]) for i in range(1, len(d), 2)]
            return "{" + self._pairs(kvs, seen) + "}"
        if k == "sproto":
            kvs = [(d[i], d[i + 1]) for i in range(2, len(d), 2)]
            return "{" + self._pairs(kvs, seen) + "}^" + self._go(d[1], seen)
        ident = self._ident(d)
        if k == "n":
            node = self.nodes[d[1]]
            kind = node[0][0]
            if kind in ("P", "B"):
                o, c = ("(", ")") if kind == "P" else ("[", "]")
                return o + " ".join(self._go(x, seen) for x in node[1:]) + c
            if kind == "S":
                return "{" + self._pairs(struct_pairs(node), seen) + "}" + self._proto(node, seen)
        if ident in seen:
            return "#%d" % seen[ident]
        n = len(seen)
        seen[ident] = n
        pre = "#%d=" % n
        if k == "s64":
            return pre + "s64:%d" % d[1]
        if k == "u64":
            return pre + "u64:%d" % d[1]
        if k in ("arr", "warr"):
            return pre + "@[" + " ".join(self._go(x, seen) for x in d[1:]) + "]"
        if k in ("tab", "wtabk", "wtabv", "wtabkv"):
            kvs = [(d[i], d[i + 1]) for i in range(1, len(d), 2)]
            return pre + "@{" + self._pairs(kvs, seen) + "}"
        if k == "proto":
            t = d[1]
            kvs = [(t[i], t[i + 1]) for i in range(1, len(t), 2)]
            return pre + "@{" + self._pairs(kvs, seen) + "}^" + self._go(d[2], seen)
        if k == "buf":
            return pre + '@"' + hexbytes(strbytes(d[1], d[2])) + '"'
        if k == "n":
            node = self.nodes[d[1]]
            kind = node[0][0]
            if kind == "A":
                return pre + "@[" + " ".join(self._go(x, seen) for x in node[1:]) + "]"
            if kind == "U":
                return pre + '@"' + hexbytes(("buf%d" % d[1]).encode()) + '"'
            if kind == "T":
                return pre + "@{" + self._pairs(table_pairs(node), seen) + "}" + self._proto(node, seen)
        raise ValueError("canon: %r" % (d,))

    def _proto(self, node, seen):
        p = node_proto(node)
        if p is None:
            return ""
        return "^" + self._go(p, seen)


class Ambiguous(Exception):
    pass


KW_A = ("kwlit", "a")
KW_V = ("kwlit", "v")
KW_B = ("kwlit", "b")

# kind -> (number of ordinary slots, has proto slot)
KIND_SLOTS = {
    "A": (2, False), "P": (2, False), "B": (2, False), "T": (2, True), "S": (2, True), "U": (0, False),
    "A1": (1, False), "P1": (1, False), "T1": (1, True), "S1": (1, True),
    "A3": (3, False), "P3": (3, False),
}


def table_pairs(node):
    """T x y p -> {:a x, y :v};  T1 x p -> {:a x}"""
    kind = node[0]
    if kind in ("T", "S"):
        return [(KW_A, node[1]), (node[2], KW_V)]
    return [(KW_A, node[1])]


struct_pairs = table_pairs


def node_proto(node):
    nslots, hasp = KIND_SLOTS[node[0]]
    return node[1 + nslots] if hasp else None


def is_mutable_kind(kind):
    return kind[0] in "ATU"


def node_edges(node):
    """all node indices referenced by a node (slots and proto)"""
    return [s[1] for s in node[1:] if isinstance(s, tuple) and s[0] == "n"]


def build_order(nodes):
    """Order in which the immutable nodes (tuples, structs) can be constructed: an immutable
    node needs every immutable node it references to exist. Returns None if impossible (a
    cycle through immutable nodes only)."""
    imm = [i for i, nd in enumerate(nodes) if not is_mutable_kind(nd[0])]
    done, order = set(), []
    pending = list(imm)
    while pending:
        progress = False
        for i in list(pending):
            deps = [j for j in node_edges(nodes[i]) if not is_mutable_kind(nodes[j][0])]
            if all(j in done for j in deps):
                done.add(i)
                order.append(i)
                pending.remove(i)
                progress = True
        if not progress:
            return None
    return order


# ------------------------------------------------------------------ graph enumeration

def gen_graphs(max_nodes, kinds, leaves, shard=None):
    """Every rooted graph with <= max_nodes container nodes of the given kinds, every
    assignment of each slot to a leaf or to a node, up to renaming of nodes (shard=(k, m): only every m-th root configuration): nodes are
    numbered in breadth-first discovery order from the root (node 0), so each isomorphism
    class is produced exactly once and every node is reachable. Yields node lists."""
    counter = [0]

    def expand(nodes, i):
        # nodes: list of [kind, slots...] (mutable lists, slots filled up to node i-1)
        if i == 1 and shard is not None:
            # sharding: the sub-space below each complete root node is one unit of work
            counter[0] += 1
            if counter[0] % shard[1] != shard[0]:
                return
        if i == len(nodes):
            yield [tuple(n) for n in nodes]
            return
        kind = nodes[i][0]
        nslots, hasp = KIND_SLOTS[kind]
        total = nslots + (1 if hasp else 0)

        def fill(s):
            if s == total:
                yield from expand(nodes, i + 1)
                return
            proto = hasp and s == nslots
            if proto:
                choices = [None]
                compat = "T" if kind[0] == "T" else "S"
                for j, nd in enumerate(nodes):
                    if nd[0][0] == compat:
                        # a struct cannot be its own prototype (immutable)
                        if compat == "S" and j == i:
                            continue
                        choices.append(("n", j))
                newkinds = [k for k in kinds if k[0] == compat]
            else:
                choices = list(leaves) + [("n", j) for j in range(len(nodes))]
                newkinds = kinds
            for c in choices:
                nodes[i].append(c)
                yield from fill(s + 1)
                nodes[i].pop()
            if len(nodes) < max_nodes:
                for k in newkinds:
                    nodes.append([k])
                    nodes[i].append(("n", len(nodes) - 1))
                    yield from fill(s + 1)
                    nodes[i].pop()
                    nodes.pop()
        yield from fill(0)

    for k in kinds:
        yield from expand([[k]], 0)


# ------------------------------------------------------------------ descriptor -> Janet data text

def jdesc(d):
    if d is None:
        return "nil"
    if d is True:
        return "true"
    if d is False:
        return "false"
    k = d[0]
    if k == "n":
        return "[:n %d]" % d[1]
    if k == "int":
        return "[:int %d]" % d[1]
    if k == "real":
        return "[:real %d %d]" % (d[1] >> 32, d[1] & 0xFFFFFFFF)
    if k in ("str", "sym", "kw", "buf"):
        return "[:%s %d %d]" % (k, d[1], d[2])
    if k == "lit":
        return '"%s"' % d[1]
    if k == "kwlit":
        return ":" + d[1]
    if k in ("s64", "u64"):
        return '[:%s "%d"]' % (k, d[1])
    if k in ("arr", "tup", "btup", "tab", "struct", "warr", "wtabk", "wtabv", "wtabkv", "proto", "sproto"):
        return "[:%s %s]" % (k, " ".join(jdesc(x) for x in d[1:]))
    raise ValueError(d)


def jnodes(nodes):
    return "[" + " ".join("[:%s %s]" % (n[0], " ".join(jdesc(s) for s in n[1:])) for n in nodes) + "]"


def is_pure_immutable(nodes):
    return all(not is_mutable_kind(n[0]) for n in nodes)
