"""C09: generated corpus of functions (Janet source text + call argument sets), PEG grammars,
environment modules, and the Python behavioural models of the closure / fiber / channel
templates that live in driver_code.janet."""
import itertools

# ------------------------------------------------------------------ function corpus


def jstr(s):
    out = ['"']
    for ch in s:
        c = ord(ch)
        if ch == '"':
            out.append('\\"')
        elif ch == "\\":
            out.append("\\\\")
        elif ch == "\n":
            out.append("\\n")
        elif 32 <= c < 127:
            out.append(ch)
        else:
            out.append("\\x%02x" % c)
    out.append('"')
    return "".join(out)


CONSTS = ["0", "1", "-1", "127", "128", "-127", "-128", "-129", "-32767", "-32768", "-32769", "255", "256", "8191", "8192", "-8192", "-8193", "32767", "32768",
          "65535", "65536", "2147483647", "-2147483648", "2147483648", "-2147483649", "0.5", "1e100", "-0.25",
          '""', '"s"', '"\\0\\xff\\n"', ":k", ":", "'sym", "'(1 2)", "'[1 2]", "{:a 1}", "'{:a (1 2) [3] 4}",
          "nil", "true", "false", '"' + "x" * 200 + '"', "math/pi", "math/inf", "math/nan",
          "'(a (b (c (d))))", "@\"buf\"", "@[1 2]", "@{:a 1}", "(int/s64 5)", "(int/u64 \"18446744073709551615\")"]


def arity_shapes():
    names = "abcdefgh"
    out = []
    for r in range(0, 3):
        for o in range(0, 3):
            for rest in ("", "&", "&keys", "&named"):
                ps = list(names[:r])
                k = r
                if o:
                    ps.append("&opt")
                    ps += list(names[k:k + o])
                    k += o
                use = list(names[:k])
                if rest == "&":
                    ps += ["&", "r"]
                    use.append("r")
                elif rest == "&keys":
                    ps += ["&keys", "{:x x :y y}"]
                    use += ["x", "y"]
                elif rest == "&named":
                    ps += ["&named", "x", "y"]
                    use += ["x", "y"]
                src = "(fn shape [%s] [%s])" % (" ".join(ps), " ".join(use))
                calls = []
                for n in range(0, k + 5):
                    args = [str(10 + i) for i in range(min(n, k))]
                    extra = n - min(n, k)
                    if rest in ("&keys", "&named"):
                        # only whole key/value pairs: with an odd number of trailing arguments janet
                        # reads one stale stack slot (unrelated defect, nondeterministic value)
                        if n > k and extra % 2:
                            continue
                        kv = [":x", "1", ":y", "2"][:extra]
                        args += kv
                    else:
                        args += [str(90 + i) for i in range(extra)]
                    calls.append("[" + " ".join(args) + "]")
                out.append((src, calls))
    return out


BODIES = [
    # (source, calls)
    # variadic functions whose body never names the rest slot (the slot must exist all the same)
    ("(fn [x & more] x)", ["[1]", "[1 2 3]"]),
    ("(fn [& rest] nil)", ["[]", "[1 2]"]),
    ("(fn [& rest] 7)", ["[]", "[1]"]),
    ("(fn [x &opt y & more] x)", ["[1]", "[1 2 3 4]"]),
    ("(fn [x &keys ks] x)", ["[1]", "[1 :a 2]"]),
    ("(fn [x &named a b] x)", ["[1]", "[1 :a 2]"]),
    ("(fn outer [x] (def inner (fn [y & more] y)) (inner x 2 3))", ["[5]"]),
    ("(fn [a b] (+ (* a 2) b))", ["[1 2]", "[0.5 -1]", '["x" 1]', "[2147483647 1]"]),
    ("(fn [a b] (if (< a b) [:lt a] (if (= a b) :eq [:gt b])))", ["[1 2]", "[2 2]", "[3 2]", '["a" "b"]']),
    ("(fn [n] (var s 0) (for i 0 n (+= s i)) s)", ["[0]", "[1]", "[10]", "[1000]"]),
    ("(fn [n] (var s 0) (var i 0) (while (< i n) (if (= i 5) (break)) (+= s i) (++ i)) [s i])", ["[3]", "[10]"]),
    ("(fn [xs] (var acc @[]) (each x xs (if (odd? x) (array/push acc (* x x)))) acc)", ["[[1 2 3 4 5]]", "[[]]"]),
    ("(fn [x] (cond (nil? x) :nil (number? x) (case x 0 :zero 1 :one :many) (string? x) (length x) :other))",
     ["[nil]", "[0]", "[1]", "[7]", '["abc"]', "[:k]"]),
    ("(fn [a] (let [b (+ a 1) c (* b 2)] (let [a (- c b)] [a b c])))", ["[1]", "[10]"]),
    ("(fn [a b] (and a b (or false nil a)))", ["[1 2]", "[nil 2]", "[false false]", "[1 nil]"]),
    ("(fn [[a b] {:k c :j [d]}] [a b c d])", ["[[1 2] {:k 3 :j [4]}]", "[[1] {}]", "[1 2]"]),
    ("(fn [a] (defn g [x] (+ x a)) (g 1))", ["[1]", "[100]"]),
    ("(fn [a] (defn g [x] (defn h [y] (+ x y a)) (h 2)) (g 1))", ["[1]", "[100]"]),
    ("(fn [a] (var n a) (defn inc! [] (++ n)) (inc!) (inc!) n)", ["[1]", "[0.5]"]),
    ("(fn [a] (def fs (seq [i :range [0 3]] (fn [] (+ i a)))) (map (fn [f] (f)) fs))", ["[1]", "[10]"]),
    ("(fn [a] (def add (fn [b] (fn [c] (+ a b c)))) ((add 1) 2))", ["[1]", "[10]"]),
    ("(fn [a] (var total 0) (def fs @[]) (for i 0 3 (var j i) (array/push fs (fn [] (++ j) (+= total j) j))) "
     "[(map (fn [f] (f)) fs) (map (fn [f] (f)) fs) total a])", ["[1]"]),
    ("(fn fact [n] (if (< n 2) 1 (* n (fact (- n 1)))))", ["[0]", "[5]", "[20]", "[170]"]),
    ("(fn [n] (var ev? nil) (var od? nil) (set ev? (fn [k] (if (= k 0) true (od? (- k 1))))) "
     "(set od? (fn [k] (if (= k 0) false (ev? (- k 1))))) [(ev? n) (od? n)])", ["[0]", "[7]", "[10]"]),
    ("(fn lp [n acc] (if (= n 0) acc (lp (- n 1) (+ acc n))))", ["[10 0]", "[20000 0]"]),
    ("(fn [a] (try (do (if (> a 1) (error [:big a])) [:ok a]) ([e] [:caught e])))", ["[1]", "[2]"]),
    ("(fn [a] (try (try (error a) ([e] (error [e e]))) ([e2 f] [e2 (fiber/status f)])))", ["[1]", '["m"]']),
    ("(fn [a] (def r (protect (+ a 1))) r)", ["[1]", '["s"]']),
    ("(fn [a] (with-dyns [:depth a] (defn g [] (dyn :depth)) [(g) (dyn :depth)]))", ["[1]", "[:x]"]),
    ("(fn [n] (def f (coro (for i 0 n (yield (* i i))))) (seq [x :in f] x))", ["[0]", "[4]"]),
    ("(fn [n] (def f (fiber/new (fn [] (var s 0) (forever (set s (+ s (yield s))))))) (seq [i :range [0 n]] (resume f i)))",
     ["[1]", "[5]"]),
    ("(fn [s] (string/join (map string/ascii-upper (string/split \",\" s)) \"-\"))", ['["a,b,c"]', '[""]']),
    ("(fn [& xs] (apply + 1 2 xs))", ["[]", "[3]", "[3 4 5]"]),
    ("(fn [xs] [;xs 0 ;xs])", ["[[1 2]]", "[[]]", "[@[1]]"]),
    ("(fn [a b] ~(x ,a (y ,;b) [,a] {:k ,a}))", ["[1 [2 3]]", '["s" []]']),
    ("(fn [t] (def out @[]) (loop [[k v] :pairs t :when (number? v)] (array/push out [k v])) (sort out))",
     ["[{:a 1 :b 2 :c :x}]", "[@{}]"]),
    ("(fn [x] (match x [a b] [:pair a b] {:k v} [:tab v] (n (number? n)) [:num n] _ :other))",
     ["[[1 2]]", "[{:k 5}]", "[7]", "[:z]"]),
    ("(fn [a] (do (def x 1) (upscope (def y (+ x a))) [x y]))", ["[1]"]),
    ("(fn [a] (def b @\"\") (with-dyns [:out b] (print \"v=\" a) (prin a a)) (string b))", ["[1]", '["s"]']),
    ("(fn [a] (-> a (+ 1) (* 2) (string \"!\")))", ["[1]", "[2.5]"]),
    ("(fn [a] (band (bor a 0xff) (bxor a 0x0f) (blshift 1 a) (brshift 256 a) (bnot a)))", ["[1]", "[4]", "[31]"]),
    ("(fn [a b] [(div a b) (mod a b) (% a b) (/ a b) (- a) (- a b) (* a b b) (> a b) (>= a b) (<= a b) (not= a b)])",
     ["[7 2]", "[-7 2]", "[7 0.5]"]),
    ("(fn [a] (get a 0 :dflt))", ["[[1]]", "[[]]", '["x"]', "[nil]", "[{0 :z}]"]),
    ("(fn [a] (in a 0))", ["[[1]]", "[[]]", '["x"]']),
    ("(fn [a] (def t @{}) (put t a 1) (set (t :z) 2) [(length t) (t a) (t :z)])", ["[1]", "[:z]", "[nil]"]),
    ("(fn [a] (length a))", ["[[1 2]]", '["abc"]', "[@{}]", "[1]"]),
    ("(fn [a] (next a))", ["[[1 2]]", "[[]]", "[{:a 1}]"]),
    ("(fn [a] (def [x & more] a) [x more])", ["[[1 2 3]]", "[[1]]", "[[]]"]),
    ("(fn [f a] (f a))", ["[inc 1]", "[(fn [x] [x x]) 2]", "[:k {:k 5}]", "[{:k 5} :k]", "[1 2]"]),
    ("(fn [] (def a @[]) (array/push a a) (length a))", ["[]"]),
    ("(fn [x] (if-let [y (get x :a)] [y] :none))", ["[{:a 1}]", "[{}]"]),
    ("(fn [n] (generate [i :range [0 n]] i))", ["[3]"]),
    ("(fn [n] (var x 1) (repeat n (set x (* x 2))) x)", ["[0]", "[10]", "[60]"]),
    ("(fn [a] (def s (symbol \"g\" a)) (def k (keyword a)) [s k (string a 1)])", ['["x"]', "[5]"]),
    ("(fn [a] (quote (1 :k \"s\" sym [2 3] @[4] {:a 5} @{:b 6})))", ["[1]"]),
    ("(fn [a] (when a (def x 1) (def y 2) (+ x y a)))", ["[1]", "[nil]"]),
    ("(fn [a] (unless a :no))", ["[1]", "[nil]"]),
    ("(fn [a] (var i 0) (label out (forever (++ i) (if (> i a) (return out i)))))", ["[3]"]),
    ("(fn [a] (defer (+ a 1) (* a 2)))", ["[2]"]),
    ("(fn [a] (edefer (+ a 1) (if (> a 1) (error a) a)))", ["[1]", "[2]"]),
    ("(fn [a] (prompt :p (+ 1 (return :p a))))", ["[5]"]),
    ("(fn [x] (compare x 3))", ["[1]", "[3]", "[5]", '["s"]']),
    ("(fn [a] (var i a) (if nil (fn [] i)) i)", ["[1]"]),
    ("(fn [a] (var i a) (when false (def q (fn [] (+ i a))) (q)) (if true i (fn [] i)))", ["[1]"]),
    ("(fn [a] (string/format \"%v|%q|%j\" a a a))", ["[1]", '["s"]', "[:k]"]),
]


def const_functions():
    out = []
    for c in CONSTS:
        out.append(("(fn konst [a] [a %s])" % c, ["[1]"]))
    for c in CONSTS[:28]:
        out.append(("(fn kadd [a] (+ a %s))" % c, ["[1]", "[-1]", "[0.5]"]))
        out.append(("(fn kcmp [a] [(< a %s) (= a %s) (* %s a)])" % (c, c, c), ["[1]", "[-1]"]))
    return out


def big_functions(quick):
    out = []
    # many constants: constant indices and constants_length beyond 127 / 255
    for n in (100, 130, 300):
        consts = " ".join(str(100000 + 7 * i) for i in range(n))
        out.append(("(fn manyk [a] (+ a %s))" % consts, ["[1]", "[0.5]"]))
    # long bytecode: bytecode_length beyond 8191 (5-byte length in the image)
    n = 3000 if quick else 9000
    body = " ".join("(set x (+ x a %d))" % (i % 50) for i in range(n))
    out.append(("(fn longbc [a] (var x 0) %s x)" % body, ["[1]", "[0.5]"]))
    # many slots: more than 255 locals alive
    n = 300
    defs = " ".join("(def v%d (+ a %d))" % (i, i) for i in range(n))
    uses = " ".join("v%d" % i for i in range(n))
    out.append(("(fn manyslots [a] %s (+ %s))" % (defs, uses), ["[1]"]))
    # captured slots beyond the first 32 (second word of the closure bitset), in a nested definition
    defs = " ".join("(def w%d (+ a %d))" % (i, i) for i in range(40))
    out.append(("(fn hicap [a] (def mk (fn mk [] %s (var z a) (fn g [] (++ z) (+ z w39 w0)))) (def g (mk)) [(g) (g)])" % defs,
                ["[1]", "[0.5]"]))
    out.append(("(fn hicap2 [a] %s (var z a) (def g (fn g [] (++ z) (+ z w39 w0))) (def h (fn h [] [(g) (g)])) (h))" % defs, ["[1]"]))
    # deep nesting of definitions
    src = "(+ a0 a1 a2 a3 a4 a5)"
    for i in range(5, -1, -1):
        src = "(fn lvl%d [a%d] (def r %s) %s)" % (i, i, src, "r" if i == 5 else "(r %d)" % (i + 1))
    out.append((src, ["[1]"]))
    return out


def positioned_functions():
    """the same function at source lines beyond the width boundaries of the line deltas; a body
    whose lines go up and down (macro expansion: negative deltas)"""
    out = []
    body = "(fn pos [a]\n  (if a\n    (when-let [b (+ a 1)]\n\n\n      [a b])\n   :none))"
    for nl in (0, 126, 127, 128, 8190, 8191, 8192, 70000):
        out.append(("\n" * nl + body, ["[1]", "[nil]"]))
    out.append(("(fn cols [a] " + " " * 9000 + "(+ a 1))", ["[1]"]))
    return out


ASM_SOURCES = [
    # hand-assembled definitions: no name, source, source map or symbol map sections
    ("(asm '{:arity 1 :bytecode [(ret 0)]})", ["[1]", "[]", "[1 2]"]),
    ("(asm '{:bytecode [(retn)]})", ["[]"]),
    ("(asm '{:arity 1 :vararg true :bytecode [(ret 1)]})", ["[1]", "[1 2 3]"]),
    ("(asm '{:arity 2 :min-arity 1 :max-arity 2 :constants [8192 \"k\"] :bytecode [(ldc 2 0) (add 2 2 0) (ldc 3 1) (push2 2 3) (mktup 2) (ret 2)]})",
     ["[1]", "[1 2]"]),
    ("(asm '{:arity 1 :name \"named\" :source \"src.janet\" :sourcemap [(1 2) (-3 70000)] :bytecode [(addim 0 0 -128) (ret 0)]})", ["[1]"]),
    ("(asm '{:arity 1 :bytecode [(ltim 1 0 10) (jmpno 1 :neg) (ldi 1 32767) (ret 1) :neg (ldi 1 -32768) (ret 1)]})", ["[1]", "[11]"]),
    ("(asm '{:arity 1 :defs [{:arity 1 :environments [-1] :bytecode [(ldu 1 0 0) (add 0 0 1) (ret 0)]}] :bytecode [(clo 1 0) (ldi 2 5) (push 2) (call 1 1) (ret 1)]})",
     ["[1]"]),
]


def function_corpus(quick):
    out = list(BODIES) + list(ASM_SOURCES) + arity_shapes() + const_functions() + big_functions(quick) + positioned_functions()
    return out


# core functions with argument sets (pure, defined in boot.janet as bytecode)
CORE_CALLS = {
    "inc": ["[1]", "[0.5]", '["s"]'], "dec": ["[1]"], "identity": ["[:x]"],
    "map": ["[inc [1 2 3]]", "[+ [1 2] [10 20 30]]", "[(fn [a b c] [a b c]) [1] [2] [3]]", "[inc nil]"],
    "filter": ["[odd? [1 2 3 4 5]]", "[string? [1 \"a\"]]"],
    "reduce": ["[+ 0 [1 2 3]]", "[(fn [a x] [a x]) nil [1 2]]"], "reduce2": ["[+ [1 2 3]]", "[+ []]"],
    "sort": ["[@[3 1 2]]", "[@[3 1 2] >]", "[@[\"b\" \"a\"]]"], "sorted": ["[[3 1 2]]"],
    "sort-by": ["[- @[3 1 2]]"], "sorted-by": ["[length [\"aaa\" \"b\" \"cc\"]]"],
    "reverse": ["[[1 2 3]]", '["abc"]'], "reverse!": ["[@[1 2 3]]"],
    "interpose": ["[0 [1 2 3]]", "[0 []]"], "flatten": ["[[1 [2 [3 @[4]]]]]"],
    "partition": ["[2 [1 2 3 4 5]]", '[2 "abcde"]'], "partition-by": ["[odd? [1 3 2 4 5]]"],
    "zipcoll": ["[[:a :b] [1 2]]"], "frequencies": ["[[1 1 2 :a :a]]"], "group-by": ["[odd? [1 2 3]]"],
    "juxt*": ["[]"], "comp": ["[]"], "take": ["[2 [1 2 3]]", '[2 "abc"]', "[-2 [1 2 3]]"],
    "drop": ["[2 [1 2 3]]", "[-1 [1 2 3]]"], "take-while": ["[odd? [1 3 4 5]]"], "drop-while": ["[odd? [1 3 4 5]]"],
    "take-until": ["[even? [1 3 4 5]]"], "drop-until": ["[even? [1 3 4 5]]"],
    "distinct": ["[[1 1 2 3 3]]"], "postwalk": ["[(fn [x] (if (number? x) (inc x) x)) [1 [2 {:a 3}]]]"],
    "prewalk": ["[(fn [x] (if (number? x) (inc x) x)) [1 [2 {:a 3}]]]"],
    "update": ["[@{:a 1} :a inc]"], "update-in": ["[@{:a @{:b 1}} [:a :b] inc]"],
    "get-in": ["[{:a {:b 1}} [:a :b]]", "[{:a 1} [:x :y] :d]"], "put-in": ["[@{} [:a :b] 1]"],
    "merge": ["[{:a 1} {:b 2} {:a 3}]"], "merge-into": ["[@{:a 1} {:b 2}]"],
    "sum": ["[[1 2 3]]", "[[]]"], "product": ["[[1 2 3]]"], "mean": ["[[1 2 3]]"],
    "interleave": ["[[1 2] [:a :b]]"], "find-index": ["[even? [1 3 4]]", "[even? [1]]"],
    "find": ["[even? [1 3 4]]"], "index-of": ["[3 [1 2 3]]", "[9 [1] :d]"],
    "min-of": ["[[3 1 2]]"], "max-of": ["[[3 1 2]]"], "extreme": ["[< [3 1 2]]"],
    "mapcat": ["[(fn [x] [x x]) [1 2]]"], "keep": ["[(fn [x] (if (odd? x) x)) [1 2 3]]"],
    "count": ["[odd? [1 2 3]]"], "all": ["[odd? [1 3]]", "[odd? [1 2]]"], "some": ["[even? [1 3]]"],
    "any?": ["[[nil false 3]]"], "every?": ["[[1 nil]]"],
    "deep=": ["[@[1 @{:a @\"x\"}] @[1 @{:a @\"x\"}]]", "[@[1] @[2]]"], "deep-not=": ["[[1] [1]]"],
    "compare<": ["[1 2]"], "range": ["[5]", "[1 5]", "[5 1 -2]"],
    "last": ["[[1 2 3]]", "[[]]"], "first": ["[[1 2]]"], "butlast": ["[[1 2 3]]"],
    "invert": ["[{:a 1 :b 2}]"], "pairs": ["[{:a 1}]"], "keys": ["[{:a 1}]"], "values": ["[{:a 1}]"],
    "from-pairs": ["[[[:a 1] [:b 2]]]"], "tabseq": ["[]"], "walk": ["[inc [1 2]]"],
    "complement": ["[]"], "partial": ["[]"], "tracev": ["[]"],
    "string/join": ["[]"], "lengthable?": ["[[1]]", "[1]"], "truthy?": ["[nil]", "[0]"],
    "even?": ["[2]", "[3]"], "odd?": ["[3]"], "zero?": ["[0]"], "pos?": ["[1]"], "neg?": ["[-1]"],
    "nan?": ["[math/nan]", "[1]"], "number?": ["[1]"], "idempotent?": ["[1]", "[[1]]"],
    "max": ["[1 3 2]"], "min": ["[1 3 2]"], "compare": ["[1 2]", '["a" "a"]', "[[1 2] [1 3]]"],
    "freeze": ["[@[1 @{:a @\"b\"}]]"], "thaw": ["[[1 {:a 2}]]"], "array/concat": ["[]"],
    "slice": ["[[1 2 3] 1]", '["abc" 0 -2]'], "cartesian": ["[]"],
    "assoc": ["[]"], "lines": ["[]"], "chr": ['["a"]'],
    "errorf": ['["m %d" 1]'], "default-peg-grammar": ["[]"], "parse-all": ['["1 (2 3) :a"]'],
    "parse": ['["[1 2]"]'], "eval-string": ['["(+ 1 2)"]'], "macex1": ["['(when a b)]"], "macex": ["['(unless a (when b c))]"],
    "string/trimr": ["[]"], "bad-compile": ["[]"], "doc-format": ['["some *text*  here" 20]'],
}


# ------------------------------------------------------------------ PEG corpus

PEG_TEXTS = ["", "a", "b", "ab", "abc", "aab", "ba", "a1b2", "12 34", "\\x01\\x02ab", "a\\nb", "xyz"]

PEGS = [
    # (grammar source, byte-stable?)
    ('"a"', True), ("1", True), ("-1", True), ('~(range "az")', True), ('~(range "az" "09")', True), ('~(set "ab")', True),
    ('~(* "a" "b")', True), ('~(+ "a" "b")', True), ("~(any \"a\")", True), ("~(some \"a\")", True), ("~(? \"a\")", True),
    ("~(at-least 1 \"a\")", True), ("~(at-most 2 \"a\")", True), ("~(between 1 2 \"a\")", True), ("~(repeat 2 \"a\")", True),
    ("~(2 \"a\")", True), ("~(! \"a\")", True), ("~(not \"b\")", True), ("~(> 0 \"a\")", True), ("~(look 1 \"b\")", True),
    ("~(if \"a\" 1)", True), ("~(if-not \"a\" 1)", True), ("~(to \"b\")", True), ("~(thru \"b\")", True),
    ("~(<- \"a\")", True), ("~(capture 1 :t)", True), ("~(quote 1)", True), ("~(* (<- 1 :t) (-> :t))", True),
    ("~(* (<- 1 :t) (backref :t :u))", True), ("~(* (<- 1 :t) (backmatch :t))", True), ("~(* (<- 1) (backmatch))", True),
    ("~(% (* (<- 1) (<- 1)))", True), ("~(accumulate (any (<- 1)) :t)", True), ("~(group (any (<- 1)))", True),
    ("~(group (any (<- 1)) :g)", True), ("~(drop (<- 1))", True), ("~(only-tags (* (<- 1 :t) (<- 1)))", True),
    ("~(/ (<- 1) :const)", True), ("~(/ (<- 1) \"str\")", True), ("~(replace (<- 1) {\"a\" :was-a})", False),
    ("~(/ (<- 1) ,(fn [x] [x x]))", True), ("~(/ (<- 1) ,(fn [x] [x x]) :tag)", True),
    ("~(/ (<- 1) ,string/ascii-upper)", True),
    ("~(cmt (<- 1) ,(fn [x] (if (= x \"a\") :yes)))", True), ("~(cmt (* (<- 1) (<- 1)) ,(fn [x y] (string y x)) :t)", True),
    ("~(cmt (<- 1) ,string/bytes)", True),
    ("~($)", True), ("~(* 1 (position :p))", True), ("~(* 1 (line))", True), ("~(* 1 (column :c))", True),
    ("~(constant :c)", True), ("~(constant 127.5 :t)", True), ("~(constant {:a 1})", False), ("~(constant @[1 2])", True),
    ("~(constant 8192)", True), ("~(constant -8193)", True), ("~(constant ,(int/u64 \"18446744073709551615\"))", True),
    ("~(argument 0)", True), ("~(argument 1 :t)", True), ("~(error (<- 1))", True), ("~(error)", True), ("~(+ \"a\" (error \"x\"))", True),
    ("~(int 1)", True), ("~(int-be 2)", True), ("~(uint 2 :t)", True), ("~(uint-be 1)", True), ("~(int 8)", True), ("~(uint 8)", True),
    ("~(lenprefix (uint 1) 1)", True), ("~(nth 1 (* (<- 1) (<- 1)))", True), ("~(nth 0 (* (<- 1) (<- 1)) :t)", True),
    ("~(number (some (range \"09\")))", True), ("~(number (some (range \"09\" \"af\")) 16 :t)", True),
    ("~(split \" \" (<- (to -1)))", True), ("~(sub (<- 2) (<- 1))", True), ("~(til \"b\" (<- 1))", True),
    ("~(unref (* (<- 1 :t) (-> :t)))", True), ("~(unref (<- 1 :t) :t)", True),
    ("~(* (any (+ (range \"az\") (range \"09\"))) -1)", True),
    ("~(some (* (<- (range \"az\")) (? (/ (<- (range \"09\")) ,scan-number))))", True),
    ("~{:main (* :a :b) :a (<- \"a\") :b (any (<- \"b\"))}", True),
    ("~{:main (+ (* \"a\" :main \"b\") \"\")}", True),
    ("~{:main (* :w (any (* \" \" :w))) :w (<- (some :d)) :d (range \"09\")}", True),
    ("~{:main (some :tok) :tok (+ :num :sym :ws) :num (/ (<- (some (range \"09\"))) ,scan-number) "
     ":sym (<- (some (range \"az\"))) :ws (drop (<- (some (set \" \\n\"))))}", True),
    ("(put (table/clone default-peg-grammar) :main ~(* :a+ (<- :d*) :s* (<- :w+)))", True),
    ("~(* " + " ".join('"%s"' % ("k%d" % i) for i in range(140)) + ")", True),
    ("~(+ " + " ".join('(constant %d)' % (8185 + i) for i in range(12)) + ")", True),
    ("~(<- \"" + "a" * 300 + "\")", True),
]


# ------------------------------------------------------------------ image modules

IMAGE_FEATURES = [
    # (forms, calls [(name, args | ":value")])
    ("(var cnt 10) (defn bump [n] (+= cnt n)) (defn peek [] cnt)",
     [("bump", "[5]"), ("peek", "[]"), ("cnt", ":value"), ("bump", "[1]"), ("cnt", ":value")]),
    ("(def tbl @{:a 1}) (defn tput [k v] (put tbl k v) (length tbl)) (defn tget [k] (tbl k))",
     [("tput", "[:b 2]"), ("tget", "[:b]"), ("tbl", ":value")]),
    ("(defmacro twice [x] ~(do ,x ,x)) (defn use-twice [] (var n 0) (twice (++ n)) n)",
     [("use-twice", "[]"), ("twice", "[1]")]),
    ("(defn- helper [x] (* x 3)) (defn pub [x] (helper (inc x)))", [("pub", "[1]"), ("helper", "[2]")]),
    ("(def consts [127 128 8191 8192 -8193 2147483647 0.5 \"str\" :kw 'sym 1e100]) (defn getc [i] (consts i))",
     [("getc", "[0]"), ("getc", "[4]"), ("consts", ":value")]),
    ("(defn gen [n] (def f (coro (for i 0 n (yield i)))) (seq [x :in f] x))", [("gen", "[3]")]),
    ("(def pg (peg/compile ~(capture (some (range \"az\"))))) (defn pm [s] (peg/match pg s))",
     [("pm", '["abc1"]'), ("pm", '["1"]')]),
    ("(def big (int/u64 \"18446744073709551615\")) (defn bigp [x] (+ big x))", [("bigp", "[1]"), ("big", ":value")]),
    ("(def ch (ev/chan 3)) (ev/give ch :queued) (defn chtake [] (ev/take ch)) (defn chcount [] (ev/count ch))",
     [("chcount", "[]"), ("chtake", "[]"), ("chcount", "[]")]),
    ("(def co (fiber/new (fn [] (var s 100) (forever (set s (+ s (yield s))))))) (resume co) (defn step [x] (resume co x))",
     [("step", "[1]"), ("step", "[2]")]),
]


def image_modules(quick):
    n = len(IMAGE_FEATURES)
    out = []
    subsets = []
    if quick:
        # every single feature, every pair, and the whole set
        for i in range(n):
            subsets.append((i,))
        for i in range(n):
            for j in range(i + 1, n):
                subsets.append((i, j))
        subsets.append(tuple(range(n)))
    else:
        for mask in range(1, 1 << n):
            subsets.append(tuple(i for i in range(n) if mask >> i & 1))
    for sub in subsets:
        src = " ".join(IMAGE_FEATURES[i][0] for i in sub)
        calls = []
        for i in sub:
            calls += IMAGE_FEATURES[i][1]
        out.append((sub, src, calls))
    return out


# ------------------------------------------------------------------ closure model

def canon_val(v):
    if isinstance(v, tuple):
        return "(" + " ".join(canon_val(x) for x in v) + ")"
    if isinstance(v, str):
        return v
    if v is None:
        return "nil"
    return "%d" % v


class CloState:
    """v0, v1 shared by inc0/inc1/getv/sub (and the fiber), w private to sub"""

    def __init__(self, v0=1, v1=2, w=100):
        self.v0, self.v1, self.w = v0, v1, w

    def copy(self):
        return CloState(self.v0, self.v1, self.w)

    def call(self, which, a):
        if which == 0:
            self.v0 = self.v0 * 2 + a
            return self.v0
        if which == 1:
            self.v1 = self.v1 * 2 + a
            return self.v1
        if which == 2:
            return (self.v0, self.v1)
        if which == 3:
            self.w += a
            self.v0 += self.w
            return (self.v0, self.w)
        if which == 4:
            self.v1 += a
            return (self.v0, self.v1)
        raise ValueError(which)


def clo_expected(variant, grouping, ops):
    """-> (log of the original, log of the copy)"""
    orig = CloState()
    if variant == "early":
        orig.call(0, 5)
        copy_shared = orig.copy()
        orig.call(0, 7)
    else:
        copy_shared = orig.copy()
    has_fiber = variant in ("fiber", "fiber-implicit")
    together = grouping == "together" or variant in ("early", "fiber")
    if together:
        states = [copy_shared] * 5
    else:
        states = [copy_shared.copy() for _ in range(5)]
    lo, lc = [], []
    for which, a in ops:
        if which == 4:
            lo.append("V" + canon_val(orig.call(4, a)) if has_fiber else "-")
            lc.append("V" + canon_val(states[4].call(4, a)) if variant == "fiber" else "-")
        else:
            lo.append("V" + canon_val(orig.call(which, a)))
            lc.append("V" + canon_val(states[which].call(which, a)))
    return " ".join(lo), " ".join(lc)


# ------------------------------------------------------------------ fiber model

class FibErr(Exception):
    def __init__(self, v):
        self.v = v


def leaf_gen(n, useenv, envbox):
    acc = 7
    for i in range(n):
        got = yield (7, i, acc, envbox[0] if useenv else None)
        acc = acc * 3 + got
        if useenv:
            envbox[0] += got
    return (":done", 7, acc)


def mid_gen(tag, child, m, fail, outermost):
    # child: generator; its yields pass through this fiber
    try:
        r = yield from child
    except FibErr as e:
        r = e.v
    acc = 0
    for i in range(m):
        got = yield (tag, ":own", i, r, acc)
        acc += got
    if fail:
        raise FibErr((":boom", tag, acc))
    return (":done", tag, r, acc)


class FiberModel:
    def __init__(self, params):
        depth, n, m, nested, captured, envmode, fail = params
        self.envbox = [1000]
        g = leaf_gen(n, envmode == 1, self.envbox)
        for lvl in range(1, depth):
            g = mid_gen(10 + lvl, g, m, fail, lvl == depth - 1)
        self.g = g
        self.status = ":new"
        self.started = False

    def resume(self, v):
        if self.status in (":dead", ":error"):
            return "E/" + self.status[1:]
        try:
            if not self.started:
                self.started = True
                y = next(self.g)
            else:
                y = self.g.send(v)
            self.status = ":pending"
            return "V" + canon_val(y) + "/pending"
        except StopIteration as e:
            self.status = ":dead"
            return "V" + canon_val(e.value) + "/dead"
        except FibErr:
            self.status = ":error"
            return "E/error"

    def drive(self, vals):
        return " ".join(self.resume(v) for v in vals)


def fiber_total_yields(params):
    depth, n, m = params[0], params[1], params[2]
    return n + m * (depth - 1)


# ------------------------------------------------------------------ channel model

def chan_expected(cap, ops, closed):
    vals = ["1", '"two"', "S", "8192", "S", "C", "-8193", "T"]
    q = []
    k = 0
    for op in ops:
        if op == "g":
            if len(q) < cap:
                q.append(vals[k % len(vals)])
                k += 1
        else:
            if q:
                q.pop(0)
    n = len(q)
    # canon of @[ch shared item...]: the array is #0, ch #1, shared #2
    def item(v):
        if v == "S":
            return "#2"
        if v == "C":
            return "#1"
        if v == "T":
            return "(#2 1.5)"
        return v
    if closed:
        items = ["nil"]
        after = n
        status = "false"
    else:
        items = [item(v) for v in q]
        if cap > 0:
            items.append(":probe")
        after = 0
        status = ":open"
    full = "true" if n >= cap else "false"
    out = "#0=@[%d %d %s true %d %s]" % (cap, n, full, after, status)
    its = "#0=@[#1=<core/channel> #2=@[:shared]%s]" % "".join(" " + x for x in items)
    return out, its


# ------------------------------------------------------------------ the C02 enumerator as a function corpus

C02_SCRIPT = r"""
import json, sys
import families, gen
quick = sys.argv[1] == "1"
out = []
for name in families.ORDER:
    f = families.FAMILIES[name]
    for lv in f.levels("quick"):
        if quick and lv != "product" and lv > 2:
            continue
        exprs = f.level_exprs("quick", lv)
        if quick and lv == "product":
            exprs = exprs[::5]
        for e in exprs:
            out.append([name, gen.render_expr(e)[0]])
json.dump(out, sys.stdout)
"""


def _read_form(text, i):
    """end index of the form starting at text[i] (after skipping blanks); strings are honoured"""
    n = len(text)
    while i < n and text[i] in " \n\t":
        i += 1
    start = i
    depth = 0
    instr = False
    while i < n:
        ch = text[i]
        if instr:
            if ch == "\\":
                i += 1
            elif ch == '"':
                instr = False
                if depth == 0:
                    return start, i + 1
        elif ch == '"':
            instr = True
        elif ch in "([{":
            depth += 1
        elif ch in ")]}":
            depth -= 1
            if depth <= 0:
                return start, i + (1 if depth == 0 else 0)
        elif ch in " \n\t" and depth == 0:
            return start, i
        i += 1
    return start, n


def address_order_hazard(text):
    """`(for i E1 E2 ...)` compares i (= E1, then numbers) with E2 using `<`, embedded by the macro as
    a function value. If both bounds are compound forms they may both be fresh containers, which
    janet orders by address - the loop then depends on the allocator, not on the program. Such
    expressions are not functions of their arguments and are left out (a bound that is an atom of
    the generator's alphabet - 1 a x nil - is never a container)."""
    i = 0
    while True:
        i = text.find("(for i", i)
        if i < 0:
            return False
        j = i + len("(for i")
        s1, e1 = _read_form(text, j)
        s2, e2 = _read_form(text, e1)
        if text[s1:s1 + 1] in "([@{~'" and text[s2:s2 + 1] in "([@{~'":
            return True
        i = j


def c02_corpus(quick):
    """Every expression of props/C02's families (their quick size bounds; in our quick tier only
    trees of size <= 2 and every 5th member of the explicit products), wrapped into an upvalue-free
    function of (a b tr): x, y are local vars, `t` records into tr (and raises after 300 records:
    some generated loops never end). The enumerator runs in its own
    interpreter (its module names collide with ours). Returns (list of (family, source), note)."""
    import json
    import os
    import subprocess
    import sys
    c02 = os.path.join(os.path.dirname(os.path.abspath(__file__)), "..", "C02")
    try:
        p = subprocess.run([sys.executable, "-c", C02_SCRIPT, "1" if quick else "0"], cwd=c02, stdout=subprocess.PIPE,
                           stderr=subprocess.PIPE, timeout=600)
        if p.returncode != 0:
            return [], "props/C02 enumerator failed: %s" % p.stderr.decode(errors="replace")[-300:]
        raw = json.loads(p.stdout.decode())
    except Exception as e:  # the sibling check is not part of this one
        return [], "props/C02 enumerator not usable: %r" % (e,)
    seen, uniq = set(), []
    for name, text in raw:
        if address_order_hazard(text):
            continue
        if "&keys" in text or "&named" in text:
            # odd numbers of key arguments make janet read a stale stack slot (nondeterministic
            # value, unrelated defect); our own arity shapes cover &keys / &named with whole pairs
            continue
        src = ("(fn ctx [a b tr]\n(var x 100) (var y 1000)\n(def t (fn t [v] (if (> (length tr) 300) (error :fuel)) (array/push tr v) v))\n"
               "(def id (fn id [v] v))\n(def r\n%s)\n[r x y tr])" % text)
        # grammar levels are cumulative (size <= n): keep the first occurrence
        if src not in seen:
            seen.add(src)
            uniq.append((name, src))
    return uniq, None
