# C09's canonical printer: the prelude's `canon` (same text format) with one change: keys
# are compared by their canonical text only when their type ranks tie (see sorted-pairs), so
# that tables reachable from their own keys can be printed. Used by the drivers and pasted into
# replay files.
(defn- hexbytes [b into]
  (each c b
    (cond
      (= c 34) (buffer/push into "\\\"")
      (= c 92) (buffer/push into "\\\\")
      (and (>= c 32) (< c 127)) (buffer/push-byte into c)
      (buffer/format into "\\x%02x" c))))

(defn canon-num [x]
  (cond
    (not= x x) "nan"
    (= x math/inf) "inf"
    (= x (- math/inf)) "-inf"
    (and (= x 0) (< (/ 1 x) 0)) "-0"
    (and (= x (math/trunc x)) (< (math/abs x) 1e15)) (string/format "%d" x)
    (string/format "%.17g" x)))

(defn- type-rank [x]
  (case (type x)
    :nil 0 :boolean 1 :number 2 :string 3 :symbol 4 :keyword 5
    :tuple 6 :struct 7 :buffer 8 :array 9 :table 10 11))

(varfn canon-into [x into seen] nil)

(defn- canon-plain [x]
  (def b @"")
  (canon-into x b @{})
  (string b))

(defn- sorted-pairs [ds]
  # sort by (type rank, canonical text of the key). The text is only computed for keys that
  # share their rank with another key, so a container that is reachable from its own key
  # (text would recurse for ever) can be printed as long as ranks decide.
  (def ranks @{})
  (each k (keys ds) (def r (type-rank k)) (put ranks r (+ 1 (get ranks r 0))))
  (def ks (seq [k :keys ds] (def r (type-rank k)) [r (if (> (in ranks r) 1) (canon-plain k) "") k]))
  (sort ks (fn [a b] (if (= (a 0) (b 0)) (< (a 1) (b 1)) (< (a 0) (b 0)))))
  (map |($ 2) ks))

(varfn canon-into [x into seen]
  (def t (type x))
  (case t
    :nil (buffer/push into "nil")
    :boolean (buffer/push into (if x "true" "false"))
    :number (buffer/push into (canon-num x))
    :string (do (buffer/push into "\"") (hexbytes x into) (buffer/push into "\""))
    :symbol (do (buffer/push into "'") (hexbytes x into))
    :keyword (do (buffer/push into ":") (hexbytes x into))
    :tuple (do
             (buffer/push into (if (= :brackets (tuple/type x)) "[" "("))
             (var first true)
             (each v x (if first (set first false) (buffer/push into " ")) (canon-into v into seen))
             (buffer/push into (if (= :brackets (tuple/type x)) "]" ")")))
    :struct (do
              (buffer/push into "{")
              (var first true)
              (each k (sorted-pairs x)
                (if first (set first false) (buffer/push into " "))
                (canon-into k into seen)
                (buffer/push into " ")
                (canon-into (in x k) into seen))
              (buffer/push into "}")
              (when-let [p (struct/getproto x)]
                (buffer/push into "^")
                (canon-into p into seen)))
    (if-let [id (in seen x)]
      (buffer/format into "#%d" id)
      (do
        (def id (length seen))
        (put seen x id)
        (buffer/format into "#%d=" id)
        (case t
          :array (do
                   (buffer/push into "@[")
                   (var first true)
                   (each v x (if first (set first false) (buffer/push into " ")) (canon-into v into seen))
                   (buffer/push into "]"))
          :buffer (do (buffer/push into "@\"") (hexbytes x into) (buffer/push into "\""))
          :table (do
                   (buffer/push into "@{")
                   (var first true)
                   (each k (sorted-pairs x)
                     (if first (set first false) (buffer/push into " "))
                     (canon-into k into seen)
                     (buffer/push into " ")
                     (canon-into (table/rawget x k) into seen))
                   (buffer/push into "}")
                   (when-let [p (table/getproto x)]
                     (buffer/push into "^")
                     (canon-into p into seen)))
          :function (buffer/format into "<fn %s>" (or (get (disasm x) :name) "?"))
          :cfunction (buffer/format into "<cfn %s>" (string/format "%v" x))
          :fiber (buffer/format into "<fiber %s>" (fiber/status x))
          (cond
            (= t :core/s64) (buffer/format into "s64:%s" (string x))
            (= t :core/u64) (buffer/format into "u64:%s" (string x))
            (buffer/format into "<%s>" t)))))))

(defn canon
  "Canonical text of a value: shape plus identity structure (#n= / #n back-references)."
  [x]
  (def b @"")
  (canon-into x b @{})
  (string b))

