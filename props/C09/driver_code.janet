# C09 driver 2: code and abstract values. Every handler builds an original, makes copies
# (marshal/unmarshal plain, with the image dictionaries, with a cfunction-only dictionary;
# disasm -> asm), drives original and copies with the same call / resume sequence and prints the
# logs; check.py compares them with each other and with its Python models.
#
# items (see the handlers): :clo :fib :fn :core-list :core :corecall :image :chan :peg :rng :asmbit

(use prelude)
(import ./canon2 :prefix "")

# ------------------------------------------------------------------ helpers

(def- addr-peg (peg/compile ~(* "0x" (some (range "09" "af" "AF")))))

(defn logcall [f args]
  # "V<canon of the result>" or "E". Addresses (error messages caught by the code under test
  # mention <function 0x...>) are masked: they differ between an original and its copy.
  (def r (protect (f ;args)))
  (if (in r 0) (string "V" (peg/replace-all addr-peg "0x?" (canon (in r 1)))) "E"))

(defn rt-plain [x] (unmarshal (marshal x)))
(defn rt-dict [x] (unmarshal (marshal x make-image-dict) load-image-dict))

# dictionary holding only the cfunctions and abstracts of the core (what the boot image uses):
# bytecode functions of the core are really written out and read back with it
(def cf-lookup
  (let [t @{}]
    (eachp [k v] (env-lookup root-env)
      (when (or (cfunction? v) (abstract? v)) (put t k v)))
    (put t 'root-env root-env)
    t))
(def cf-reverse (invert cf-lookup))
(defn rt-cf [x] (unmarshal (marshal x cf-reverse) cf-lookup))

(def plain-fields [:arity :min-arity :max-arity :vararg :structarg :name :source :bytecode
                   :sourcemap :symbolmap :environments])

(varfn dcmp [d1 d2 strict depth] nil)

(varfn const-same [a b depth] nil)

(varfn const-same
  # constants of a copy: equal values; functions by their disassembly; mutable containers only
  # shallowly (they may reach the whole core environment, e.g. the constants of doc-of)
  [a b depth]
  (cond
    (= a b) true
    (not= (type a) (type b)) false
    (function? a) (if (> depth 2) true (nil? (dcmp (disasm a) (disasm b) true (+ depth 1))))
    (tuple? a) (and (= (length a) (length b)) (= (tuple/type a) (tuple/type b))
                    (all (fn [x y] (const-same x y depth)) a b))
    (struct? a) (and (= (length a) (length b))
                     (all (fn [k] (const-same (in a k) (get b k) depth)) (keys a)))
    (or (table? a) (array? a)) (= (length a) (length b))
    (buffer? a) (= (string a) (string b))
    (= (canon a) (canon b))))

(varfn dcmp
  # first difference between two disassemblies, or nil. strict: slotcount must be equal
  # (marshal copies); asm recomputes the count from the slots it sees (and adds the upvalue slots
  # named by nested definitions), so it is not compared there.
  [d1 d2 strict depth]
  (var res nil)
  (each k plain-fields
    (when (and (nil? res) (not= (canon (in d1 k)) (canon (in d2 k))))
      (set res (string k))))
  (when (nil? res)
    (if (and strict (not= (in d1 :slotcount) (in d2 :slotcount))) (set res "slotcount")))
  (when (nil? res)
    (def c1 (in d1 :constants))
    (def c2 (in d2 :constants))
    (if (not= (length c1) (length c2))
      (set res "constants-length")
      (for i 0 (length c1)
        (when (and (nil? res) (not (const-same (in c1 i) (in c2 i) depth)))
          (set res (string "constant-" i))))))
  (when (nil? res)
    (def s1 (in d1 :defs))
    (def s2 (in d2 :defs))
    (if (not= (length s1) (length s2))
      (set res "defs-length")
      (for i 0 (length s1)
        (when (nil? res)
          (when-let [r (dcmp (in s1 i) (in s2 i) strict depth)]
            (set res (string "def" i "." r)))))))
  res)

(defn fcmp [f g strict]
  (or (dcmp (disasm f) (disasm g) strict 0) "same"))

(defn- def-env-free? [d]
  # a function whose definition (and nested definitions, transitively) never reaches outside itself
  (empty? (in d :environments)))

# ------------------------------------------------------------------ closures sharing captured variables

(defn make-closures [i0 i1]
  (var v0 i0)
  (var v1 i1)
  (def inc0 (fn inc0 [a] (set v0 (+ (* v0 2) a))))
  (def inc1 (fn inc1 [a] (set v1 (+ (* v1 2) a))))
  (def getv (fn getv [a] [v0 v1]))
  (def mk (fn mk [w0] (var w w0) (fn sub [a] (set w (+ w a)) (set v0 (+ v0 w)) [v0 w])))
  (def sub (mk 100))
  [inc0 inc1 getv sub])

(defn make-closures-early [i0 i1 pre post]
  # marshals its own closures while it is still running (environment on the live stack)
  (var v0 i0)
  (var v1 i1)
  (def inc0 (fn inc0 [a] (set v0 (+ (* v0 2) a))))
  (def inc1 (fn inc1 [a] (set v1 (+ (* v1 2) a))))
  (def getv (fn getv [a] [v0 v1]))
  (def mk (fn mk [w0] (var w w0) (fn sub [a] (set w (+ w a)) (set v0 (+ v0 w)) [v0 w])))
  (def sub (mk 100))
  (def cl [inc0 inc1 getv sub])
  (each a pre (inc0 a))
  (def b (marshal cl))
  (each a post (inc0 a))
  [cl b])

(defn make-closures-fiber [i0 i1]
  # the captured variables live in the frame of a suspended fiber, which also updates them
  (def fib
    (fiber/new
      (fn body []
        (var v0 i0)
        (var v1 i1)
        (def inc0 (fn inc0 [a] (set v0 (+ (* v0 2) a))))
        (def inc1 (fn inc1 [a] (set v1 (+ (* v1 2) a))))
        (def getv (fn getv [a] [v0 v1]))
        (def mk (fn mk [w0] (var w w0) (fn sub [a] (set w (+ w a)) (set v0 (+ v0 w)) [v0 w])))
        (def sub (mk 100))
        (var cmd (yield [inc0 inc1 getv sub]))
        (forever
          (set v1 (+ v1 cmd))
          (set cmd (yield [v0 v1]))))))
  (def cl (resume fib))
  [cl fib])

(defn- run-clo-ops [cl fib ops]
  (def log @[])
  (each [which a] ops
    (array/push log
                (if (= which 4)
                  (if fib (logcall resume [fib a]) "-")
                  (logcall (in cl which) [a]))))
  (string/join log " "))

(defn do-clo [item]
  # [:clo variant grouping dict ops]   variant :detached | :early | :fiber | :fiber-implicit
  # grouping :together | :separate ; ops = [[closure-index arg] ...], index 4 = resume the fiber
  (def [_ variant grouping dict ops] item)
  (def rtf (if dict rt-cf rt-plain))
  (var cl nil) (var fib nil) (var cl2 nil) (var fib2 nil)
  (case variant
    :detached (do (set cl (make-closures 1 2)))
    :early (let [[c b] (make-closures-early 1 2 [5] [7])]
             (set cl c)
             (set cl2 (unmarshal b)))
    :fiber (let [[c f] (make-closures-fiber 1 2)] (set cl c) (set fib f))
    :fiber-implicit (let [[c f] (make-closures-fiber 1 2)] (set cl c) (set fib f)))
  (case variant
    :early nil
    :fiber (let [[c f] (rtf [cl fib])] (set cl2 c) (set fib2 f))
    (if (= grouping :together)
      (set cl2 (rtf cl))
      (set cl2 (tuple ;(map rtf cl)))))
  (string (run-clo-ops cl fib ops) "\t" (run-clo-ops cl2 fib2 ops)
          "\t" (string/join (map (fn [a b] (fcmp a b true)) cl cl2) ",")))

# ------------------------------------------------------------------ suspended fibers

(defn- rec [k] (if (= k 0) 0 (+ 1 (rec (- k 1)))))

(defn leaf-body-env [tag n nested captured]
  # uses the fiber's environment table (dyn / setdyn are cfunctions: needs a lookup table)
  (fn leaf []
    (var acc tag)
    (def bump (if captured (fn bump [g] (set acc (+ (* acc 3) g)))))
    (def step (if nested (fn step [i] (yield [tag i acc (dyn :x)]))))
    (for i 0 n
      (def got (if nested (+ 0 (step i)) (yield [tag i acc (dyn :x)])))
      (if captured (bump got) (set acc (+ (* acc 3) got)))
      (setdyn :x (+ (dyn :x) got)))
    # a deep call after the last resume: the (copied) stack has to grow
    [:done tag (+ acc (- (rec 150) 150))]))

(defn leaf-body [tag n nested captured]
  # no cfunction anywhere: marshals without any lookup table
  (fn leaf []
    (var acc tag)
    (def bump (if captured (fn bump [g] (set acc (+ (* acc 3) g)))))
    (def step (if nested (fn step [i] (yield [tag i acc nil]))))
    (for i 0 n
      (def got (if nested (+ 0 (step i)) (yield [tag i acc nil])))
      (if captured (bump got) (set acc (+ (* acc 3) got))))
    # a deep call after the last resume: the (copied) stack has to grow
    [:done tag (+ acc (- (rec 150) 150))]))

(defn mid-body [tag child m fail]
  (fn mid []
    (def r (resume child))
    (var acc 0)
    (for i 0 m
      (def got (yield [tag :own i r acc]))
      (set acc (+ acc got)))
    (if fail (error [:boom tag acc]))
    [:done tag r acc]))

(defn make-fiber [depth n m nested captured envmode fail]
  # envmode 0: no environment; 1: own small table; 2: inherited (:i) - the whole script environment
  (var f (case envmode
           1 (fiber/new (leaf-body-env 7 n nested captured) (if (= depth 1) :y :e) @{:x 1000})
           2 (fiber/new (leaf-body 7 n nested captured) (if (= depth 1) :yi :ei))
           (fiber/new (leaf-body 7 n nested captured) (if (= depth 1) :y :e))))
  (for lvl 1 depth
    # the outermost fiber catches yields (:y); inner ones let them pass to the top.
    # The outer fibers get an environment of the same kind (a fiber with both an env and a child).
    (def outer (= lvl (- depth 1)))
    (set f (case envmode
             1 (fiber/new (mid-body (+ 10 lvl) f m fail) (if outer :y :e) @{:x lvl})
             2 (fiber/new (mid-body (+ 10 lvl) f m fail) (if outer :yi :ei))
             (fiber/new (mid-body (+ 10 lvl) f m fail) (if outer :y :e)))))
  f)

(defn- drive [f vals]
  (def log @[])
  (each v vals
    (def r (protect (resume f v)))
    (array/push log (string (if (in r 0) (string "V" (canon (in r 1))) "E") "/" (fiber/status f))))
  (string/join log " "))

(defn do-fib [item]
  # [:fib [depth n m nested captured envmode fail] before after use-lookup-table]
  #   before = values of the first j resumes (original only), after = values driven into original and copies
  (def [_ params before after] item)
  (def f (make-fiber ;params))
  (def envmode (in params 5))
  (def pre (drive f before))
  (def rtf (if (in item 4) rt-cf rt-plain))
  (def st0 (string (fiber/status f) " " (canon (fiber/last-value f))))
  (def c1 (rtf f))
  (def c2 (rtf f))
  (def pair (rtf [f f]))
  (def st1 (string (fiber/status c1) " " (canon (fiber/last-value c1)) (if (= (in pair 0) (in pair 1)) "" "!unshared")))
  (def lo (drive f after))
  (def l1 (drive c1 after))
  # the second copy is driven with other values first: copies are independent of each other
  (def other (map |(+ $ 50) after))
  (def l2o (drive c2 other))
  (def l3 (drive (in pair 1) after))
  (string pre "\t" st0 "\t" st1 "\t" lo "\t" l1 "\t" l3 "\t" l2o))

# ------------------------------------------------------------------ functions: marshal and disasm/asm

(defn- variants-of [f]
  # name -> [function-or-error strict]
  (def out @[])
  (def p (protect (rt-plain f)))
  (array/push out ["plain" (if (in p 0) (in p 1) nil) true false])
  (array/push out ["dict" (rt-dict f) true true])
  (array/push out ["cfdict" (rt-cf f) true true])
  (def d (disasm f))
  (when (def-env-free? d)
    (def a (asm d))
    (array/push out ["asm" a false true])
    (array/push out ["asm+dict" (rt-dict a) false true])
    (array/push out ["asm2" (asm (disasm a)) false true]))
  out)

(defn- addr-ordered? [x]
  (case (type x) :array true :table true :buffer true :function true :cfunction true :fiber true
    :tuple (some addr-ordered? x) :struct (or (some addr-ordered? (keys x)) (some addr-ordered? (values x)))
    (abstract? x)))

(defn checked-compare
  "Comparison that refuses operands whose order is an address order (two arrays, two functions ...)."
  [op & xs]
  (when (> (count addr-ordered? xs) 1) (error :address-order))
  (op ;xs))

(defn checked-env
  ``Environment in which < > <= >= are macros calling checked-compare: generated programs that
  compare two fresh containers (e.g. `(for i (seq ...) (seq ...) ...)`) raise instead of depending
  on where the allocator put them.``
  []
  (def env (make-env))
  (each [name f] [['< <] ['> >] ['<= <=] ['>= >=]]
    (put env name @{:macro true :value (fn [& xs] (tuple checked-compare f ;xs))}))
  env)

(defn do-fn [item]
  # [:fn "source" ["args-source" ...] checked?]: source evaluates to a function in a fresh environment
  # (checked?: with address-order-safe comparison macros, see checked-env);
  # each args-source evaluates (freshly for every call) to the argument tuple
  (def [_ src calls checked] item)
  (def env (if checked (checked-env) (make-env)))
  (def fr (protect (eval-string src env)))
  (unless (and (in fr 0) (function? (in fr 1))) (break "nocompile"))
  (def f (in fr 1))
  (defn log-of [g]
    (string/join (map (fn [c] (logcall g (eval-string c env))) calls) " "))
  (def ref (log-of f))
  (def out @[ref])
  (each [name g strict must] (variants-of f)
    (array/push out
                (if (nil? g)
                  (string name ":unmarshalable")
                  (string name ":" (fcmp f g strict) ":" (let [l (log-of g)] (if (= l ref) "=" l))))))
  # control: the function must be a function of its arguments. The original again, and a twin
  # compiled from the same source, are run after the copies; generated code may e.g. compare two
  # fresh arrays (ordered by address), which no copy can be held to.
  (def twin (eval-string src (if checked (checked-env) (make-env))))
  (if (and (= ref (log-of f)) (= ref (log-of twin)))
    (string/join out "\t")
    "nondeterministic"))

(defn do-core-list [item]
  (def names @[])
  (eachp [k v] root-env
    (when (and (symbol? k) (table? v) (function? (in v :value)))
      (array/push names (string k))))
  (sort names)
  (string/join names " "))

(defn do-core [item]
  # [:core "name"]: a bytecode function of the core environment
  (def f (in (in root-env (symbol (in item 1))) :value))
  (def out @[])
  (def d (disasm f))
  (def c (rt-cf f))
  (array/push out (string "cfdict:" (fcmp f c true)))
  (def c2 (rt-dict f))
  (array/push out (string "dict:" (if (= c2 f) "identical" "copy")))
  (if (def-env-free? d)
    (let [a (asm d)]
      (array/push out (string "asm:" (fcmp f a false)))
      (array/push out (string "asm2:" (fcmp a (asm (disasm a)) true))))
    (array/push out (string "asm:has-environments")))
  (string/join out "\t"))

(defn do-corecall [item]
  # [:corecall "name" ["args-source" ...]]: behaviour of copies of a core function
  (def [_ name calls] item)
  (def f (in (in root-env (symbol name)) :value))
  (def env (make-env))
  (defn log-of [g]
    (string/join (map (fn [c] (logcall g (eval-string c env))) calls) " "))
  (def ref (log-of f))
  (def out @[ref])
  (def c (rt-cf f))
  (array/push out (string "cfdict:" (let [l (log-of c)] (if (= l ref) "=" l))))
  (when (def-env-free? (disasm f))
    (def a (asm (disasm f)))
    (array/push out (string "asm:" (let [l (log-of a)] (if (= l ref) "=" l)))))
  (string/join out "\t"))

(defn do-asmbit [item]
  # a function produced by asm that creates and marshals a closure over its own live frame
  (def [_ src arg] item)
  (def f (eval-string src (make-env)))
  (def a (asm (disasm f)))
  (string (logcall f [arg]) "\t" (logcall a [arg])))

# ------------------------------------------------------------------ images of whole environments

(defn do-image [item]
  # [:image "module source" [["name" "args-source"] ...]]
  (def [_ src calls] item)
  (def env (make-env))
  (def p (parser/new))
  (parser/consume p src)
  (parser/eof p)
  (while (parser/has-more p) (eval (parser/produce p) env))
  (def env2 (load-image (make-image env)))
  (def genv (make-env))
  (defn log-of [e]
    (string/join
      (map (fn [[name args]]
             (def b (in e (symbol name)))
             (cond
               (nil? b) "missing"
               (= args :value) (string "V" (canon (if (in b :ref) (in (in b :ref) 0) (in b :value))))
               (logcall (in b :value) (eval-string args genv))))
           calls)
      " "))
  (def l1 (log-of env))
  (def l2 (log-of env2))
  (def keys1 (sort (map string (filter symbol? (keys env)))))
  (def keys2 (sort (map string (filter symbol? (keys env2)))))
  (string l1 "\t" l2 "\t" (if (deep= keys1 keys2) "=" (string/join keys2 ","))
          "\t" (if (= root-env (table/getproto env2)) "root" "noroot")))

# ------------------------------------------------------------------ channels

(def chan-values
  # index -> value factory (shared objects are created per item in do-chan)
  nil)

(defn do-chan [item]
  # [:chan capacity ops closed wrap]: ops = sequence of :g (give next value) / :t (take); the
  # next value cycles through ints at encoding boundaries, a string, one shared array, the channel
  (def [_ cap ops closed] item)
  (def c (ev/chan cap))
  (def shared @[:shared])
  (def vals [1 "two" shared 8192 shared c -8193 [shared 1.5]])
  (var k 0)
  (each op ops
    (case op
      :g (when (< (ev/count c) cap) (ev/give c (in vals (% k (length vals)))) (++ k))
      :t (when (> (ev/count c) 0) (ev/take c))))
  (when closed (ev/chan-close c))
  (def holder @[c shared c])
  (def holder2 (rt-plain holder))
  (defn observe [h]
    (def ch (in h 0))
    (def out @[(ev/capacity ch) (ev/count ch) (ev/full ch) (= ch (in h 2))])
    (def items @[ch (in h 1)])
    (def n (ev/count ch))
    (if closed
      (array/push items (ev/take ch))
      (do
        (repeat n (array/push items (ev/take ch)))
        # an open channel must still work: one more value through it
        (when (> cap 0) (ev/give ch :probe) (array/push items (ev/take ch)))))
    (array/push out (ev/count ch))
    (array/push out (if closed (in (protect (ev/give ch 1)) 0) :open))
    (string (canon out) " " (canon items)))
  (string (observe holder) "\t" (observe holder2)))

# ------------------------------------------------------------------ PEGs, RNGs

(defn do-peg [item]
  # [:peg "grammar source" ["text" ...] byte-stable]
  (def [_ src texts stable] item)
  (def env (make-env))
  (def p (peg/compile (eval-string src env)))
  (defn log-of [q]
    (string/join (map (fn [t] (let [r (protect (peg/match q t 0 "X" 7))] (if (in r 0) (canon (in r 1)) "E"))) texts) " "))
  (def ref (log-of p))
  (def out @[ref])
  (def c0 (protect (rt-plain p)))
  (array/push out (if (in c0 0) (let [l (log-of (in c0 1))] (if (= l ref) "=" l)) "unmarshalable"))
  (def c1 (rt-dict p))
  (array/push out (let [l (log-of c1)] (if (= l ref) "=" l)))
  (def pair (rt-dict [p @[p]]))
  (array/push out (string (type c1) (= (in pair 0) (in (in pair 1) 0))))
  # the copy marshals to the same bytes as the original (no table/struct constants involved)
  (array/push out (if stable
                    (string (= (string (marshal p make-image-dict)) (string (marshal c1 make-image-dict))))
                    "-"))
  (array/push out (let [l (log-of (in pair 0))] (if (= l ref) "=" l)))
  (string/join out "\t"))

(defn do-rng [item]
  # [:rng seed advance]
  (def [_ seed adv] item)
  (def r (math/rng seed))
  (repeat adv (math/rng-int r 1000))
  (def c (rt-plain r))
  (def pair (rt-plain [r r]))
  (defn draw [g] (string/join (seq [i :range [0 6]] (string (math/rng-int g 1000000))) ","))
  (def a (draw r))
  (def b (draw c))
  (string a "\t" b "\t" (draw c) "\t" (draw r) "\t" (type c) (= (in pair 0) (in pair 1))))

(defn- weak-table [kind]
  (case kind :normal @{} :k (table/weak-keys 4) :v (table/weak-values 4) :kv (table/weak 4)))

(defn- fill-weak [t]
  # one entry with a collectable key, one with a collectable value, one with neither
  (put t @[:key] :kw-value)
  (put t :kw-key @[:value])
  (put t :plain 1)
  t)

(defn- survivors [t]
  (string (if (table/rawget t :kw-key) "value-kept " "value-gone ")
          (if (some array? (keys t)) "key-kept " "key-gone ")
          (if (table/rawget t :plain) "plain" "plain-gone")))

(defn do-weak [item]
  # [:weak kind proto-kind | nil]: after a collection a copy of a weak table loses exactly the
  # entries its kind allows to be collected (the copy's keys and values are referenced by it alone)
  (def [_ kind pkind] item)
  (def t (fill-weak (weak-table kind)))
  (when pkind (table/setproto t (fill-weak (weak-table pkind))))
  (def c (rt-plain t))
  (gccollect)
  (string (survivors c) (if pkind (string " / " (survivors (table/getproto c))) "")))

(defn handle [item]
  (case (in item 0)
    :clo (do-clo item)
    :fib (do-fib item)
    :fn (do-fn item)
    :core-list (do-core-list item)
    :core (do-core item)
    :corecall (do-corecall item)
    :asmbit (do-asmbit item)
    :image (do-image item)
    :chan (do-chan item)
    :peg (do-peg item)
    :rng (do-rng item)
    :weak (do-weak item)
    (errorf "unknown item %p" item)))

# REPLAY-CUT (everything above is pasted into stand-alone replay files)
(batch-run handle)
