# C09 driver 1: data values. Builds a value (graph) from a construction recipe, round-trips it
# through marshal/unmarshal in several ways and prints canonical texts (shape + identity
# structure) of the original and of every copy. See model.py for the recipe language.
#
# items
#   [:ints lo n]                     all n integers lo, lo+1, ... : element-wise round trip inside
#                                    arrays (chunks of 65536), result "n-checked mismatches first-bad"
#   [:int1 v ...]                    each listed int alone at top level, as length and as element
#   [:g nodes order pure lean]       graph recipe; nodes = [[:A slot slot] ...], order = build order
#                                    of the immutable nodes. Root is node 0.
#   [:v desc]                        a single value built from a descriptor (leaf sweeps)
# output (tab separated): see the handlers.

(use prelude)
(import ./canon2 :prefix "")

(defn strbytes [n seed]
  (def b (buffer/new n))
  (for j 0 n (buffer/push-byte b (band (+ seed (* 37 j)) 255)))
  b)

(var objs @[])

(defn mk [d]
  (if (tuple? d)
    (case (in d 0)
      :n (in objs (in d 1))
      :int (in d 1)
      :real (verif/bits-to-double (in d 1) (in d 2))
      :str (string (strbytes (in d 1) (in d 2)))
      :sym (symbol (strbytes (in d 1) (in d 2)))
      :kw (keyword (strbytes (in d 1) (in d 2)))
      :buf (strbytes (in d 1) (in d 2))
      :s64 (int/s64 (in d 1))
      :u64 (int/u64 (in d 1))
      :arr (array ;(map mk (tuple/slice d 1)))
      :tup (tuple ;(map mk (tuple/slice d 1)))
      :btup (tuple/brackets ;(map mk (tuple/slice d 1)))
      :tab (table ;(map mk (tuple/slice d 1)))
      :warr (let [a (array/weak 4)] (each x (tuple/slice d 1) (array/push a (mk x))) a)
      :wtabk (let [t (table/weak-keys 4)] (loop [j :range [1 (length d) 2]] (put t (mk (in d j)) (mk (in d (+ j 1))))) t)
      :wtabv (let [t (table/weak-values 4)] (loop [j :range [1 (length d) 2]] (put t (mk (in d j)) (mk (in d (+ j 1))))) t)
      :wtabkv (let [t (table/weak 4)] (loop [j :range [1 (length d) 2]] (put t (mk (in d j)) (mk (in d (+ j 1))))) t)
      :proto (let [t (mk (in d 1))] (table/setproto t (mk (in d 2))) t)
      :sproto (struct/with-proto (mk (in d 1)) ;(map mk (tuple/slice d 2)))
      :struct (struct ;(map mk (tuple/slice d 1)))
      (errorf "bad descriptor %p" d))
    d))

(def kind-info
  # kind -> [family nslots has-proto]
  {:A [:A 2 false] :P [:P 2 false] :B [:B 2 false] :T [:T 2 true] :S [:S 2 true] :U [:U 0 false]
   :A1 [:A 1 false] :P1 [:P 1 false] :T1 [:T 1 true] :S1 [:S 1 true]
   :A3 [:A 3 false] :P3 [:P 3 false]})

(defn- pairs-of [nd nslots]
  # T x y -> :a x  y :v ;  T1 x -> :a x
  (if (= nslots 2)
    [:a (mk (in nd 1)) (mk (in nd 2)) :v]
    [:a (mk (in nd 1))]))

(defn build [nodes order]
  (set objs (array/new-filled (length nodes)))
  (eachp [i nd] nodes
    (case (in (in kind-info (in nd 0)) 0)
      :A (put objs i @[])
      :T (put objs i @{})
      :U (put objs i (buffer "buf" i))))
  (each i order
    (def nd (in nodes i))
    (def [fam nslots hasp] (in kind-info (in nd 0)))
    (put objs i
         (case fam
           :P (tuple ;(map mk (tuple/slice nd 1)))
           :B (tuple/brackets ;(map mk (tuple/slice nd 1)))
           :S (let [p (in nd (+ 1 nslots))]
                (if (nil? p)
                  (struct ;(pairs-of nd nslots))
                  (struct/with-proto (mk p) ;(pairs-of nd nslots)))))))
  (eachp [i nd] nodes
    (def [fam nslots hasp] (in kind-info (in nd 0)))
    (case fam
      :A (each s (tuple/slice nd 1) (array/push (in objs i) (mk s)))
      :T (let [t (in objs i) kv (pairs-of nd nslots) p (in nd (+ 1 nslots))]
           (loop [j :range [0 (length kv) 2]] (put t (in kv j) (in kv (+ j 1))))
           (unless (nil? p) (table/setproto t (mk p))))))
  (in objs 0))

(defn- same [a b] (if (= a b) "=" b))

(defn- rt [x] (unmarshal (marshal x)))

(defn do-graph [item]
  (def nodes (in item 1))
  (def lean (in item 4))
  (def x (build nodes (in item 2)))
  (def o (canon x))
  (def out @[o])
  # 1 plain
  (def b0 (marshal x))
  (def c1 (unmarshal b0))
  (array/push out (same o (canon c1)))
  # 2 the image dictionaries (nothing of the graph is in them)
  (array/push out (if lean "=" (same o (canon (unmarshal (marshal x make-image-dict) load-image-dict)))))
  # 3 twice: the copy is itself a well-formed value
  (array/push out (if lean "=" (same o (canon (rt c1)))))
  # 4 purely immutable values: the copy is = to the original and hashes the same
  (array/push out (if (in item 3) (string (= x c1) (= (hash x) (hash c1))) "-"))
  # 5 one registered node at a time: marshal replaces it by a name, unmarshal by a fresh value of the same type
  (eachp [k obj] objs
    (def repl (case (type obj)
                :array @[:R] :table @{:R 1} :buffer @"R" :struct {:R 1}
                :tuple (if (= :brackets (tuple/type obj)) (tuple/brackets :R) (tuple :R))))
    (def c (unmarshal (marshal x @{obj 'r}) @{'r repl}))
    (array/push out (canon c)))
  # 7 the graph held by a closure (captured variable) and by a suspended fiber (local of its
  #   frame), marshalled together with the graph itself: one copy of the graph, reachable three ways
  (array/push out
              (if lean "="
                (let [holder (let [cap x] (fn holder [] cap))
                      fb (fiber/new (let [cap x] (fn body [] (def loc cap) (yield 1) loc)))]
                  (resume fb)
                  (def pc (rt [x holder fb]))
                  (def x2 (in pc 0))
                  (def via-closure ((in pc 1)))
                  (def via-fiber (resume (in pc 2)))
                  (cond
                    (not= o (canon x2)) (canon x2)
                    (not= (canon [x2 via-closure via-fiber]) (canon [x x x])) (canon [x2 via-closure via-fiber])
                    "="))))
  # 6 marshalling does not change the original, and is a function of the value
  (array/push out (if (= (string b0) (string (marshal x))) (if lean "=" (same o (canon x))) "remarshal-differs"))
  (string/join out "\t"))

(defn do-value [item]
  (set objs @[])
  (def x (mk (in item 1)))
  (def o (canon x))
  (def c1 (rt x))
  (def out @[o (same o (canon c1))])
  # as an element, as a table value and (if possible) as a table key, after a numbered sibling
  (def w @["sib" x @{:k x} x])
  (def ow (canon w))
  (array/push out ow)
  (array/push out (same ow (canon (rt w))))
  (array/push out (string (type c1)))
  # the type byte of the encoding survives (weak tables and arrays stay weak), and marshalling
  # into a buffer that already holds data appends
  (def b (marshal x @{} @"pre"))
  (array/push out (string (= (in (marshal x) 0) (in (marshal c1) 0))
                          (and (= "pre" (string (buffer/slice b 0 3))) (= o (canon (unmarshal (buffer/slice b 3)))))))
  (string/join out "\t"))

(defn do-ints [item]
  (def lo (in item 1))
  (def n (in item 2))
  (var bad 0)
  (var first-bad nil)
  (var done 0)
  (var base lo)
  (def hi (+ lo n))
  (while (< base hi)
    (def m (min 65536 (- hi base)))
    (def a (array/new m))
    (for j 0 m (array/push a (+ base j)))
    (def b (unmarshal (marshal a)))
    (if (not= (length b) m)
      (do (++ bad) (if (nil? first-bad) (set first-bad base)))
      (for j 0 m
        (when (not= (in a j) (in b j))
          (++ bad)
          (if (nil? first-bad) (set first-bad (in a j))))))
    (+= done m)
    (+= base m))
  (string done " " bad " " (if (nil? first-bad) "-" (string/format "%d" first-bad))))

(defn do-int1 [item]
  # every int: alone at top level; as the count of a buffer is not possible for negatives, so
  # additionally as a channel capacity? no - kept simple: top level, tuple element, struct key+value
  (def out @[])
  (each v (tuple/slice item 1)
    (def a (unmarshal (marshal v)))
    (def b (unmarshal (marshal [v {v v}])))
    (array/push out (string (canon a) " " (canon b))))
  (string/join out "\t"))

(batch-run
  (fn [item]
    (case (in item 0)
      :g (do-graph item)
      :v (do-value item)
      :ints (do-ints item)
      :int1 (do-int1 item)
      (errorf "unknown item %p" item))))
