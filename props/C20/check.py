#!/usr/bin/env python3
"""C20 - programs end when work is done; steady-state resources stay bounded.

Part T (termination): every program of a small grammar - up to 3 tasks, each a
sequence of operations from {sleep, waiting thread call, detached thread +
thread-channel result, subprocess spawn+wait, os/execute, deadline that fires,
deadline that does not fire, stream read that times out} optionally linked by a
channel / pipe / thread-channel hand-off or a cancellation - is run as a
stand-alone process (virtual time). Known expected completions: every task
prints `done i`. The process must exit by itself with status 0 (no hang after
the work is finished) and must have printed every expected line (no exit while
a fiber is still waiting).

Part S (steady state): every cycle of a fixed list and every ordered pair of
cycles is repeated N, 2N, 4N times in one process; descriptors, child
processes, threads, GC roots, heap blocks, timer-heap size and listener count
must not grow in proportion to the number of repetitions, and with no task
outstanding the loop's pending-work counters must be zero.
"""
import itertools
import os
import shutil
import sys

HERE = os.path.dirname(os.path.abspath(__file__))
sys.path.insert(0, os.path.join(HERE, "..", "..", "engine", "mc"))
from core import *  # noqa
HERE = os.path.dirname(os.path.abspath(__file__))
import canonparse  # noqa

STEADY = os.path.join(HERE, "driver_steady.janet")

CYCLES = ("pipe-open-close pipe-roundtrip pipe-drop unix-socket spawn-wait spawn-wait-pipes spawn-kill-wait "
          "spawn-drop execute thread-call thread-async-chan chan-go-give-take chan-cancelled-waiter select-abandon "
          "read-timeout deadline-no-fire deadline-fire go-error-supervisor spawn-finish file-open-close file-drop "
          "parser-peg sleep lock spawn-err-pipe spawn-all-pipes thread-call-cancelled thread-call-deadline "
          "proc-wait-cancelled read-cancelled write-cancelled sleep-cancelled connect-refused connect-accept-tcp "
          "spawn-drop-running deadline-body-raises tchan-streams-drop lock-drop tchan-cancelled-take-close "
          "tchan-abandoned-select-close").split()
FIELDS = ["fds", "children", "threads", "root-count", "block-count", "tq-count", "listener-count", "fds-before-gc"]
# cycles that deliberately drop an open handle and leave closing it to the collector
GC_CLOSES = {"pipe-drop", "file-drop", "spawn-drop", "spawn-drop-running", "tchan-streams-drop"}

# ------------------------------------------------------------------ termination programs

SOLO = {
    "S": "(ev/sleep 0.01)",
    "T": "(ev/thread (fn [&] (os/sleep 0.001) 1))",
    "N": "(do (def tc (ev/thread-chan 1)) (ev/thread (fn [tc] (ev/give tc 7)) tc :n) (ev/take tc))",
    "P": "(do (def p (os/spawn [\"/bin/true\"] :p)) (os/proc-wait p) (os/proc-close p))",
    "X": "(os/execute [\"/bin/true\"] :p)",
    "D": "(try (ev/with-deadline 0.01 (ev/take (ev/chan))) ([e] nil))",
    "F": "(ev/with-deadline 5 (ev/sleep 0.001))",
    "R": "(do (def [r w] (os/pipe)) (try (ev/read r 1 nil 0.01) ([e] nil)) (ev/close r) (ev/close w))",
    "G": "(try (ev/with-deadline 5 (error \"body-failed\")) ([e] nil))",
    "E": "(do (def p (os/spawn [\"/bin/sh\" \"-c\" \"echo x >&2\"] :p {:err :pipe :out :pipe})) (ev/read (p :err) :all) (ev/read (p :out) :all) (os/proc-wait p) (os/proc-close p))",
}
LINKS = ["none", "chan", "pipe", "tchan", "cancel", "cancel-read"]


def program(tasks, link, main_waits):
    """tasks: list of op-letter strings. Returns (source, expected lines)."""
    lines = ["(def c (ev/chan))", "(def tc (ev/thread-chan))", "(def [pr pw] (os/pipe))", "(def fibs @[])",
             "(def ready (ev/chan 1))"]
    expect = []
    n = len(tasks)
    for i, ops in enumerate(tasks):
        body = [SOLO[o] for o in ops]
        # link between task 0 and task 1 happens after their own operations
        if n >= 2 and i == 0:
            if link == "chan":
                body.append("(ev/give c :v)")
            elif link == "pipe":
                body.append("(ev/write pw \"xyz\") (ev/close pw)")
            elif link == "tchan":
                body.append("(ev/give tc :v)")
            elif link in ("cancel", "cancel-read"):
                # wait until task 1 has announced that it is about to block, let it block, then cancel it
                body.append("(ev/take ready) (ev/sleep 0.005) (ev/cancel (fibs 1) :stop)")
        if n >= 2 and i == 1:
            if link == "chan":
                body.append("(ev/take c)")
            elif link == "pipe":
                body.append("(ev/chunk pr 3) (ev/read pr 1)")
            elif link == "tchan":
                body.append("(ev/take tc)")
            elif link == "cancel":
                body.append("(ev/give ready true) (try (ev/take (ev/chan)) ([e] (print \"cancelled 1\")))")
                expect.append("cancelled 1")
            elif link == "cancel-read":
                body.append("(ev/give ready true) (try (ev/read pr 1) ([e] (print \"cancelled 1\")))")
                expect.append("cancelled 1")
        lines.append("(array/push fibs (ev/go (fn [] %s (print \"done %d\"))))" % (" ".join(body), i))
        expect.append("done %d" % i)
    if main_waits:
        lines.append("(ev/sleep 0.002)")
    lines.append("(print \"main returns\")")
    expect.append("main returns")
    return "\n".join(lines) + "\n", sorted(expect)


def burst_program(n, kind):
    """n tasks whose completions (thread calls / subprocess waits) all arrive while the main fiber is busy,
    so that n self-pipe events are pending at one wakeup of the loop"""
    op = SOLO["T"] if kind == "thread" else SOLO["P"]
    lines = ["(def fibs @[])"]
    for i in range(n):
        lines.append("(array/push fibs (ev/go (fn [] %s (print \"done %d\"))))" % (op, i))
    lines.append("(ev/sleep 0)")
    lines.append("(var acc 0) (for i 0 3000000 (+= acc i))   # busy: completions queue up")
    lines.append("(print \"main returns\")")
    return "\n".join(lines) + "\n", sorted(["done %d" % i for i in range(n)] + ["main returns"])


VT_EXIT_LIMIT_MS = 2000.0


def special_program(kind):
    """hand-written complete programs with known expected output"""
    if kind == "duplex-gc":
        # a reader and a writer parked on one socket, referenced by nothing but that stream, while a collection runs
        src = """(def path (string "/tmp/c20-duplex-" (os/getpid) ".sock"))
(def srv (net/listen :unix path))
(def pc (ev/chan 1))
(ev/go (fn [] (ev/give pc (net/accept srv))))
(do
  (def cli (net/connect :unix path))
  (ev/go (fn [] (ev/read cli 64) (print "reader done")))
  (ev/go (fn [] (ev/write cli (string/repeat "w" 3000000)) (print "writer done")))
  nil)
(def peer (ev/take pc))
(os/rm path)
(ev/sleep 0)
(gccollect) (gccollect)
(var total 0)
(while (< total 3000000) (def b (ev/read peer 65536)) (if (nil? b) (break)) (+= total (length b)))
(ev/write peer "reply")
(ev/sleep 0.01)
(ev/close peer) (ev/close srv)
(print "main returns " total)
"""
        return src, sorted(["reader done", "writer done", "main returns 3000000"])
    if kind == "close-both":
        # a reader and a writer parked on one stream whose peer neither writes nor reads; a third task closes the stream:
        # both must end so that the loop can return
        src = """(def path (string "/tmp/c20-close-" (os/getpid) ".sock"))
(def srv (net/listen :unix path))
(def pc (ev/chan 1))
(ev/go (fn [] (ev/give pc (net/accept srv))))
(def cli (net/connect :unix path))
(def peer (ev/take pc))
(os/rm path)
(ev/go (fn [] (try (do (ev/read cli 64) (print "reader returned")) ([e] (print "reader raised")))))
(ev/go (fn [] (try (do (ev/write cli (string/repeat "w" 8000000)) (print "writer returned")) ([e] (print "writer raised")))))
(ev/sleep 0.05)
(ev/close cli)
(ev/sleep 0.05)
(ev/close peer) (ev/close srv)
(print "main returns")
"""
        return src, None
    if kind == "tchan-writers-cancel":
        # three fibers blocked in ev/give on a full thread channel; the first one is cancelled; every value that was
        # given must still be taken and the two remaining givers must finish, so that the loop can return
        src = """(def tc (ev/thread-chan 1))
(ev/give tc :first)
(defn giver [name naps] (ev/go (fn [] (repeat naps (ev/sleep 0.001)) (try (do (ev/give tc name) (print "gave " name)) ([e] (print "cancelled " name))))))
(def a (giver :a 0)) (giver :b 2) (giver :c 3)
(ev/sleep 0.05)
(ev/cancel a :stop)
(ev/sleep 0.01)
(def got @[])
(repeat 3 (ev/sleep 0.01) (array/push got (ev/take tc)))
(ev/sleep 0.05)
(repeat (ev/count tc) (array/push got (ev/take tc)))
(print "main returns " (length got))
"""
        return src, sorted(["cancelled a", "gave b", "gave c", "main returns 4"])
    raise ValueError(kind)


def seqs(maxlen, letters):
    out = [""]
    for n in range(1, maxlen + 1):
        out += ["".join(p) for p in itertools.product(letters, repeat=n)]
    return out


def term_programs(quick):
    letters = sorted(SOLO)
    progs = []
    # one task: every sequence up to length 3 (quick 2)
    for s in seqs(2 if quick else 3, letters):
        for mw in (False, True):
            progs.append(([s], "none", mw))
    # two tasks: all pairs of sequences up to length 1 (thorough 2) x every link
    two = seqs(1 if quick else 2, letters)
    for a in two:
        for b in two:
            for link in LINKS:
                progs.append(([a, b], link, False))
    # three tasks: sequences of length <= 1, links none/chan/cancel
    three = seqs(1, letters)
    for a in three:
        for b in three:
            for c in (three if not quick else ["", "S", "T", "P"]):
                for link in ("none", "chan", "cancel"):
                    progs.append(([a, b, c], link, False))
    progs.append((["duplex-gc"], "special", False))
    progs.append((["tchan-writers-cancel"], "special", False))
    progs.append((["close-both"], "special", False))
    for n in (2, 8, 9, 16, 24, 40, 64):
        for kind in ("thread", "proc"):
            progs.append(([str(n)], "burst", kind))
    return progs


def run_term(chk):
    exe = vjanet("fast")
    progs = term_programs(chk.quick)
    tmp = mktmp()

    def one(idx_prog):
        idx, (tasks, link, mw) = idx_prog
        if link == "burst":
            src, expect = burst_program(int(tasks[0]), mw)
        elif link == "special":
            src, expect = special_program(tasks[0])
        else:
            src, expect = program(tasks, link, mw)
        path = os.path.join(tmp, "p%d.janet" % idx)
        with open(path, "w") as f:
            f.write(src)
        r = run(exe, [path], env={"VERIF_VTIME": "1", "VERIF_VT_EXIT": path + ".vt"}, timeout=40)
        os.unlink(path)
        vt = None
        try:
            with open(path + ".vt") as f:
                vt = float(f.read().split()[0])
            os.unlink(path + ".vt")
        except (OSError, ValueError, IndexError):
            pass
        return (r, vt)

    results = []
    hangs = 0
    try:
        todo = list(enumerate(progs))
        for i in range(0, len(todo), 128):
            if hangs >= 8:
                chk.cap("termination: %d programs not run after %d hanging programs" % (len(todo) - i, hangs))
                break
            part = pmap(one, todo[i:i + 128])
            hangs += sum(1 for r, _ in part if r.timed_out)
            results += part
    finally:
        shutil.rmtree(tmp, ignore_errors=True)
    progs = progs[:len(results)]
    vt_max = [0.0]
    for (tasks, link, mw), (r, vt_exit) in zip(progs, results):
        chk.add(evaluations=1, transitions=1, states=1)
        if link == "burst":
            src, expect = burst_program(int(tasks[0]), mw)
            tasks = ["%s-x%s" % (mw, tasks[0])]
            mw = False
        elif link == "special":
            src, expect = special_program(tasks[0])
        else:
            src, expect = program(tasks, link, mw)
        got = sorted(l for l in r.out.decode(errors="replace").split("\n") if l)
        shape = "%s/link=%s" % ("+".join(t or "-" for t in tasks), link)
        chk.outcome((tuple(sorted(set("".join(tasks)))), link, len(tasks)))
        opsig = "ops[%s]:link=%s" % ("".join(sorted(set("".join(tasks)))) or "-", link)
        if r.timed_out:
            chk.violation("hang-after-work-done:" + opsig,
                          "program %s did not exit (60 s); output so far %r" % (shape, got), src,
                          replay_cmd="janet <file>   # must print every expected line and exit")
        elif r.rc != 0:
            chk.violation("abnormal-exit:" + opsig, "program %s: %s out=%r" % (shape, r.describe(), got), src)
        elif expect is None:
            # outcome of the two closed operations may be a return or an error; what matters is that both end
            if not (len(got) == 3 and "main returns" in got and any(g.startswith("reader ") for g in got) and any(g.startswith("writer ") for g in got)):
                chk.violation("exit-before-completion:" + opsig, "program %s printed %r, expected one line each from reader, writer and main" % (shape, got), src)
        elif got != expect:
            missing = [e for e in expect if e not in got]
            chk.violation(("exit-before-completion:" if missing else "unexpected-output:") + opsig,
                          "program %s printed %r, expected %r" % (shape, got, expect), src)
        elif vt_exit is None:
            raise HarnessError("no virtual exit time recorded for program %s" % shape)
        elif vt_exit > VT_EXIT_LIMIT_MS:
            # no operation of the grammar needs more than a few hundredths of a (virtual) second; the guard deadlines
            # are 5 s. A loop that returns later than that was kept alive by something that was no longer needed.
            chk.violation("loop-outlives-the-work:" + opsig,
                          "program %s printed everything but the event loop only returned at virtual time %.3f s "
                          "(all work is done within %.1f s)" % (shape, vt_exit / 1000.0, VT_EXIT_LIMIT_MS / 1000.0), src,
                          replay_cmd="janet <file>   # must exit as soon as the last line is printed (here: after seconds of real time)")
        vt_max[0] = max(vt_max[0], vt_exit or 0)
    chk.part("termination", programs=len(progs), latest_virtual_exit_ms=vt_max[0])
    chk.sample({"termination_program": program(["TP", "S"], "pipe", False)[0]})


# ------------------------------------------------------------------ steady state

def run_steady(chk, scratch):
    n = 40 if chk.quick else 200
    singles = [(a, None) for a in CYCLES]
    if chk.quick:
        core = ["pipe-roundtrip", "spawn-wait", "thread-async-chan", "chan-cancelled-waiter", "read-timeout",
                "deadline-fire", "select-abandon", "unix-socket", "thread-call-cancelled", "spawn-all-pipes"]
        pairs = [(a, b) for a in core for b in core if a != b]
    else:
        pairs = [(a, b) for a in CYCLES for b in CYCLES if a != b]
    todo = singles + pairs
    items = [jdn({Kw("a"): Kw(a), Kw("b"): Kw(b) if b else None, Kw("n"): n, Kw("scratch"): scratch}) for a, b in todo]
    res = run_batch("fast", STEADY, items, env={"VERIF_VTIME": "1"}, chunk=4, timeout=120 if chk.quick else 300, max_deaths=6)
    # a chunk that ran out of time on a loaded machine is not a hang of the cycle: every timed-out item is run again
    # alone with a generous limit before it counts (cycles with live threads or children cost real-time patience)
    late = [i for i, (st, _) in enumerate(res) if st == "TIMEOUT"]
    if late:
        again = run_batch("fast", STEADY, [items[i] for i in late], env={"VERIF_VTIME": "1"}, chunk=1, timeout=1200, max_deaths=6)
        for i, r in zip(late, again):
            res[i] = r
        chk.part("steady", rerun_after_chunk_timeout=len(late))
    for (a, b), (st, text) in zip(todo, res):
        chk.add(evaluations=1, transitions=4, states=4)
        name = a + ("+" + b if b else "")
        if st == "SKIPPED":
            chk.cap("steady: cycles not run after 6 dead workers")
            continue
        if st != "OK":
            chk.violation("steady:%s:%s" % (st.lower(), name), "cycle %s x %d: %s %s" % (name, n, st, text[:500]),
                          "# run props/C20/driver_steady.janet with item {:a :%s :b %s :n %d}\n" % (a, ":" + b if b else "nil", n))
            continue
        s0, s1, s2, s4 = canonparse.parse(text)
        chk.outcome((name, tuple(s4)))
        for i, field in enumerate(FIELDS):
            if field == "fds-before-gc":
                # every snapshot ends with a collection, so descriptors that only a finalizer releases show up as the
                # difference between the count before and after the collection of the same snapshot: n rounds were run
                # before s1 and s2, 2n before s4. Cycles that drop an open handle on purpose are exempt.
                if a in GC_CLOSES or b in GC_CLOSES:
                    continue
                h1, h2, h4 = s1[i] - s1[0], s2[i] - s2[0], s4[i] - s4[0]
                if h1 >= n // 2 and h2 >= n // 2 and h4 >= n:
                    chk.violation("leak:fds-held-until-collection:%s" % name,
                                  "cycle %s closes everything it was given, yet descriptors stay open until a collection "
                                  "and their number grows with the repetitions: %d after %d rounds, %d after %d, %d after %d" % (
                                      name, h1, n, h2, n, h4, 2 * n),
                                  "# repeat the cycle `%s` from props/C20/driver_steady.janet without collecting and watch "
                                  "(verif/vm-info) :fds\n" % name)
                continue
            d1, d2 = s2[i] - s1[i], s4[i] - s2[i]
            # proportional growth at two scales = a per-cycle leak (n and 2n further repetitions)
            if d1 >= n // 2 and d2 >= n:
                chk.violation("leak:%s:%s" % (field, name),
                              "%s grows with repetitions of cycle %s: %d at %d, %d at %d, %d at %d iterations" % (
                                  field, name, s1[i], n, s2[i], 2 * n, s4[i], 4 * n),
                              "# repeat the cycle `%s` from props/C20/driver_steady.janet and watch %s\n" % (name, field))
        # nothing is outstanding at a snapshot: pending-work counters must be zero
        for snap in (s1, s2, s4):
            if snap[5] != 0 or snap[6] != 0:
                chk.violation("pending-work-nonzero:%s" % name,
                              "after cycle %s finished, tq-count=%d listener-count=%d (expected 0 0)" % (name, snap[5], snap[6]),
                              "# cycle `%s` from props/C20/driver_steady.janet\n" % name)
                break
    chk.part("steady", cycles=len(singles), pairs=len(pairs), n=n)
    chk.sample({"steady_cycle": "thread-async-chan", "snapshots_fields": FIELDS})


def main():
    chk = Check("C20")
    chk.rule("termination: all programs of the task grammar (1-3 tasks x operation sequences over 8 operation kinds x 6 "
             "link kinds) run as stand-alone processes under virtual time with known expected completions; steady state: "
             "every cycle and every ordered pair of cycles repeated n, 2n, 4n times with 7 resource counters compared. "
             "Non-trivial distinct = distinct (operation set, link, task count) / (cycle, final counters) outcomes.")
    chk.assume("subprocess exit and thread completion timing are the kernel's; virtual time waits for live threads; "
               "a counter may grow by a constant (caches), only growth proportional to the repetitions at two scales is a leak")
    scratch = mktmp()
    try:
        with open(os.path.join(scratch, "marker"), "w") as f:
            f.write("marker\n")
        if chk.args.only in (None, "term"):
            run_term(chk)
        if chk.args.only in (None, "steady"):
            run_steady(chk, scratch)
    finally:
        shutil.rmtree(scratch, ignore_errors=True)
    chk.cov["bound_completed"] = "termination grammar and steady cycles fully enumerated for this tier"
    chk.finish()


if __name__ == "__main__":
    harness_guard(main)
