# C06 ring workout: every give/take sequence (never blocking) of length <= len on one
# channel, after rotating the ring by `prefix` give+take pairs. Oracle: a plain array queue.
(use prelude)

# heap mode: the values are fresh buffers that only the channel refers to (the oracle keeps their text), and a
# collection followed by same-sized garbage runs after every operation: a queued value must survive in the ring
(var heap-mode false)
(defn- mk [v] (if heap-mode (buffer "value-" v "-" (string/repeat "z" 20)) v))
(defn- settle []
  (when heap-mode
    (gccollect)
    (repeat 4 (buffer "trash-" 12345 "-" (string/repeat "q" 20)))))
(defn- same [got want] (if heap-mode (and (buffer? got) (= (string got) (string (mk want)))) (= got want)))

(defn run-seq [cap prefix bits n]
  (def c (ev/chan cap))
  (def q @[])
  (var next-v 0)
  (var bad nil)
  (repeat prefix
    (ev/give c (mk next-v)) (array/push q next-v) (++ next-v) (settle)
    (def got (ev/take c))
    (def want (first q)) (array/remove q 0)
    (unless (same got want) (set bad [:prefix got want])))
  (for i 0 n
    (if (= 1 (band 1 (brshift bits i)))
      (when (< (length q) cap)
        (ev/give c (mk next-v)) (array/push q next-v) (++ next-v) (settle))
      (when (> (length q) 0)
        (def got (ev/take c))
        (def want (first q)) (array/remove q 0)
        (unless (same got want) (set bad [:take i got want])) (settle)))
    (unless (= (ev/count c) (length q)) (set bad [:count i (ev/count c) (length q)])))
  # drain
  (while (> (length q) 0)
    (def got (ev/take c))
    (def want (first q)) (array/remove q 0)
    (unless (same got want) (set bad [:drain got want])))
  bad)

# hand-off mode: k takers are already waiting; fresh heap values are handed to them directly, and a collection (plus
# same-sized garbage) runs before the takers get to run - the value then lives in the run queue only. Many rounds, so
# that the run-queue ring is used at every offset.
(defn run-handoff [rounds]
  (def c (ev/chan 0))
  (var bad nil)
  (var seq 0)
  (for r 0 rounds
    (def k (+ 1 (% r 3)))
    (def got @[])
    (repeat k (ev/go (fn [] (array/push got (ev/take c)))))
    (ev/sleep 0)
    # the parked takers are referenced by nothing but the channel's queue of pending readers
    (gccollect)
    (repeat 4 (fiber/new (fn [] r)) (buffer "trash-" 54321 "-" (string/repeat "p" 20)))
    (def want @[])
    (repeat k
      (++ seq)
      (array/push want (string "handoff-" seq "-" (string/repeat "h" 20)))
      (ev/give c (case (% seq 3)
                   0 (buffer "handoff-" seq "-" (string/repeat "h" 20))
                   1 (tuple :payload (string "handoff-" seq "-" (string/repeat "h" 20)))
                   @[(string "handoff-" seq "-" (string/repeat "h" 20))])))
    (gccollect)
    (repeat 6 (buffer "trash-" 12345 "-" (string/repeat "q" 20)) (tuple :payload (string "x" r)) @[(string "y" r)])
    (ev/sleep 0)
    (def seen (map (fn [v] (cond (buffer? v) (string v) (tuple? v) (get v 1) (array? v) (get v 0) v)) got))
    (unless (deep= (sorted seen) (sorted want))
      (when (nil? bad) (set bad [r k seen want]))))
  bad)

(batch-run
  (fn [item]
    (when (item :handoff)
      (break (canon [(item :handoff) (run-handoff (item :handoff))])))
    (def cap (item :cap))
    (def prefix (item :prefix))
    (def n (item :len))
    (set heap-mode (truthy? (get item :heap)))
    (var count 0)
    (var firstbad nil)
    (for bits 0 (blshift 1 n)
      (++ count)
      (def bad (run-seq cap prefix bits n))
      (when (and bad (nil? firstbad)) (set firstbad [bits bad])))
    (canon [count firstbad])))
