# C06 ring workout: every give/take sequence (never blocking) of length <= len on one
# channel, after rotating the ring by `prefix` give+take pairs. Oracle: a plain array queue.
(use prelude)

# heap mode: the values are fresh buffers that only the channel refers to (the oracle keeps their text), and a
# collection followed by same-sized garbage runs after every operation: a queued value must survive in the ring
(var heap-mode false)
(defn- mk [v] (if heap-mode (buffer "value-" v "-" (string/repeat "z" 20)) v))
(defn- settle []
  (when heap-mode
    (gccollect)
    (repeat 4 (buffer "trash-" 12345 "-" (string/repeat "q" 20)))))
(defn- same [got want] (if heap-mode (and (buffer? got) (= (string got) (string (mk want)))) (= got want)))

(defn run-seq [cap prefix bits n]
  (def c (ev/chan cap))
  (def q @[])
  (var next-v 0)
  (var bad nil)
  (repeat prefix
    (ev/give c (mk next-v)) (array/push q next-v) (++ next-v) (settle)
    (def got (ev/take c))
    (def want (first q)) (array/remove q 0)
    (unless (same got want) (set bad [:prefix got want])))
  (for i 0 n
    (if (= 1 (band 1 (brshift bits i)))
      (when (< (length q) cap)
        (ev/give c (mk next-v)) (array/push q next-v) (++ next-v) (settle))
      (when (> (length q) 0)
        (def got (ev/take c))
        (def want (first q)) (array/remove q 0)
        (unless (same got want) (set bad [:take i got want])) (settle)))
    (unless (= (ev/count c) (length q)) (set bad [:count i (ev/count c) (length q)])))
  # drain
  (while (> (length q) 0)
    (def got (ev/take c))
    (def want (first q)) (array/remove q 0)
    (unless (same got want) (set bad [:drain got want])))
  bad)

(batch-run
  (fn [item]
    (def cap (item :cap))
    (def prefix (item :prefix))
    (def n (item :len))
    (set heap-mode (truthy? (get item :heap)))
    (var count 0)
    (var firstbad nil)
    (for bits 0 (blshift 1 n)
      (++ count)
      (def bad (run-seq cap prefix bits n))
      (when (and bad (nil? firstbad)) (set firstbad [bits bad])))
    (canon [count firstbad])))
