#!/usr/bin/env python3
"""C06 - channels conserve values, keep order, respect capacity, lose no wakeups.

Explicit-state BFS over director histories (DESIGN.md K3): every history of
director actions (start give/take/select/rselect/close on the lowest idle
worker) up to a depth bound is replayed on fresh channels in the real
interpreter; after every action the loop is run to quiescence and worker
states, completed operations with their results and channel counts are
compared with the abstract channel model (props/C06/model.py).
"""
import itertools
import os
import sys

HERE = os.path.dirname(os.path.abspath(__file__))
sys.path.insert(0, os.path.join(HERE, "..", "..", "engine", "mc"))
from core import *  # noqa
HERE = os.path.dirname(os.path.abspath(__file__))
from explore import bfs_histories, Mismatch  # noqa
import canonparse  # noqa
from chanmodel import Model, ERR  # noqa

DRIVER = os.path.join(HERE, "driver.janet")


# ------------------------------------------------------------------ encoding

def op_jdn(op):
    k = op[0]
    if k == "give":
        return [Kw("give"), op[1], op[2]]
    if k == "take":
        return [Kw("take"), op[1]]
    if k == "close":
        return [Kw("close"), op[1]]
    if k in ("select", "rselect"):
        cls = [[Kw("g"), c[1], c[2]] if c[0] == "g" else [Kw("t"), c[1]] for c in op[1]]
        return [Kw(k), cls]
    raise ValueError(op)


def item_for(caps, nw, hist):
    return jdn({Kw("caps"): list(caps), Kw("nw"): nw, Kw("hist"): [[w, op_jdn(op)] for w, op in hist]})


def decode_trace(text):
    """canon text -> list of observations (workers, done-multiset, spurious, chans)"""
    v = canonparse.parse(text)
    out = []
    for workers, done, spurious, chans in v:
        comps = []
        for w, opid, r, _t in done:
            if r[0] == "ok" or r[0] == Kw("ok"):
                comps.append((w, r[1]))
            else:
                comps.append((w, ERR))
        out.append((tuple(workers), tuple(sorted(comps, key=repr)), len(spurious), tuple(tuple(c) for c in chans)))
    return out


# ------------------------------------------------------------------ alphabet

def make_actions(nchan, depth_of, with_rselect, with_select2):
    def actions(model):
        idle = model.idle()
        if not idle:
            return []
        w = idle[0]            # idle workers are interchangeable: lowest id only
        d = depth_of(model)
        base = 100 + 10 * d
        acts = []
        for c in range(nchan):
            acts.append((w, ("give", c, base)))
            acts.append((w, ("take", c)))
            acts.append((w, ("close", c)))
            acts.append((w, ("select", (("g", c, base),))))
            acts.append((w, ("select", (("t", c),))))
        if nchan >= 2 and with_select2:
            for c0, c1 in itertools.permutations(range(nchan), 2):
                for k0 in "gt":
                    for k1 in "gt":
                        cl0 = ("g", c0, base) if k0 == "g" else ("t", c0)
                        cl1 = ("g", c1, base + 1) if k1 == "g" else ("t", c1)
                        acts.append((w, ("select", (cl0, cl1))))
                        if with_rselect and c0 < c1:
                            acts.append((w, ("rselect", (cl0, cl1))))
        return acts
    return actions


def opshape(op):
    if op[0] in ("select", "rselect"):
        return op[0] + "[" + ",".join(c[0] for c in op[1]) + "]"
    return op[0]


def ctx_of(model, op):
    chans = [op[1]] if op[0] in ("give", "take", "close") else [c[1] for c in op[1]]
    parts = []
    for c in chans:
        ch = model.ch[c]
        live_r = sum(1 for e in ch.readers if model.live(e))
        stale_r = sum(1 for e in ch.readers if not model.live(e))
        live_w = sum(1 for it in ch.items if model.live(it[1]))
        stale_w = sum(1 for it in ch.items if it[1] is not None and not model.live(it[1]))
        n = len(ch.items)
        rel = "lt" if n < ch.cap else ("eq" if n == ch.cap else "gt")
        parts.append("cap%d.items-%s-cap.%s.readers%s%s.writers%s%s" % (
            ch.cap, rel, "closed" if ch.closed else "open",
            "+" if live_r else "0", "s" if stale_r else "",
            "+" if live_w else "0", "s" if stale_w else ""))
    return "/".join(parts)


def judge(model, action, obs):
    w, op = action
    workers, comps, nspur, chans = obs
    cands = model.step(w, op)
    for pcomps, m2 in cands:
        if (tuple(sorted(pcomps, key=repr)) == comps and m2.worker_obs() == workers
                and m2.chan_obs() == chans):
            m2.spurious_seen = nspur
            return m2
    # classify against the first (FIFO / in-order) candidate
    pcomps, m2 = cands[0]
    pw = m2.worker_obs()
    exp = tuple(sorted(pcomps, key=repr))
    if workers != pw:
        lost = [i for i in range(len(pw)) if workers[i] == "blocked" and pw[i] == "idle"]
        early = [i for i in range(len(pw)) if workers[i] == "idle" and pw[i] == "blocked"]
        kind = "lost-wakeup" if lost else ("completed-but-should-block" if early else "worker-state")
    elif comps != exp:
        kind = "wrong-result"
    else:
        kind = "channel-count"
    sig = "%s:%s:%s" % (kind, opshape(op), ctx_of(model, op))
    what = ("after %r by worker %d: model expects workers=%s completions=%s chans=%s; "
            "implementation shows workers=%s completions=%s chans=%s" % (
                op, w, list(map(str, pw)), exp, m2.chan_obs(), list(map(str, workers)), comps, chans))
    raise Mismatch(sig, what)


REPLAY_HEAD = '''# Stand-alone replay (plain janet): each step starts one channel operation in its own
# fiber, lets the event loop settle, and prints which operations completed.
(def chans (map |(ev/chan $) %s))
(def log @[])
(defn step [label thunk]
  (ev/spawn (def r (try (thunk) ([e] [:error e]))) (array/push log [label r]))
  (ev/sleep 0.01)
  (printf "after %%s: completed=%%j counts=%%j" label (map first log) (map ev/count chans)))
'''


def replay_text(caps, hist, what):
    lines = [REPLAY_HEAD % jdn(list(caps))]
    for i, (w, op) in enumerate(hist):
        k = op[0]
        if k == "give":
            e = "(ev/give (chans %d) %d)" % (op[1], op[2])
        elif k == "take":
            e = "(ev/take (chans %d))" % op[1]
        elif k == "close":
            e = "(ev/chan-close (chans %d))" % op[1]
        else:
            cl = " ".join("[(chans %d) %d]" % (c[1], c[2]) if c[0] == "g" else "(chans %d)" % c[1] for c in op[1])
            e = "(ev/%s %s)" % (k, cl)
        lines.append('(step "op%d %s" (fn [] %s))' % (i, e.replace('"', "'"), e))
    lines.append("# expected by the channel model: %s" % what.replace("\n", " "))
    lines.append("(os/exit 0)")
    return "\n".join(lines) + "\n"


def explore_config(chk, caps, nw, depth, with_rselect=True, with_select2=True, max_states=None, stop_at=None):
    label = "caps=%s workers=%d" % (list(caps), nw)
    init = Model(caps, nw)
    init.ring_key = (len(caps) == 1)      # single-channel configurations also distinguish ring-buffer positions
    depth_map = {}

    def depth_of(model):
        return model.depth

    init.depth = 0

    def run_layer(hists):
        items = [item_for(caps, nw, h) for h in hists]
        res = run_batch("fast", DRIVER, items, env={"VERIF_VTIME": "1"}, chunk=400, timeout=60, max_deaths=8)
        out = []
        for h, (st, text) in zip(hists, res):
            if st == "SKIPPED":
                chk.cap("%s: histories not run after 8 dead workers" % label)
                out.append(None)
                continue
            if st != "OK":
                # a crash / hang / driver error on a history is itself reportable
                chk.violation("driver-%s:%s" % (st.lower(), opshape(h[-1][1])),
                              "history %r on %s: %s %s" % (h, label, st, text[:300]),
                              replay_text(caps, h, st))
                out.append(None)
            else:
                out.append(decode_trace(text))
        return out

    def run_layer_safe(hists):
        tr = run_layer(hists)
        # histories whose run failed are dropped from the search by giving a trace that judge rejects
        return tr

    def jdg(model, action, obs):
        m2 = judge(model, action, obs)
        m2.depth = model.depth + 1
        chk.outcome((obs[1], obs[3]) if obs[1] else ("quiet", obs[0]))
        return m2

    def on_violation(hist, e, tr):
        chk.violation(e.sig, "%s history=%r: %s" % (label, hist, e.what), replay_text(caps, hist, e.what))

    acts = make_actions(len(caps), depth_of, with_rselect, with_select2)

    # wrap run_layer so failed runs do not abort the BFS
    def rl(hists):
        trs = run_layer(hists)
        return trs

    r = bfs_histories(chk, init, acts, _skip_none(rl), jdg, depth, label=label, max_states=max_states,
                      on_violation=on_violation, stop_at=stop_at)
    chk.add(states=r["states"], transitions=r["transitions"], evaluations=r["transitions"])
    chk.part(label, states=r["states"], transitions=r["transitions"], depth_completed=r["depth_completed"],
             depth_target=depth)
    return r


def _skip_none(fn):
    def g(hists):
        trs = fn(hists)
        # replace failed runs by a trace that cannot match (handled as violation already)
        return [t if t is not None else [("__failed__",)] * len(h) for t, h in zip(trs, hists)]
    return g


def ring_workout(chk, maxlen):
    """Exhaustive give/take sequences on one large-capacity channel from a single
    fiber: covers every head/tail/resize configuration of the ring-buffer queue
    (items of a channel; the same code serves the pending queues and the run queue)."""
    drv = os.path.join(HERE, "driver_ring.janet")
    items = []
    for cap in (3, 4, 9):
        for prefix in range(0, 6):
            items.append(jdn({Kw("cap"): cap, Kw("prefix"): prefix, Kw("len"): maxlen}))
    # a canary first: an implementation whose give blocks below capacity would hang every item
    canary = jdn({Kw("cap"): 3, Kw("prefix"): 1, Kw("len"): 6})
    (st0, text0), = run_batch("fast", drv, [canary], chunk=1, timeout=20)
    if st0 != "OK" or canonparse.parse(text0)[1] is not None:
        chk.violation("ring:%s" % ("fifo-order" if st0 == "OK" else st0.lower()),
                      "ring workout canary %s: %s %s" % (canary, st0, text0[:300]),
                      "# (def c (ev/chan 3)) then give/take sequences from one fiber: see props/C06/driver_ring.janet\n")
        chk.part("ring-workout", skipped_after_canary=1)
        return
    res = run_batch("asan", drv, items, chunk=1, timeout=300)
    total = 0
    for it, (st, text) in zip(items, res):
        if st != "OK":
            chk.violation("ring:%s" % st.lower(), "ring workout %s: %s %s" % (it, st, text[:400]),
                          "# run props/C06/driver_ring.janet with item %s\n" % it)
            continue
        v = canonparse.parse(text)
        n, bad = v[0], v[1]
        total += n
        if bad is not None:
            chk.violation("ring:fifo-order", "ring workout %s: sequence %r gave %r" % (it, bad[0], bad[1]),
                          "# (def c (ev/chan %s)) then ops %r\n" % (it, bad[0]))
    # the same workout with heap values that only the channel holds and a collection after every operation
    hlen = min(maxlen, 9)
    hitems = [jdn({Kw("cap"): cap, Kw("prefix"): prefix, Kw("len"): hlen, Kw("heap"): True}) for cap in (1, 2, 3, 4) for prefix in range(0, 5)]
    htotal = 0
    for it, (st, text) in zip(hitems, run_batch("asan", drv, hitems, chunk=1, timeout=300, max_deaths=4)):
        if st == "SKIPPED":
            chk.cap("ring workout with heap values: items not run after 4 dead workers")
            continue
        if st != "OK":
            chk.violation("ring-gc:%s" % st.lower(), "ring workout with heap values and collections %s: %s %s" % (it, st, text[-600:]),
                          "# run props/C06/driver_ring.janet with item %s\n" % it)
            continue
        v = canonparse.parse(text)
        htotal += v[0]
        if v[1] is not None:
            chk.violation("ring-gc:value-changed", "ring workout with heap values %s: sequence %r gave %r (a queued value did not "
                          "survive a collection)" % (it, v[1][0], v[1][1]), "# item %s of props/C06/driver_ring.janet\n" % it)
    # direct hand-offs to waiting takers with a collection before the takers run
    (st, text), = run_batch("asan", drv, [jdn({Kw("handoff"): 60})], chunk=1, timeout=300)
    if st != "OK":
        chk.violation("ring-gc:handoff:%s" % st.lower(), "values handed to waiting takers, collection before they run: %s %s" % (st, text[-600:]),
                      "# item {:handoff 60} of props/C06/driver_ring.janet\n")
    else:
        v = canonparse.parse(text)
        htotal += v[0]
        if v[1] is not None:
            chk.violation("ring-gc:handoff:value-changed", "round %r: takers received %r, given %r (a value handed to a waiting taker "
                          "did not survive a collection)" % (v[1][0], v[1][2], v[1][3]), "# item {:handoff 60} of props/C06/driver_ring.janet\n")
    chk.add(evaluations=total + htotal, transitions=total + htotal)
    chk.part("ring-workout", sequences=total, maxlen=maxlen, heap_sequences=htotal, heap_maxlen=hlen)


def main():
    chk = Check("C06")
    chk.rule("BFS over director histories: each action starts give/take/select(1-2 clauses, both orders)/rselect/close "
             "with a fresh unique value on the lowest idle worker of 2-3 worker fibers over 1-2 channels with "
             "capacities 0..2; after each action the event loop runs to quiescence and worker states, completions, "
             "results and ev/count/full/capacity are compared with the abstract FIFO channel model. States are "
             "de-duplicated on the canonical model state (items, live/stale waiter entries, blocked operations). "
             "A case is non-trivial when at least one operation completed in the step (distinct completion/count "
             "observations are counted).")
    chk.assume("single-threaded channels only; clauses of one select use distinct channels; abandoned select "
               "give-clauses leave their item queued (convention, DESIGN.md C06); service order among waiters is FIFO")
    if chk.quick:
        configs = [((0,), 3, 10), ((1,), 3, 10), ((2,), 3, 9), ((0,), 4, 8), ((1,), 4, 8),
                   ((0, 1), 3, 5), ((0, 0), 3, 5), ((1, 1), 3, 5), ((0, 2), 3, 5), ((1, 2), 3, 5), ((2, 2), 3, 5)]
        ring_len = 12
    else:
        configs = [((0,), 3, 12), ((1,), 3, 12), ((2,), 3, 12), ((0,), 4, 10), ((1,), 4, 10), ((2,), 4, 10),
                   ((0, 1), 3, 7), ((0, 0), 3, 7), ((1, 1), 3, 7), ((0, 2), 3, 7), ((1, 2), 3, 7), ((2, 2), 3, 7),
                   ((0, 1), 4, 6), ((0, 0), 4, 6), ((0, 1, 2), 3, 5), ((0, 0, 1), 4, 5)]
        ring_len = 16
    only = chk.args.only
    completed = []
    for i, (caps, nw, depth) in enumerate(configs):
        if only and only != "bfs":
            break
        if chk.out_of_time(0.85):
            chk.cap("config caps=%s workers=%d depth=%d not started (time budget)" % (list(caps), nw, depth))
            continue
        slice_end = chk.elapsed() + (chk.budget * 0.85 - chk.elapsed()) / (len(configs) - i)
        r = explore_config(chk, caps, nw, depth, stop_at=slice_end)
        completed.append("caps=%s/w=%d:depth %d" % (list(caps), nw, r["depth_completed"]))
        if chk.cov["samples"] == [] or len(chk.cov["samples"]) < 3:
            chk.sample({"config": "caps=%s workers=%d" % (list(caps), nw),
                        "example_history": "[(0, ('take', 0)), (1, ('give', 0, 110)), (1, ('select', (('g',0,120),)))]"})
    if not only or only == "ring":
        ring_workout(chk, ring_len)
    chk.cov["bound_completed"] = "; ".join(completed)
    chk.finish()


if __name__ == "__main__":
    harness_guard(main)
