# C06 driver: replay one director history on fresh channels and workers and
# return the observation after every action.
(use prelude)
(import director :as d)

(defn- norm [x chans]
  (cond
    (abstract? x) (do (var r [:abstract (type x)])
                      (eachp [i c] chans (when (= c x) (set r (keyword "c" i))))
                      r)
    (tuple? x) (tuple ;(map |(norm $ chans) x))
    (array? x) (tuple ;(map |(norm $ chans) x))
    x))

(defn- clause [cl chans]
  (match cl
    [:g ci v] [(chans ci) v]
    [:t ci] (chans ci)
    (errorf "bad clause %p" cl)))

(defn- make-thunk [op chans]
  (match op
    [:give ci v] (fn [] (ev/give (chans ci) v))
    [:take ci] (fn [] (ev/take (chans ci)))
    [:select cls] (fn [] (ev/select ;(map |(clause $ chans) cls)))
    [:rselect cls] (fn [] (ev/rselect ;(map |(clause $ chans) cls)))
    [:close ci] (fn [] (ev/chan-close (chans ci)))
    [:seq ops] (let [ts (map |(make-thunk $ chans) ops)] (fn [] (tuple ;(map |($) ts))))
    (errorf "bad op %p" op)))

(defn run-history [item]
  (def chans (map |(ev/chan $) (item :caps)))
  (def world (d/new-world (item :nw)))
  (d/quiesce world)
  (def out @[])
  (var opid 0)
  (each [w op] (item :hist)
    (d/start world w opid (make-thunk op chans))
    (++ opid)
    (d/quiesce world)
    (def o (d/observe world))
    (array/push out
                [(o :workers)
                 (norm (o :done) chans)
                 (norm (o :spurious) chans)
                 (tuple ;(map |[(ev/count $) (ev/full $) (ev/capacity $)] chans))]))
  (canon (tuple ;out)))

(batch-run run-history)
