"""C07 reference model: the C06 channel model plus virtual time, sleeps,
deadlines (ev/with-deadline), cancellation and pipes with per-call timeouts.

A fiber's *current wait* is wait[w] = (wid, desc). Everything registered under
an older wid (channel entries, timers, stream listeners) is stale and must be
inert: it may change the state of its channel/stream per the channel rules but
never resumes the fiber and never changes what the fiber receives next.
Times are in milliseconds of virtual time.
"""
import os
import sys

HERE = os.path.dirname(os.path.abspath(__file__))
sys.path.insert(0, os.path.join(HERE, "..", "C06"))
sys.path.insert(0, os.path.join(HERE, "..", "..", "engine", "mc"))
from chanmodel import Model as ChanModel, cname  # noqa: E402
from core import Kw  # noqa: E402


def err(payload):
    return ("error", payload)


ERRV = ("error",)


class Pipe:
    __slots__ = ("data", "wclosed", "reader", "rclosed")

    def __init__(self):
        self.data = b""        # bytes in the kernel buffer
        self.wclosed = False
        self.reader = None     # (w, wid, kind, n, got) the one pending read
        self.rclosed = False   # read end closed by the director (cancel-and-close): the pipe leaves the alphabet


class TModel(ChanModel):
    def __init__(self, caps, nworkers, npipes=0, nprocs=0):
        ChanModel.__init__(self, caps, nworkers)
        self.procs = [{"exited": False, "waited": False, "waiter": None} for _ in range(nprocs)]
        self.now = 0
        self.timers = []   # [when, w, wid, kind]  kind: sleep | deadline | timeout
        self.pipes = [Pipe() for _ in range(npipes)]
        self.depth = 0
        self.cont = {}     # w -> operation that starts when w's current wait ends (composite operations)

    # completions carry the virtual time at which they happen
    def _finish(self, ent, result, comps):
        w = ent[0]
        del self.wait[w]
        nxt = self.cont.pop(w, None)
        if nxt is not None:
            # first wait of a composite operation: its value or error (time-out, cancellation) is swallowed by the
            # operation's own `try`, then the second wait begins in the same fiber turn
            comps.extend(self._op(w, nxt, None))
        else:
            comps.append((w, result))

    def live_wid(self, w, wid):
        return w in self.wait and self.wait[w][0] == wid

    # ------------------------------------------------------------ worker ops
    def step_op(self, w, op):
        """returns (completions, model). Deterministic for this alphabet."""
        m = self.clone()
        m.depth = self.depth + 1
        comps = m._op(w, op, None)
        return comps, m

    def _op(self, w, op, deadline):
        """start op on worker w; if `deadline` (seconds) is given the op runs under ev/with-deadline"""
        k = op[0]
        if k == "dl":
            return self._op(w, op[2], op[1])
        if k == "cca":
            # waits attempted from inside a callback invoked by C are refused (coerced to an error) and leave nothing that
            # could fire later; an inert timer keeps the history distinct and makes time pass the would-be expiry
            self.timers.append([self.now + int(op[1] * 1000), w, -1, "deadline"])
            return self._op(w, op[2], deadline)
        if k == "badnr":
            # the rejected net/ calls leave nothing behind: same as the inner operation alone
            return self._op(w, op[2], deadline)
        if k == "badw":
            # the rejected write leaves nothing behind: same as the inner operation alone
            return self._op(w, op[3], deadline)
        if k == "dlc":
            # (ev/deadline s) set inside a nested fiber that has already ended watches that fiber (tocheck defaults to
            # the current fiber): it can never fire, so this is the inner operation alone. The inert timer is kept in
            # the model state so that histories through it stay distinct and time is advanced past it.
            self.timers.append([self.now + int(op[1] * 1000), w, -1, "deadline"])
            return self._op(w, op[2], deadline)
        if k == "tcd":
            # (try (ev/with-deadline 0.5 (ev/thread ...)) ([e] nil)): the thread blocks until the waiter has given up, so
            # the call can only end through its deadline (or a cancellation); afterwards the thread is released and
            # finishes on its own - its completion must not reach the inner wait that follows
            self.cont[w] = op[1]
            wid = self.nextwid
            self.nextwid += 1
            self.wait[w] = (wid, ("threadcall",))
            self.timers.append([self.now + 500, w, wid, "deadline"])
            return []
        if k == "trw":
            # (try (ev/read pipe 4 nil tmo) ([e] nil)) followed by the inner operation: two waits of one fiber, the
            # first one inside a nested fiber. Whatever the first wait registered must be inert during the second.
            self.cont[w] = op[3]
            comps = self._read(w, "read", op[1], 4, op[2])
            if w in self.cont and w not in self.wait:
                # the read completed at once
                comps = [c for c in comps if c[0] != w] + self._op(w, self.cont.pop(w), None)
            return comps
        comps = []
        before = self.nextwid
        if k == "sleep":
            wid = self.nextwid
            self.nextwid += 1
            self.wait[w] = (wid, ("sleep",))
            self.timers.append([self.now + int(op[1] * 1000), w, wid, "sleep"])
        elif k == "give":
            comps, _ = self._give(w, op[1], op[2])
        elif k == "take":
            comps, _ = self._take(w, op[1])
        elif k == "close":
            comps, _ = self._close(w, op[1])
        elif k == "select":
            comps, _ = self._select(w, list(op[1]))
        elif k in ("read", "chunk"):
            comps = self._read(w, k, op[1], op[2], op[3])
        elif k == "write":
            comps = self._write(w, op[1], op[2])
        elif k == "wclose":
            comps = self._wclose(w, op[1])
        elif k == "pwait":
            pr = self.procs[op[1]]
            pr["waited"] = True
            if pr["exited"]:
                comps = [(w, ERRV)]          # exit code 3 under :x raises
            else:
                wid = self.nextwid
                self.nextwid += 1
                self.wait[w] = (wid, ("pwait", op[1]))
                pr["waiter"] = (w, wid)
        elif k == "write-bad":
            comps = [(w, ERRV)]              # invalid data: raises at once, arms nothing
        else:
            raise ValueError(op)
        if deadline is not None:
            # the deadline timer exists whether or not the body blocked
            wid = self.wait[w][0] if w in self.wait else -1
            self.timers.append([self.now + int(deadline * 1000), w, wid, "deadline"])
        return comps

    # ------------------------------------------------------------ pipes
    def _deliver(self, p, comps):
        """give available data / EOF to the pending reader of pipe p, if it is live"""
        pp = self.pipes[p]
        r = pp.reader
        if r is None:
            return
        w, wid, kind, n, got = r
        if not self.live_wid(w, wid):
            pp.reader = None   # stale listener: inert
            return
        if kind == "read":
            if pp.data:
                out = pp.data[:n]
                pp.data = pp.data[n:]
                pp.reader = None
                self._finish((w, wid, None), out.decode("latin-1"), comps)
            elif pp.wclosed:
                pp.reader = None
                self._finish((w, wid, None), None, comps)
        else:
            take = pp.data[:n - len(got)]
            pp.data = pp.data[len(take):]
            got = got + take
            if len(got) == n or pp.wclosed:
                pp.reader = None
                self._finish((w, wid, None), got.decode("latin-1") if got else None, comps)
            else:
                pp.reader = (w, wid, kind, n, got)

    def _read(self, w, kind, p, n, tmo):
        comps = []
        pp = self.pipes[p]
        wid = self.nextwid
        self.nextwid += 1
        self.wait[w] = (wid, (kind, p))
        pp.reader = (w, wid, kind, n, b"")
        self._deliver(p, comps)
        if w in self.wait and self.wait[w][0] == wid and tmo is not None:
            self.timers.append([self.now + int(tmo * 1000), w, wid, "timeout"])
        return comps

    def _write(self, w, p, data):
        comps = [(w, Kw("written"))]
        pp = self.pipes[p]
        pp.data += data.encode("latin-1")
        self._deliver(p, comps)
        return comps

    def _wclose(self, w, p):
        comps = [(w, Kw("closed"))]
        pp = self.pipes[p]
        pp.wclosed = True
        self._deliver(p, comps)
        return comps

    # ------------------------------------------------------------ director actions
    def cancel(self, w, tag):
        m = self.clone()
        m.depth = self.depth + 1
        assert w in m.wait
        comps = []
        m._finish((w, m.wait[w][0], None), err(str(tag)), comps)
        return comps, m

    def cancel_close(self, w, tag):
        """the director cancels w, blocked in a read of pipe p, and closes p's read end in the same turn: the close acts on a
        wait that is already abandoned, so w receives the cancellation - never the end-of-stream the close would give a
        live reader"""
        p = self.wait[w][1][1]
        comps, m = self.cancel(w, tag)
        m.pipes[p].rclosed = True
        m.pipes[p].reader = None
        return comps, m

    def pexit(self, k):
        """the child exits (code 3): only a still-live waiter of that process is resumed (with an error, :x)"""
        m = self.clone()
        m.depth = self.depth + 1
        pr = m.procs[k]
        pr["exited"] = True
        comps = []
        wt = pr["waiter"]
        pr["waiter"] = None
        if wt is not None and m.live_wid(wt[0], wt[1]):
            m._finish((wt[0], wt[1], None), ERRV, comps)
        return comps, m

    def next_timer(self):
        ts = [t[0] for t in self.timers if t[0] > self.now]
        return min(ts) if ts else None

    def tick(self, seconds):
        m = self.clone()
        m.depth = self.depth + 1
        m.now += int(seconds * 1000)
        comps = []
        due = sorted([t for t in m.timers if t[0] <= m.now], key=lambda t: t[0])
        m.timers = [t for t in m.timers if t[0] > m.now]
        for when, w, wid, kind in due:
            if not m.live_wid(w, wid):
                continue      # stale timer: inert
            if kind == "sleep":
                m._finish((w, wid, None), None, comps)
            elif kind == "deadline":
                m._finish((w, wid, None), err("deadline expired"), comps)
            elif kind == "timeout":
                m._finish((w, wid, None), err("timeout"), comps)
        return comps, m

    # ------------------------------------------------------------ observation / key
    def count_obs(self):
        return tuple(len(ch.items) for ch in self.ch)

    def key(self):
        base = ChanModel.key(self)
        timers = tuple(sorted((t[0] - self.now, t[1], t[3], self.live_wid(t[1], t[2])) for t in self.timers))
        pipes = tuple((pp.data, pp.wclosed, pp.rclosed,
                       None if pp.reader is None else (pp.reader[0], pp.reader[2], pp.reader[3], pp.reader[4],
                                                       self.live_wid(pp.reader[0], pp.reader[1])))
                      for pp in self.pipes)
        procs = tuple((pr["exited"], pr["waited"], None if pr["waiter"] is None else (pr["waiter"][0], self.live_wid(*pr["waiter"])))
                      for pr in self.procs)
        return (base, timers, pipes, procs, tuple(sorted((w, repr(o)) for w, o in self.cont.items())))
