# C07 driver: replay one director history (operations on workers, cancels,
# virtual-time ticks, pipe events) and return the observation after every action.
(use prelude)
(import director :as d)

(defn- norm [x chans]
  (cond
    (abstract? x) (do (var r [:abstract (type x)])
                      (eachp [i c] chans (when (= c x) (set r (keyword "c" i))))
                      r)
    (tuple? x) (tuple ;(map |(norm $ chans) x))
    (array? x) (tuple ;(map |(norm $ chans) x))
    (buffer? x) (string x)
    x))

(defn- clause [cl chans]
  (match cl
    [:g ci v] [(chans ci) v]
    [:t ci] (chans ci)
    (errorf "bad clause %p" cl)))

(var pipes nil)
(var procs nil)

(defn- wait-child-gone
  "real-time wait until the child is no longer running and janet's wait thread (if any) has posted"
  [p]
  (def pid (p :pid))
  (var n 0)
  (while (and (< n 2000) (or (verif/pid-running pid) (> (verif/live-threads) 0)))
    (verif/real-sleep 1) (++ n)))

# one connected unix socket per driver process, made on first use (net/ functions need a socket stream)
(var the-sock nil)
(defn- sock []
  (unless the-sock
    (def path (string "/tmp/c07-sock-" (os/getpid)))
    (def srv (net/listen :unix path))
    (def cli (net/connect :unix path))
    (def conn (net/accept srv))
    (os/rm path)
    (set the-sock [cli conn srv]))
  (the-sock 0))

(defn- make-thunk [op chans]
  (match op
    [:sleep s] (fn [] (ev/sleep s))
    [:give ci v] (fn [] (ev/give (chans ci) v))
    [:take ci] (fn [] (ev/take (chans ci)))
    [:select cls] (fn [] (ev/select ;(map |(clause $ chans) cls)))
    [:close ci] (fn [] (ev/chan-close (chans ci)))
    [:dl s inner] (let [t (make-thunk inner chans)] (fn [] (ev/with-deadline s (t))))
    [:read pi n tmo] (fn [] (ev/read ((pipes pi) 0) n nil tmo))
    [:chunk pi n tmo] (fn [] (ev/chunk ((pipes pi) 0) n nil tmo))
    [:write pi data tmo] (fn [] (ev/write ((pipes pi) 1) data tmo) :written)
    [:wclose pi] (fn [] (ev/close ((pipes pi) 1)) :closed)
    [:pwait k] (fn [] (os/proc-wait (procs k)))
    [:write-bad pi tmo] (fn [] (ev/write ((pipes pi) 1) 12345 tmo))
    # a call that raises synchronously (invalid data) followed, in the same fiber turn, by a real wait
    [:badw pi tmo inner] (let [t (make-thunk inner chans)]
                           (fn [] (protect (ev/write ((pipes pi) 1) 12345 tmo)) (t)))
    # a wait started by a nested fiber inside a callback from C (it is turned into an error there), then a real wait
    [:cca s inner] (let [t (make-thunk inner chans)]
                     (fn []
                       (protect (string/replace "a" (fn [x] (resume (fiber/new (fn [] (ev/sleep s)))) "b") "a"))
                       (protect (peg/match ~(cmt 1 ,(fn [& xs] (resume (fiber/new (fn [] (ev/take (ev/chan))))) true)) "a"))
                       (t)))
    # net/read rejected for an invalid byte count (with a timeout), then a real wait in the same fiber turn
    [:badnr tmo inner] (let [t (make-thunk inner chans)]
                         (fn [] (protect (net/read (sock) -1 nil tmo)) (protect (net/chunk (sock) 1.5 nil tmo))
                           (protect (net/write (sock) 12345 tmo)) (t)))
    # a read that ends (data, time-out or cancellation) inside a nested fiber, then a second wait of the same task
    [:trw pi tmo inner] (let [t (make-thunk inner chans)]
                          (fn [] (try (ev/read ((pipes pi) 0) 4 nil tmo) ([e] nil)) (t)))
    # a thread call abandoned at its deadline; the thread is released afterwards and finishes; then a real wait
    [:tcd inner] (let [t (make-thunk inner chans)]
                   (fn []
                     (def tc (ev/thread-chan 1))
                     (try (ev/with-deadline 0.5 (ev/thread (fn [tc] (ev/take tc)) tc)) ([e] nil))
                     (ev/give tc 1)
                     (t)))
    # a bare ev/deadline set inside a nested fiber that ends at once, followed by a real wait of the task
    [:dlc s inner] (let [t (make-thunk inner chans)]
                     (fn [] (resume (coro (ev/deadline s) :done)) (t)))
    (errorf "bad op %p" op)))

(defn run-history [item]
  (def chans (map |(if (item :tchan) (ev/thread-chan $) (ev/chan $)) (item :caps)))
  (set pipes (seq [_ :range [0 (get item :npipes 0)]] (os/pipe)))
  # children that exit with code 3 when the director writes a line to their stdin (:x = non-zero exit raises)
  (set procs (seq [_ :range [0 (get item :nprocs 0)]]
               (os/spawn ["/bin/sh" "-c" "read x; exit 3"] :px {:in :pipe})))
  # posix_spawn returns a moment before the children have dropped their close-on-exec copies of the pipes above
  (each p procs (verif/wait-exec (p :pid)))
  (def world (d/new-world (item :nw)))
  (d/quiesce world)
  (def t0 (verif/now))
  (def out @[])
  (var opid 0)
  (each act (item :hist)
    (match act
      [:start w op] (d/start world w opid (make-thunk op chans))
      [:cancel w tag] (ev/cancel ((world :workers) w) tag)
      # the reader is cancelled and the stream it was blocked on is closed in the same turn
      [:cancelx w tag pi] (do (ev/cancel ((world :workers) w) tag) (ev/close ((pipes pi) 0)))
      [:tick s] (ev/sleep s)
      [:pexit k] (do (ev/write ((procs k) :in) "\n") (wait-child-gone (procs k)))
      (errorf "bad action %p" act))
    (++ opid)
    (d/quiesce world)
    (def o (d/observe world))
    (array/push out
                [(o :workers)
                 (norm (map (fn [[w id r t]] [w id r (- t t0)]) (o :done)) chans)
                 (norm (o :spurious) chans)
                 (tuple ;(map |(ev/count $) chans))
                 (- (verif/now) t0)]))
  (each p pipes (each s p (protect (ev/close s))))
  (each p procs (protect (ev/close (p :in))) (protect (os/proc-kill p)))
  (canon (tuple ;out)))

(batch-run run-history)
