#!/usr/bin/env python3
"""C07 - a suspended fiber is resumed only by what it is currently waiting for.

Explicit-state BFS over director histories under *virtual time* (K3): worker
fibers start sleeps, channel operations, selects, pipe reads (each optionally
under ev/with-deadline or with a per-call timeout); the director cancels
blocked workers, advances virtual time to the next timer (live or stale) and
lets helpers fire the abandoned sources. After every action the loop runs to
quiescence and every completion (worker, result or error payload, virtual
time) must be exactly what the model of *current waits* allows. Parked workers
must never be resumed by anything but the director (spurious wakeups).
"""
import itertools
import os
import sys

HERE = os.path.dirname(os.path.abspath(__file__))
sys.path.insert(0, os.path.join(HERE, "..", "..", "engine", "mc"))
from core import *  # noqa
HERE = os.path.dirname(os.path.abspath(__file__))
sys.path.insert(0, HERE)
from explore import bfs_histories, Mismatch  # noqa
import canonparse  # noqa
from tmodel import TModel, err  # noqa

DRIVER = os.path.join(HERE, "driver.janet")


def op_jdn(op):
    k = op[0]
    if k == "sleep":
        return [Kw("sleep"), op[1]]
    if k == "give":
        return [Kw("give"), op[1], op[2]]
    if k == "take":
        return [Kw("take"), op[1]]
    if k == "close":
        return [Kw("close"), op[1]]
    if k == "select":
        return [Kw("select"), [[Kw("g"), c[1], c[2]] if c[0] == "g" else [Kw("t"), c[1]] for c in op[1]]]
    if k == "dl":
        return [Kw("dl"), op[1], op_jdn(op[2])]
    if k in ("read", "chunk"):
        return [Kw(k), op[1], op[2], op[3]]
    if k == "write":
        return [Kw("write"), op[1], op[2], None]
    if k == "wclose":
        return [Kw("wclose"), op[1]]
    if k == "pwait":
        return [Kw("pwait"), op[1]]
    if k == "write-bad":
        return [Kw("write-bad"), op[1], op[2]]
    if k == "badw":
        return [Kw("badw"), op[1], op[2], op_jdn(op[3])]
    if k == "dlc":
        return [Kw("dlc"), op[1], op_jdn(op[2])]
    if k == "trw":
        return [Kw("trw"), op[1], op[2], op_jdn(op[3])]
    if k == "tcd":
        return [Kw("tcd"), op_jdn(op[1])]
    if k == "badnr":
        return [Kw("badnr"), op[1], op_jdn(op[2])]
    if k == "cca":
        return [Kw("cca"), op[1], op_jdn(op[2])]
    raise ValueError(op)


def act_jdn(a):
    if a[0] == "start":
        return [Kw("start"), a[1], op_jdn(a[2])]
    if a[0] == "cancel":
        return [Kw("cancel"), a[1], Kw(a[2])]
    if a[0] == "cancelx":
        return [Kw("cancelx"), a[1], Kw(a[2]), a[3]]
    if a[0] == "tick":
        return [Kw("tick"), a[1]]
    if a[0] == "pexit":
        return [Kw("pexit"), a[1]]
    raise ValueError(a)


def item_for(cfg, hist):
    return jdn({Kw("caps"): list(cfg["caps"]), Kw("nw"): cfg["nw"], Kw("npipes"): cfg.get("npipes", 0), Kw("nprocs"): cfg.get("nprocs", 0),
                Kw("tchan"): bool(cfg.get("tchan")), Kw("hist"): [act_jdn(a) for a in hist]})


def decode_trace(text):
    v = canonparse.parse(text)
    out = []
    for workers, done, spurious, counts, now in v:
        comps = []
        for w, opid, r, t in done:
            if r[0] == "ok":
                comps.append((w, r[1], t))
            elif isinstance(r[1], str) and (r[1] in ("deadline expired", "timeout") or r[1].startswith("cancel")):
                comps.append((w, ("error", r[1]), t))
            else:
                comps.append((w, ("error",), t))   # other error texts are not compared
        out.append((tuple(workers), tuple(sorted(comps, key=repr)), tuple(map(repr, spurious)), tuple(counts), now))
    return out


def make_actions(cfg):
    nchan = len(cfg["caps"])
    npipes = cfg.get("npipes", 0)

    def actions(m):
        acts = []
        idle = m.idle()
        d = m.depth
        base = 100 + 10 * d
        if idle:
            w = idle[0]
            # ("sleep", 2) coincides with the dl-2 deadline of ANOTHER worker started at the same instant
            # (never with a deadline of the same fiber: that order is unspecified)
            ops = [("sleep", 1), ("sleep", 2), ("sleep", 3), ("dl", 2, ("sleep", 3)), ("dl", 2, ("sleep", 1))]
            if cfg.get("extras"):
                # operations that arm or register something and give it up at once, followed by a real wait. They are part
                # of the configurations marked extras=True only, so that the others keep their depth in the quick tier.
                # a bare (ev/deadline 1) set inside a nested fiber that has ended: it must not reach the task's next wait
                ops.append(("dlc", 1, ("sleep", 3)))
                if nchan:
                    ops.append(("dlc", 1, ("take", 0)))
                ops.append(("cca", 0.5, ("sleep", 3)))
                if nchan:
                    ops.append(("cca", 0.5, ("take", 0)))
                # socket calls rejected for bad arguments while carrying a timeout, then a real wait
                ops.append(("badnr", 0.5, ("sleep", 3)))
                if nchan:
                    ops.append(("badnr", 0.5, ("take", 0)))
            if cfg.get("focus") == "thread":
                # a thread call abandoned at its deadline, the thread finishing afterwards, then a real wait (every
                # such history costs real-time patience for the live thread, hence a configuration of its own)
                ops.append(("tcd", ("sleep", 3)))
                if nchan:
                    ops.append(("tcd", ("take", 0)))
            for c in range(nchan):
                ops += [("give", c, base), ("take", c), ("close", c),
                        ("dl", 2, ("give", c, base)), ("dl", 2, ("take", c))]
            if nchan >= 2:
                for c0, c1 in itertools.permutations(range(nchan), 2):
                    ops.append(("select", (("t", c0), ("t", c1))))
                    ops.append(("select", (("g", c0, base), ("t", c1))))
                    ops.append(("select", (("t", c0), ("g", c1, base + 1))))
                    if c0 < c1:
                        ops.append(("dl", 2, ("select", (("t", c0), ("t", c1)))))
                        ops.append(("dl", 2, ("select", (("g", c0, base), ("t", c1)))))
            elif nchan == 1:
                ops.append(("select", (("t", 0),)))
                ops.append(("select", (("g", 0, base),)))
            for k, pr in enumerate(m.procs):
                if not pr["waited"]:
                    ops += [("pwait", k), ("dl", 2, ("pwait", k))]
            for p in range(npipes):
                if m.pipes[p].rclosed:
                    continue
                ops += [("write-bad", p, 0.5), ("write-bad", p, 2.5), ("badw", p, 0.5, ("sleep", 3)),
                        ("badw", p, 0.5, ("read", p, 4, None))]
                if nchan:
                    ops.append(("badw", p, 0.5, ("take", 0)))
                # a read that times out inside a nested fiber, then a second wait of the same task
                ops += [("trw", p, 1, ("sleep", 3))]
                if nchan:
                    ops.append(("trw", p, 1, ("take", 0)))
                ops += [("read", p, 4, None), ("read", p, 4, 2), ("chunk", p, 4, None), ("chunk", p, 4, 2),
                        ("dl", 2, ("read", p, 4, None)), ("write", p, "ab"), ("write", p, "cdefg")]
                if not m.pipes[p].wclosed:
                    ops.append(("wclose", p))
                else:
                    ops = [o for o in ops if not (o[0] == "write" and o[1] == p)]
            # one read at a time per pipe (two readers on one stream is C16's subject)
            busy = {pp.reader[0] for pp in m.pipes if pp.reader is not None and m.live_wid(pp.reader[0], pp.reader[1])}
            busy_p = {i for i, pp in enumerate(m.pipes) if pp.reader is not None and m.live_wid(pp.reader[0], pp.reader[1])}

            def reads(o):
                if o[0] == "trw":
                    return o[1]
                if o[0] in ("tcd", "badnr", "cca"):
                    return None
                o2 = o[2] if o[0] in ("dl", "dlc") else (o[3] if o[0] == "badw" else o)
                return o2[1] if o2[0] in ("read", "chunk") else None
            ops = [o for o in ops if reads(o) is None or reads(o) not in busy_p]
            if cfg.get("focus") == "thread":
                def keep_t(o):
                    return o[0] == "tcd" or o in (("sleep", 1), ("sleep", 3), ("take", 0), ("give", 0, base), ("dl", 2, ("take", 0)))
                ops = [o for o in ops if keep_t(o)]
            if cfg.get("focus") == "proc":
                # small alphabet around subprocess waits so that depth 4-6 is affordable
                def keep(o):
                    o2 = o[2] if o[0] == "dl" else o
                    return o2[0] == "pwait" or o == ("sleep", 3) or o[0] == "take" or o2[0] in ("write-bad", "badw")
                ops = [o for o in ops if keep(o)]
            acts += [("start", w, o) for o in ops]
        for w in m.blocked():
            acts.append(("cancel", w, "cancel%d" % d))
            if m.wait[w][1][0] in ("read", "chunk") and not cfg.get("focus"):
                # shutdown idiom: cancel the reader and close its stream in the same turn
                acts.append(("cancelx", w, "cancel%d" % d, m.wait[w][1][1]))
        nt = m.next_timer()
        if nt is not None:
            acts.append(("tick", (nt - m.now) / 1000.0))
        elif cfg.get("free_tick"):
            # no timer known to the model: let 3 virtual seconds pass anyway (a stale timer armed by a
            # faulty implementation would fire in this window)
            acts.append(("tick", 3.0))
        for k, pr in enumerate(m.procs):
            if not pr["exited"]:
                acts.append(("pexit", k))
        return acts
    return actions


def shape(a):
    def osh(op):
        if op[0] == "dl":
            return "dl(" + osh(op[2]) + ")"
        if op[0] == "select":
            return "select[" + ",".join(c[0] for c in op[1]) + "]"
        if op[0] in ("read", "chunk"):
            return op[0] + ("+timeout" if op[3] is not None else "")
        if op[0] == "badw":
            return "badw(" + osh(op[3]) + ")"
        if op[0] == "dlc":
            return "dlc(" + osh(op[2]) + ")"
        if op[0] == "trw":
            return "trw(" + osh(op[3]) + ")"
        if op[0] == "tcd":
            return "tcd(" + osh(op[1]) + ")"
        if op[0] == "badnr":
            return "badnr(" + osh(op[2]) + ")"
        if op[0] == "cca":
            return "cca(" + osh(op[2]) + ")"
        return op[0]
    return a[0] + (":" + osh(a[2]) if a[0] == "start" else "")


def waits_desc(m):
    return ",".join("w%d:%s" % (w, m.wait[w][1][0]) for w in sorted(m.wait)) or "none"


def judge(m, a, obs):
    workers, comps, spurious, counts, now = obs
    if a[0] == "start":
        pc, m2 = m.step_op(a[1], a[2])
    elif a[0] == "cancel":
        pc, m2 = m.cancel(a[1], a[2])
    elif a[0] == "cancelx":
        pc, m2 = m.cancel_close(a[1], a[2])
    elif a[0] == "pexit":
        pc, m2 = m.pexit(a[1])
    else:
        pc, m2 = m.tick(a[1])
    exp = tuple(sorted(((w, r, m2.now) for w, r in pc), key=repr))
    pw = m2.worker_obs()
    ok = (exp == comps and pw == workers and m2.count_obs() == counts and m2.now == now and not spurious)
    if ok:
        return m2
    if spurious:
        kind = "parked-fiber-resumed"
    elif m2.now != now:
        kind = "virtual-time"
    elif workers != pw or {c[0] for c in comps} != {c[0] for c in exp}:
        extra = {c[0] for c in comps} - {c[0] for c in exp}
        kind = "resumed-by-foreign-event" if extra else "not-resumed"
    elif comps != exp:
        kind = "wrong-value-or-time"
    else:
        kind = "channel-count"
    # stale registrations present before the action
    stale = []
    for i, ch in enumerate(m.ch):
        if any(it[1] is not None and not m.live(it[1]) for it in ch.items):
            stale.append("stale-writer")
        if any(not m.live(e) for e in ch.readers):
            stale.append("stale-reader")
    if any(not m.live_wid(t[1], t[2]) for t in m.timers):
        stale.append("stale-timer")
    sig = "%s:%s:waits[%s]:%s" % (kind, shape(a), ",".join(sorted({m.wait[w][1][0] for w in m.wait})) or "none",
                                  "+".join(sorted(set(stale))) or "no-stale")
    what = ("action %r with current waits {%s}: model expects completions=%s workers=%s counts=%s now=%s; "
            "implementation shows completions=%s workers=%s counts=%s now=%s spurious=%s" % (
                a, waits_desc(m), exp, list(map(str, pw)), m2.count_obs(), m2.now, comps, list(map(str, workers)),
                counts, now, spurious))
    raise Mismatch(sig, what)


def replay_text(cfg, hist, what):
    lines = ["# Replay with real time (plain janet). Each worker prints when its operation ends.",
             "(def chans (map |(%s $) %s))" % ("ev/thread-chan" if cfg.get("tchan") else "ev/chan", jdn(list(cfg["caps"]))),
             "(def pipes (seq [_ :range [0 %d]] (os/pipe)))" % cfg.get("npipes", 0),
             "(def t0 (os/clock :monotonic))",
             "(def fibers @{})",
             "(defn start [w label thunk]",
             "  (put fibers w (ev/go (fn [] (def r (try (thunk) ([e] [:error e])))",
             "    (printf \"t=%.1f worker %d %s -> %j\" (- (os/clock :monotonic) t0) w label (if (abstract? r) :chan r)))))",
             "  (ev/sleep 0.05))"]

    def oe(op):
        k = op[0]
        if k == "sleep":
            return "(ev/sleep %s)" % op[1]
        if k == "give":
            return "(ev/give (chans %d) %d)" % (op[1], op[2])
        if k == "take":
            return "(ev/take (chans %d))" % op[1]
        if k == "close":
            return "(ev/chan-close (chans %d))" % op[1]
        if k == "select":
            return "(ev/select %s)" % " ".join(
                "[(chans %d) %d]" % (c[1], c[2]) if c[0] == "g" else "(chans %d)" % c[1] for c in op[1])
        if k == "dl":
            return "(ev/with-deadline %s %s)" % (op[1], oe(op[2]))
        if k in ("read", "chunk"):
            return "(ev/%s ((pipes %d) 0) %d nil %s)" % (k, op[1], op[2], "nil" if op[3] is None else op[3])
        if k == "write":
            return "(ev/write ((pipes %d) 1) %s)" % (op[1], jdn(op[2]))
        if k == "wclose":
            return "(ev/close ((pipes %d) 1))" % op[1]
        if k == "write-bad":
            return "(ev/write ((pipes %d) 1) 12345 %s)" % (op[1], op[2])
        if k == "badw":
            return "(do (protect (ev/write ((pipes %d) 1) 12345 %s)) %s)" % (op[1], op[2], oe(op[3]))
        if k == "pwait":
            return "(os/proc-wait (procs %d))" % op[1]
        if k == "dlc":
            return "(do (resume (coro (ev/deadline %s) :done)) %s)" % (op[1], oe(op[2]))
        if k == "cca":
            return ("(do (protect (string/replace \"a\" (fn [x] (resume (fiber/new (fn [] (ev/sleep %s)))) \"b\") \"a\")) "
                    "(protect (peg/match ~(cmt 1 ,(fn [& xs] (resume (fiber/new (fn [] (ev/take (ev/chan))))) true)) \"a\")) %s)"
                    % (op[1], oe(op[2])))
        if k == "badnr":
            return ("(do (protect (net/read sock -1 nil %s)) (protect (net/chunk sock 1.5 nil %s)) (protect (net/write sock 12345 %s)) %s)"
                    "   # sock: any connected socket stream" % (op[1], op[1], op[1], oe(op[2])))
        if k == "tcd":
            return ("(do (def tc (ev/thread-chan 1)) (try (ev/with-deadline 0.5 (ev/thread (fn [tc] (ev/take tc)) tc)) ([e] nil)) "
                    "(ev/give tc 1) %s)" % oe(op[1]))
        if k == "trw":
            return "(do (try (ev/read ((pipes %d) 0) 4 nil %s) ([e] nil)) %s)" % (op[1], op[2], oe(op[3]))
    lines.insert(3, '(def procs (seq [_ :range [0 %d]] (os/spawn ["/bin/sh" "-c" "read x; exit 3"] :px {:in :pipe})))' % cfg.get("nprocs", 0))
    for a in hist:
        if a[0] == "start":
            e = oe(a[2])
            lines.append("(start %d %s (fn [] %s))" % (a[1], jdn(e), e))
        elif a[0] == "cancel":
            lines.append("(ev/cancel (fibers %d) :%s) (ev/sleep 0.05)" % (a[1], a[2]))
        elif a[0] == "cancelx":
            lines.append("(ev/cancel (fibers %d) :%s) (ev/close ((pipes %d) 0)) (ev/sleep 0.05)" % (a[1], a[2], a[3]))
        elif a[0] == "pexit":
            lines.append('(ev/write ((procs %d) :in) "\\n") (ev/sleep 0.2)' % a[1])
        else:
            lines.append("(ev/sleep %s)" % (a[1] + 0.05))
    lines.append("# model: %s" % what.replace("\n", " "))
    lines.append("(os/exit 0)")
    return "\n".join(lines) + "\n"


def explore(chk, cfg, depth, max_states=None, stop_at=None):
    label = "caps=%s pipes=%d procs=%d workers=%d%s%s" % (list(cfg["caps"]), cfg.get("npipes", 0), cfg.get("nprocs", 0), cfg["nw"],
                                                              " thread-channels" if cfg.get("tchan") else "",
                                                              " extras" if cfg.get("extras") else "")
    init = TModel(cfg["caps"], cfg["nw"], cfg.get("npipes", 0), cfg.get("nprocs", 0))

    def run_layer(hists):
        items = [item_for(cfg, h) for h in hists]
        slow = bool(cfg.get("nprocs") or cfg.get("focus"))     # real children / threads: every step costs real time
        res = run_batch("fast", DRIVER, items, env={"VERIF_VTIME": "1"}, chunk=60 if slow else 300,
                        timeout=180 if slow else 60, max_deaths=8)
        # a chunk that ran out of time on a loaded machine is not a hang of the history the clock stopped at: run that
        # history again alone, with a generous limit, before it counts
        for i, (st, text) in enumerate(res):
            if st == "TIMEOUT":
                res[i] = run_batch("fast", DRIVER, [items[i]], env={"VERIF_VTIME": "1"}, chunk=1, timeout=600)[0]
        out = []
        for h, (st, text) in zip(hists, res):
            if st == "SKIPPED":
                chk.cap("%s: histories not run after 8 dead workers" % label)
                out.append([("__failed__",)] * len(h))
                continue
            if st != "OK":
                chk.violation("driver-%s:%s" % (st.lower(), shape(h[-1])),
                              "history %r on %s: %s %s" % (h, label, st, text[:300]), replay_text(cfg, h, st))
                out.append([("__failed__",)] * len(h))
            else:
                out.append(decode_trace(text))
        return out

    def jdg(m, a, obs):
        m2 = judge(m, a, obs)
        if obs[1]:
            chk.outcome((shape(a), tuple((c[0], repr(c[1])[:20]) for c in obs[1])))
        return m2

    def on_violation(hist, e, tr):
        chk.violation(e.sig, "%s history=%r: %s" % (label, hist, e.what), replay_text(cfg, hist, e.what))

    r = bfs_histories(chk, init, make_actions(cfg), run_layer, jdg, depth, label=label, max_states=max_states,
                      on_violation=on_violation, stop_at=stop_at)
    chk.add(states=r["states"], transitions=r["transitions"], evaluations=r["transitions"])
    chk.part(label, states=r["states"], transitions=r["transitions"], depth_completed=r["depth_completed"],
             depth_target=depth)
    return r


# fixed scripts on thread channels used from one thread: the waits involved are outside the director's model
SCRIPTS = {
    "tchan-abandoned-select-then-give": ("""
(def tc (ev/thread-chan 0)) (def other (ev/chan)) (def park (ev/chan)) (def log @[])
(ev/spawn (array/push log [:select (ev/select tc other)]) (array/push log [:park (ev/take park)]))
(ev/sleep 0.01)
(ev/give other :via-other)          # the waiter is satisfied through the other clause; its entry on tc is stale
(ev/sleep 0.01)
(ev/give tc :msg)
(var writer-done false)
(ev/spawn (ev/give tc :second) (set writer-done true))
(ev/sleep 0.05)
(def n (ev/count tc)) (def released writer-done)
(def got @[])
(ev/spawn (array/push got (ev/take tc)) (array/push got (ev/take tc)))
(ev/sleep 0.05)
(ev/give park :done)
(ev/sleep 0.01)
(printf "%j" [n released got (map first log) (get-in log [0 1 2]) (get-in log [1 1])])
""", '(2 false @[:msg :second] @[:select :park] :via-other :done)',
        "a message given to a thread channel whose only registered reader has abandoned its wait stays in the channel; "
        "the waiter is not disturbed in its next wait and a later writer stays blocked until somebody takes"),
    "tchan-abandoned-take-then-give": ("""
(def tc (ev/thread-chan 0)) (def park (ev/chan)) (def log @[])
(def f (ev/spawn (array/push log [:first (try (ev/take tc) ([e] e))]) (array/push log [:park (ev/take park)])))
(ev/sleep 0.01)
(ev/cancel f :stop)
(ev/sleep 0.01)
(ev/spawn (ev/give tc :msg))
(ev/sleep 0.05)
(def n (ev/count tc))
(def got @[])
(ev/spawn (array/push got (ev/take tc)))
(ev/sleep 0.05)
(ev/give park :done)
(ev/sleep 0.01)
(printf "%j" [n got log])
""", '(1 @[:msg] @[(:first :stop) (:park :done)])',
        "a message given after the only reader was cancelled stays queued for the next reader"),
}


def part_scripts(chk):
    for name, (src, want, meaning) in sorted(SCRIPTS.items()):
        r = run_script("fast", src, env={"VERIF_VTIME": "1"}, timeout=60)
        chk.add(evaluations=1, transitions=1, states=1)
        got = r.out.decode(errors="replace").strip()
        chk.outcome(("script", name, got[:80]))
        if r.timed_out or r.rc != 0 or got != want:
            chk.violation("script:%s" % name, "%s: observed %r (rc=%s%s), expected %r" % (
                meaning, got[:300], r.rc, " timed out" if r.timed_out else "", want), src, replay_cmd="janet <file>")
    chk.part("scripts", count=len(SCRIPTS))


def main():
    chk = Check("C07")
    chk.rule("BFS over director histories under virtual time: start {sleep 1|3, give, take, close, select (2 clauses), "
             "pipe read/chunk with or without timeout, pipe write/close-writer} optionally under ev/with-deadline 2 on "
             "the lowest idle worker; ev/cancel any blocked worker; advance virtual time to the next armed timer "
             "(live or stale). Every completion (worker, value or error payload, virtual instant) and the set of "
             "suspended workers must equal the model of current waits; a parked fiber resumed by anything but the "
             "director is a spurious wakeup. States de-duplicated on channel/pipe contents, live and stale "
             "registrations and relative timer times. Non-trivial = a step in which at least one operation completed.")
    chk.assume("virtual time: epoll_wait/timerfd/clock_gettime interposed, time advances only when the loop is idle; "
               "sleep and deadline durations never coincide for one fiber; one reader per pipe (C16 covers sharing)")
    if chk.quick:
        cfgs = [(dict(caps=(0,), nw=2), 5), (dict(caps=(0,), nw=2, extras=True), 4), (dict(caps=(1,), nw=2), 5), (dict(caps=(0, 1), nw=2), 4),
                (dict(caps=(0,), nw=3), 4), (dict(caps=(), nw=2, npipes=1), 4), (dict(caps=(0,), nw=2, npipes=1), 3),
                (dict(caps=(0,), nw=2, nprocs=1, npipes=1, free_tick=True, focus="proc"), 4),
                (dict(caps=(0,), nw=2, free_tick=True, focus="thread"), 2)]
    else:
        cfgs = [(dict(caps=(0,), nw=2), 8), (dict(caps=(0,), nw=2, extras=True), 6), (dict(caps=(1,), nw=2, extras=True), 5),
                (dict(caps=(1,), nw=2), 8), (dict(caps=(2,), nw=2), 7),
                (dict(caps=(0, 1), nw=2), 6), (dict(caps=(0, 0), nw=2), 6), (dict(caps=(1, 1), nw=2), 6),
                (dict(caps=(0,), nw=3), 7), (dict(caps=(1,), nw=3), 7), (dict(caps=(0, 1), nw=3), 5),
                (dict(caps=(), nw=2, npipes=1), 8), (dict(caps=(0,), nw=2, npipes=1), 6),
                (dict(caps=(), nw=3, npipes=2), 5), (dict(caps=(0,), nw=2, nprocs=1, npipes=1, free_tick=True, focus="proc"), 6),
                (dict(caps=(), nw=2, nprocs=2, npipes=1, free_tick=True), 4),
                (dict(caps=(0,), nw=2, free_tick=True, focus="thread"), 5)]
    # (cfg key tchan=True runs a configuration on thread channels used from one thread. It is not part of either tier:
    #  thread channels forward the wake-up of an abandoned writer to the next writer, which completes a give while the
    #  channel is still over capacity - the positional rule of ordinary channels does not hold there. Thread channels are
    #  C08's subject; see DESIGN.md section 10.)
    part_scripts(chk)
    cfgs.sort(key=lambda cd: 0 if cd[0].get("focus") else 1)
    done = []
    for i, (cfg, depth) in enumerate(cfgs):
        if chk.out_of_time(0.9):
            chk.cap("config %r depth %d not started (time budget)" % (cfg, depth))
            continue
        # every configuration gets a slice of what is left; configurations with real threads or child processes pay
        # real-time patience per step and count double
        weights = [2.0 if c.get("focus") else 1.0 for c, _ in cfgs[i:]]
        slice_end = chk.elapsed() + (chk.budget * 0.9 - chk.elapsed()) * weights[0] / sum(weights)
        r = explore(chk, cfg, depth, stop_at=slice_end)
        done.append("%s:depth %d" % (cfg, r["depth_completed"]))
    chk.sample({"history": "[('start',0,('dl',2,('give',0,100))), ('tick',2.0), ('start',0,('sleep',3)), ('start',1,('take',0)), ('tick',3.0)]",
                "meaning": "give times out, fiber then sleeps, another fiber takes the abandoned item: the sleeper must not wake before t=5"})
    chk.cov["bound_completed"] = "; ".join(done)
    chk.finish()


if __name__ == "__main__":
    harness_guard(main)
