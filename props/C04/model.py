"""Reference models for C04 (Python, stdlib only).

Part 1: TableModel -- a finite map with a prototype id, plus the checker that
compares one observation line of driver_table.janet with the model.

Part 2: sequence models (array = Python list, buffer = bytearray) with the
documented index / slice / fill / growth rules; see seq_* functions.

Nothing in here looks at the interpreter; the drivers only *report*.
"""

# ---------------------------------------------------------------------------
# Tables
#
# keys are indices 0..NK-1 into the run's colliding key set, index NK is the
# "absent" probe key (collides, never inserted by an operation, but present in
# prototype P1), 'n' is nil and 'N' is NaN.
# values are single characters: '1' '2' 'f'(false) and '_' for nil;
# 'a' = :p1, 'b' = :p2 (prototype values), 'c' = :m1, 'd' = :m2 (merge
# sources), 's' = :ps (struct prototype), 'z' = :dflt.

NK = 6
ABSENT = NK
PROBES = list(range(NK + 1)) + ["n", "N"]


def kch(k):
    if k == "n":
        return "_"
    if k == "N":
        return "N"
    return str(k)


# prototype pool: id 0 = none, 1 = P1, 2 = P2 (whose prototype is P1)
P1 = {0: "a", 1: "a", ABSENT: "a"}
P2 = {1: "b", 2: "b"}
PROTO_CHAIN = {0: [], 1: [P1], 2: [P2, P1]}
# merge sources: 0 = table M1 (own keys below; its prototype P1 must be ignored
# by merge-into), 1 = struct M2
MERGE_SRC = {0: {0: "c", 3: "c", 4: "c"}, 1: {1: "d", 5: "d", 3: "d"}}
# struct prototype used by table/to-struct t PS and struct/with-proto
PS = {0: "s", 5: "s"}


class TableModel(object):
    __slots__ = ("m", "proto")

    def __init__(self, m=None, proto=0):
        self.m = dict(m or {})
        self.proto = proto

    def copy(self):
        return TableModel(self.m, self.proto)

    def key(self):
        return (tuple(sorted(self.m.items())), self.proto)

    # -- operations (the same alphabet as driver_table.janet)
    def apply(self, op):
        """op is a tuple; returns the model after the operation (new object)."""
        r = self.copy()
        name = op[0]
        if name == "put":
            k, v = op[1], op[2]
            if k in ("n", "N"):
                return r              # nil and NaN keys are ignored
            if v == "_":
                r.m.pop(k, None)      # putting nil removes
            else:
                r.m[k] = v
        elif name == "clear":
            r.m = {}
        elif name == "clone":
            pass                      # the clone has the same entries and prototype
        elif name == "proto":
            r.proto = op[1]
        elif name == "merge":
            for k, v in MERGE_SRC[op[1]].items():
                r.m[k] = v
        elif name == "rt":
            r.proto = 0               # struct/to-table makes a fresh table
        else:
            raise ValueError(op)
        return r

    # -- queries
    def rawget(self, k):
        if k in ("n", "N"):
            return "_"
        return self.m.get(k, "_")

    def get(self, k):
        if k in ("n", "N"):
            return "_"
        if k in self.m:
            return self.m[k]
        for p in PROTO_CHAIN[self.proto]:
            if k in p:
                return p[k]
        return "_"

    def flatten(self):
        d = {}
        for p in [self.m] + PROTO_CHAIN[self.proto]:
            for k, v in p.items():
                d.setdefault(k, v)
        return d


def is_pow2(n):
    return n >= 1 and (n & (n - 1)) == 0


def parse_kv(s):
    """'0a1b' -> [(0,'a'),(1,'b')]; keys are single chars."""
    out = []
    if len(s) % 2:
        return None
    for i in range(0, len(s), 2):
        out.append((s[i], s[i + 1]))
    return out


def check_table_obs(model, obs, full, after_put=False):
    """Compare one observation with the model.
    Returns (problems, state_key). problems: list of (kind, text)."""
    bad = []
    secs = obs.split(";")
    want = 19 if full else 14
    if len(secs) != want:
        return [("format", "observation has %d sections: %s" % (len(secs), obs))], None
    lay = secs[0]
    try:
        head, slots, okeys, ovals = lay.split(",")
        c_i = head.index("c"); d_i = head.index("d"); C_i = head.index("C")
        count = int(head[c_i + 1:d_i]); deleted = int(head[d_i + 1:C_i]); cap = int(head[C_i + 1:])
    except ValueError:
        return [("format", "bad layout section: %s" % lay)], None
    mkeys = sorted(kch(k) for k in model.m)
    n = len(model.m)
    # ---- layout invariants
    if not is_pow2(cap) or len(slots) != cap:
        bad.append(("layout-capacity", "capacity %d slots %r" % (cap, slots)))
    if count != slots.count("k") or count != len(okeys):
        bad.append(("layout-count", "count=%d but %d live buckets (%s)" % (count, slots.count("k"), slots)))
    if deleted != slots.count("x"):
        bad.append(("layout-deleted", "deleted=%d but %d tombstones (%s)" % (deleted, slots.count("x"), slots)))
    if count + deleted > cap or 2 * (count + deleted) > cap:
        bad.append(("layout-load", "count=%d deleted=%d capacity=%d" % (count, deleted, cap)))
    if sorted(okeys) != mkeys:
        bad.append(("layout-keys", "buckets hold keys %s, map has %s" % (okeys, "".join(mkeys))))
    else:
        for kc_, vc_ in zip(okeys, ovals):
            if model.m[int(kc_)] != vc_:
                bad.append(("layout-values", "bucket of key %s holds %s, map has %s" % (kc_, vc_, model.m[int(kc_)])))
                break
    # ---- length
    if secs[1] != "L%d" % n:
        bad.append(("length", "length %s, map has %d entries" % (secs[1][1:], n)))
    if secs[2] != "P%d" % model.proto:
        bad.append(("getproto", "getproto gives %s, expected %d" % (secs[2][1:], model.proto)))
    # ---- iteration
    walk = secs[3][1:]
    if sorted(walk) != mkeys:
        bad.append(("next-walk", "next walk visited %r, map keys %s" % (walk, "".join(mkeys))))
    # ---- lookups
    exp_get = "".join(model.get(k) for k in PROBES)
    exp_raw = "".join(model.rawget(k) for k in PROBES)
    exp_dfl = "".join((model.get(k) if model.get(k) != "_" else "z") for k in PROBES)
    exp_has = "".join(("t" if model.get(k) != "_" else "f") for k in PROBES)
    if secs[4] != "G" + exp_get:
        bad.append(("get", "get over probes %s, expected %s" % (secs[4][1:], exp_get)))
    if secs[5] != "I" + exp_get:
        bad.append(("in", "in over probes %s, expected %s" % (secs[5][1:], exp_get)))
    if secs[6] != "R" + exp_raw:
        bad.append(("rawget", "table/rawget over probes %s, expected %s" % (secs[6][1:], exp_raw)))
    if secs[7] != "D" + exp_dfl:
        bad.append(("get-default", "get with default over probes %s, expected %s" % (secs[7][1:], exp_dfl)))
    if secs[8] != "H" + exp_has:
        bad.append(("has-key", "has-key? over probes %s, expected %s" % (secs[8][1:], exp_has)))
    # ---- keys / values / pairs / kvs
    if sorted(secs[9][1:]) != mkeys:
        bad.append(("keys", "keys gives %r, map keys %s" % (secs[9][1:], "".join(mkeys))))
    mvals = sorted(model.m.values())
    if sorted(secs[10][1:]) != mvals:
        bad.append(("values", "values gives %r, map values %s" % (secs[10][1:], "".join(mvals))))
    mpairs = sorted((kch(k), v) for k, v in model.m.items())
    for idx, nm in ((11, "pairs"), (12, "kvs")):
        kv = parse_kv(secs[idx][1:])
        if kv is None or sorted(kv) != mpairs:
            bad.append((nm, "%s gives %r, map is %r" % (nm, secs[idx][1:], mpairs)))
    if secs[13] != "Z":
        bad.append(("format", "missing end marker: %r" % secs[13]))
    if full:
        # S<len>,<get over probes>,<walk>,<eq flags>
        try:
            slen, sget, swalk, sflags = secs[14][1:].split(",")
        except ValueError:
            slen = sget = swalk = sflags = "?"
        if slen != str(n):
            bad.append(("struct-length", "table/to-struct has length %s, map has %d" % (slen, n)))
        if sget != exp_raw:
            bad.append(("struct-get", "struct lookups %s, expected %s" % (sget, exp_raw)))
        if sorted(swalk) != mkeys:
            bad.append(("struct-walk", "struct next walk %r, map keys %s" % (swalk, "".join(mkeys))))
        if sflags != "ttt":
            bad.append(("struct-equality", "structs with the same entries built in different orders: =,=,hash= gives %s" % sflags))
        # T<get over probes with struct proto>,<rawget>,<eq flag>
        try:
            tget, traw, tflag = secs[15][1:].split(",")
        except ValueError:
            tget = traw = tflag = "?"
        exp_t = "".join((model.rawget(k) if model.rawget(k) != "_" else PS.get(k, "_")) if k not in ("n", "N") else "_"
                        for k in PROBES)
        if tget != exp_t:
            bad.append(("struct-proto-get", "lookups on struct with prototype %s, expected %s" % (tget, exp_t)))
        if traw != exp_raw:
            bad.append(("struct-rawget", "struct/rawget %s, expected %s" % (traw, exp_raw)))
        # tflag: (= (table/to-struct t PS) (struct/with-proto PS ;kvs)) is *not* judged: it is false on the
        # unchanged tree (table/to-struct sets the prototype after the hash was computed); see NOTES.md.
        fl = model.flatten()
        kv = parse_kv(secs[16][1:])
        if kv is None or sorted(kv) != sorted((kch(k), v) for k, v in fl.items()):
            bad.append(("proto-flatten", "table/proto-flatten gives %r expected %r" % (secs[16][1:], sorted(fl.items()))))
        # U<len>c..d..C.. : struct/to-table round trip
        u = secs[17][1:]
        try:
            ulen, rest = u.split("c", 1)
            uc, rest = rest.split("d", 1)
            ud, ucap = rest.split("C", 1)
            ulen, uc, ud, ucap = int(ulen), int(uc), int(ud), int(ucap)
            if ulen != n or uc != n or 2 * (uc + ud) > ucap:
                bad.append(("to-table", "struct/to-table gives length %d count %d deleted %d capacity %d for %d entries" % (ulen, uc, ud, ucap, n)))
        except ValueError:
            bad.append(("format", "bad U section %r" % u))
        # Y<struct/proto-flatten pairs>,<get on struct/to-table s4 true>,<rawget on it>,<its length>
        try:
            yflat, yget, yraw, ylen = secs[18][1:].split(",")
        except ValueError:
            yflat = yget = yraw = ylen = "?"
        sfl = dict(PS)
        sfl.update(model.m)
        kv = parse_kv(yflat)
        if kv is None or sorted(kv) != sorted((kch(k), v) for k, v in sfl.items()):
            bad.append(("struct-proto-flatten", "struct/proto-flatten gives %r expected %r" % (yflat, sorted(sfl.items()))))
        if yget != exp_t or yraw != exp_raw or ylen != str(n):
            bad.append(("struct-to-table-recursive", "struct/to-table s true: get %s rawget %s length %s, expected %s %s %d" % (
                yget, yraw, ylen, exp_t, exp_raw, n)))
    key = lay + ";" + secs[2]
    return bad, key


# ---------------------------------------------------------------------------
# Sequences: arrays and buffers
#
# Element encoding shared with driver_seq.janet (function enc):
#   integers -> decimal, nil -> n, true/false -> T/F, keyword -> :name,
#   array -> [a,b] , tuple -> (a,b), buffer -> b<hex>, string -> s<hex>
# An operation's outcome is "E" (raised) or "R<result>"; the driver then
# reports the sequence's length, capacity and contents.

INT_MIN = -2 ** 31
INT_MAX = 2 ** 31 - 1


class Raise(Exception):
    pass


def is_int32(x):
    """janet_checkint: a number that is an exact 32-bit integer."""
    if isinstance(x, bool) or x is None:
        return False
    if isinstance(x, int):
        return INT_MIN <= x <= INT_MAX
    if isinstance(x, float):
        return x == x and x not in (float("inf"), float("-inf")) and x == int(x) and INT_MIN <= int(x) <= INT_MAX
    return False


def getinteger(x):
    if not is_int32(x):
        raise Raise()
    return int(x)


def halfrange(x, length):
    """janet_gethalfrange: negative counts from the end, -1 = length."""
    r = getinteger(x)
    if r < 0:
        r += length + 1
    if r < 0 or r > length:
        raise Raise()
    return r


def slice_range(length, args):
    """janet_getslice on (start, end) optional args (None = absent/nil)."""
    start = 0
    end = length
    if len(args) > 0 and args[0] is not None:
        start = halfrange(args[0], length)
    if len(args) > 1 and args[1] is not None:
        end = halfrange(args[1], length)
    if end < start:
        end = start
    return start, end


# ---- value encoding (must match enc in driver_seq.janet) -------------------

class Self(object):
    """marker: the result is the sequence object itself"""

    def __reduce__(self):
        return "SELF"            # survives pickling as the same singleton


SELF = Self()


class KwV(str):
    """a Janet keyword value inside the model"""
    pass


class SymV(str):
    pass


class BufV(bytes):
    """a Janet buffer value (fresh object)"""
    pass


class TupV(tuple):
    pass


def hexs(b):
    return "".join("%02x" % c for c in b)


def enc(v):
    if v is SELF:
        return "S"
    if v is None:
        return "n"
    if v is True:
        return "T"
    if v is False:
        return "F"
    if isinstance(v, KwV):
        return ":" + v
    if isinstance(v, SymV):
        return "y" + hexs(v.encode())
    if isinstance(v, BufV):
        return "b" + hexs(v)
    if isinstance(v, (bytes, bytearray)):
        return "s" + hexs(v)
    if isinstance(v, str):
        return "s" + hexs(v.encode())
    if isinstance(v, int):
        return str(v)
    if isinstance(v, float):
        if v != v:
            return "nan"
        if v == int(v) and abs(v) < 1e15:
            return str(int(v))
        return "%.17g" % v
    if isinstance(v, TupV):
        return "(" + ".".join(enc(x) for x in v) + ")"
    if isinstance(v, list):
        return "[" + ".".join(enc(x) for x in v) + "]"
    raise TypeError(repr(v))


def bytes_of(v, cur):
    """janet_getbytes: string, symbol, keyword, buffer (cur = current contents for SELF)."""
    if v is SELF:
        return bytes(cur)
    if isinstance(v, (KwV, SymV)):
        return v.encode()
    if isinstance(v, (bytes, bytearray)):
        return bytes(v)
    if isinstance(v, str):
        return v.encode()
    raise Raise()


def is_number(x):
    return isinstance(x, (int, float)) and not isinstance(x, bool)


# capacity specs returned by the models:
#   ("need", k): unchanged if k <= capacity, otherwise any capacity >= k
#   ("trim",)  : array: == length ; buffer: max(length, 4) if length < capacity else unchanged
SAME = ("need", 0)


class Partial(Exception):
    """raised inside a model when the operation raises after having had an effect"""

    def __init__(self, state, need):
        self.state = state
        self.need = need


def array_op(A, fn, args):
    """Model of one array operation. A: list. args: model values (SELF for the array).
    Returns (result, A2, capspec). Raises Raise for an error that leaves A unchanged,
    Partial for an error after a partial effect."""
    n = len(A)
    if fn == "array/push":
        vs = list(args[1:])
        return SELF, A + vs, ("need", n + len(vs))
    if fn == "array/pop":
        if n:
            return A[-1], A[:-1], SAME
        return None, A, SAME
    if fn == "array/peek":
        return (A[-1] if n else None), A, SAME
    if fn == "array/insert":
        if len(args) < 2:
            raise Raise()
        at = getinteger(args[1])
        if at < 0:
            at = n + at + 1
        if at < 0 or at > n:
            raise Raise()
        vs = list(args[2:])
        return SELF, A[:at] + vs + A[at:], ("need", n + len(vs))
    if fn == "array/remove":
        if len(args) < 2 or len(args) > 3:
            raise Raise()
        at = getinteger(args[1])
        if at < 0:
            at += n
        if at < 0 or at > n:
            raise Raise()
        cnt = 1
        if len(args) == 3:
            cnt = getinteger(args[2])
            if cnt < 0:
                raise Raise()
        if at + cnt > n:
            cnt = n - at          # "remove up to n elements"
        return SELF, A[:at] + A[at + cnt:], SAME
    if fn in ("array/concat", "array/join"):
        cur = list(A)
        for p in args[1:]:
            if p is SELF:
                cur = cur + cur
            elif isinstance(p, (list, TupV)):
                cur = cur + list(p)
            elif fn == "array/join":
                if cur != A:
                    raise Partial(cur, len(cur))
                raise Raise()
            else:
                cur = cur + [p]
        return SELF, cur, ("need", len(cur))
    if fn in ("array/slice", "tuple/slice"):
        if len(args) > 3:
            raise Raise()
        s, e = slice_range(n, args[1:])
        r = A[s:e]
        return (TupV(r) if fn == "tuple/slice" else list(r)), A, SAME
    if fn == "array/fill":
        if len(args) > 2:
            raise Raise()
        v = args[1] if len(args) == 2 else None
        return SELF, [v] * n, SAME
    if fn == "array/ensure":
        if len(args) != 3:
            raise Raise()
        c = getinteger(args[1])
        g = getinteger(args[2])
        if c < 1:
            raise Raise()
        # growth <= 0 is meaningless: the only sound expectations are "raise" or "no change";
        # the alphabet marks those cases, see seqcheck.py
        return SELF, A, ("need", c)
    if fn == "array/trim":
        return SELF, A, ("trim",)
    if fn == "array/clear":
        return SELF, [], SAME
    if fn == "put":
        if len(args) != 3:
            raise Raise()
        i = args[1]
        if not is_int32(i) or int(i) < 0 or int(i) >= INT_MAX - 1:
            raise Raise()
        i = int(i)
        B = list(A)
        if i >= n:
            B = B + [None] * (i + 1 - n)
        B[i] = args[2]
        return SELF, B, ("need", i + 1)
    if fn == "get":
        i = args[1]
        d = args[2] if len(args) > 2 else None
        v = None
        if is_int32(i) and 0 <= int(i) < n:
            v = A[int(i)]
        return (d if v is None else v), A, SAME
    if fn == "in":
        i = args[1]
        if is_int32(i) and 0 <= int(i) < n:
            return A[int(i)], A, SAME
        raise Raise()
    if fn == "next":
        return seq_next(n, args[1] if len(args) > 1 else None), A, SAME
    if fn == "length":
        return n, A, SAME
    raise ValueError("no model for " + fn)


def seq_next(n, k):
    if k is None:
        i = 0
    elif is_int32(k):
        i = int(k) + 1
        if i > INT_MAX:
            return None           # C: wraps negative, out of range either way
    else:
        return None
    return i if 0 <= i < n else None


def _push_items(cur, items, start_cur=None):
    """buffer_push_impl: numbers are bytes, byte sequences are appended. cur: bytearray (mutated).
    Raises Raise at the first bad item (effects of earlier items stay in cur)."""
    for x in items:
        if is_number(x):
            cur.append(getinteger(x) & 0xFF)
        else:
            cur.extend(bytes_of(x, cur))


def le_bytes(v, nbytes):
    return bytes((v >> (8 * i)) & 0xFF for i in range(nbytes))


def buffer_op(B, fn, args):
    """Model of one buffer operation. B: bytes."""
    import struct as _st
    n = len(B)
    cur = bytearray(B)

    def partial_or_raise(peak):
        if bytes(cur) != bytes(B):
            raise Partial(bytes(cur), peak)
        raise Raise()

    if fn in ("buffer/push-byte", "buffer/push-word", "buffer/push-string", "buffer/push"):
        try:
            for x in args[1:]:
                if fn == "buffer/push-byte":
                    cur.append(getinteger(x) & 0xFF)
                elif fn == "buffer/push-word":
                    if not is_number(x) or x != x or x < 0 or x > 0xFFFFFFFF or x != int(x):
                        raise Raise()
                    cur.extend(le_bytes(int(x), 4))
                elif fn == "buffer/push-string":
                    cur.extend(bytes_of(x, cur))
                else:
                    _push_items(cur, [x])
        except Raise:
            partial_or_raise(len(cur))
        return SELF, bytes(cur), ("need", len(cur))
    if fn == "buffer/push-at":
        if len(args) < 2:
            raise Raise()
        idx = getinteger(args[1])
        if idx < 0 or idx > n:
            raise Raise()
        # "Same as buffer/push, but copies the new data into the buffer at index": the bytes are written in place
        # from idx on, the tail beyond them stays, the buffer grows when they reach past the end; the buffer itself
        # as an argument is read as it is when that argument is reached; an ill-typed argument raises after the
        # earlier ones were written
        pos = idx
        try:
            for x in args[2:]:
                d = bytes([getinteger(x) & 0xFF]) if is_number(x) else bytes(bytes_of(x, cur))
                cur[pos:pos + len(d)] = d
                pos += len(d)
        except Raise:
            partial_or_raise(len(cur))
        return SELF, bytes(cur), ("need", len(cur))
    if fn in ("buffer/push-uint16", "buffer/push-uint32", "buffer/push-uint64",
              "buffer/push-float32", "buffer/push-float64"):
        if len(args) != 3:
            raise Raise()
        order = args[1]
        if not isinstance(order, KwV) or order not in ("le", "be", "native"):
            raise Raise()
        x = args[2]
        if fn.endswith("uint16") or fn.endswith("uint32"):
            bits = 16 if fn.endswith("16") else 32
            if not is_number(x) or x != x or x != int(x) or x < 0 or x >= 2 ** bits:
                raise Raise()
            data = le_bytes(int(x), bits // 8)
        elif fn.endswith("uint64"):
            if not isinstance(x, int) or isinstance(x, bool) or x < 0 or x >= 2 ** 53:
                raise ValueError("model only covers small non-negative integers for push-uint64")
            data = le_bytes(x, 8)
        elif fn.endswith("float32"):
            if not is_number(x):
                raise Raise()
            data = _st.pack("<f", x)
        else:
            if not is_number(x):
                raise Raise()
            data = _st.pack("<d", x)
        if order == "be":
            data = data[::-1]
        cur.extend(data)
        return SELF, bytes(cur), ("need", len(cur))
    if fn == "buffer/popn":
        if len(args) != 2:
            raise Raise()
        k = getinteger(args[1])
        if k < 0:
            raise Raise()
        return SELF, (b"" if n < k else B[:n - k]), SAME
    if fn == "buffer/clear":
        return SELF, b"", SAME
    if fn == "buffer/trim":
        return SELF, B, ("trim",)
    if fn == "buffer/fill":
        if len(args) > 2:
            raise Raise()
        byte = 0
        if len(args) == 2:
            byte = getinteger(args[1]) & 0xFF
        return SELF, bytes([byte]) * n, SAME
    if fn == "buffer/slice":
        if len(args) > 3:
            raise Raise()
        s, e = slice_range(n, args[1:])
        return BufV(B[s:e]), B, SAME
    if fn == "buffer/blit":
        # (buffer/blit dest src &opt dest-start src-start src-end)
        if len(args) < 2 or len(args) > 5:
            raise Raise()
        dest_is_self = args[0] is SELF
        D = bytes(B) if dest_is_self else bytes(args[0])
        if not dest_is_self and not isinstance(args[0], BufV):
            raise Raise()
        src = bytes_of(args[1], B)
        m = len(src)
        ds = 0
        ss = 0
        if len(args) > 2 and args[2] is not None:
            ds = halfrange(args[2], len(D))
        if len(args) > 3 and args[3] is not None:
            ss = halfrange(args[3], m)
        if len(args) > 4:
            se = m
            if args[4] is not None:
                se = halfrange(args[4], m)
            ln = max(0, se - ss)
        else:
            ln = m - ss
        last = ds + ln
        out = bytearray(D)
        if last > len(out):
            out.extend(b"\0" * (last - len(out)))   # never visible: overwritten below
        out[ds:ds + ln] = src[ss:ss + ln]
        if dest_is_self:
            return SELF, bytes(out), ("need", last)
        return BufV(bytes(out)), B, SAME
    if fn in ("buffer/bit", "buffer/bit-set", "buffer/bit-clear", "buffer/bit-toggle"):
        if len(args) != 2:
            raise Raise()
        x = args[1]
        if not is_number(x) or x != x or abs(x) >= 2 ** 62 or x != int(x) or x < 0 or (int(x) >> 3) >= n:
            raise Raise()
        bi = int(x)
        byte, bit = bi >> 3, bi & 7
        if fn == "buffer/bit":
            return bool(B[byte] & (1 << bit)), B, SAME
        if fn == "buffer/bit-set":
            cur[byte] |= 1 << bit
        elif fn == "buffer/bit-clear":
            cur[byte] &= ~(1 << bit) & 0xFF
        else:
            cur[byte] ^= 1 << bit
        return SELF, bytes(cur), SAME
    if fn == "put":
        if len(args) != 3:
            raise Raise()
        i = args[1]
        if not is_int32(i) or int(i) < 0 or int(i) >= INT_MAX - 1:
            raise Raise()
        if not is_int32(args[2]):
            raise Raise()
        i = int(i)
        if i >= n:
            cur.extend(b"\0" * (i + 1 - n))
        cur[i] = int(args[2]) & 0xFF
        return SELF, bytes(cur), ("need", i + 1)
    if fn == "get":
        i = args[1]
        d = args[2] if len(args) > 2 else None
        if is_int32(i) and 0 <= int(i) < n:
            return B[int(i)], B, SAME
        return d, B, SAME
    if fn == "in":
        i = args[1]
        if is_int32(i) and 0 <= int(i) < n:
            return B[int(i)], B, SAME
        raise Raise()
    if fn == "next":
        return seq_next(n, args[1] if len(args) > 1 else None), B, SAME
    if fn == "length":
        return n, B, SAME
    raise ValueError("no model for " + fn)
