#!/usr/bin/env python3
"""C04 -- tables, structs, arrays and buffers behave as maps and sequences.

Explicit-state BFS over operation histories on real objects (kernel K2).
See NOTES.md for the conventions; model.py holds the reference models.
"""
import multiprocessing
import os
import sys
import time

sys.path.insert(0, os.path.join(os.path.dirname(os.path.abspath(__file__)), "..", "..", "engine", "mc"))
from core import *  # noqa: F401,F403
import core as _core

HERE = os.path.dirname(os.path.abspath(__file__))
sys.path.insert(0, HERE)
import model as M  # noqa: E402
import seqcheck  # noqa: E402

DRV_TABLE = os.path.join(HERE, "driver_table.janet")
JOBS = _core.JOBS

# ---------------------------------------------------------------------------
# key survey: find keys whose hashes collide (deterministic: keywords, strings,
# symbols, booleans and numbers hash by content)

POOL = ([Kw(c) for c in "abcdefgh"] + [c for c in "abcdefgh"] + [Sym(c) for c in "abcdefgh"] +
        [False, True] + list(range(0, 600)))


def survey():
    forms = " ".join(jdn(k) if not isinstance(k, Sym) else "'" + k for k in POOL)
    r = run_script("fast", "(each k [%s] (print (hash k)))\n" % forms)
    if r.rc != 0:
        raise HarnessError("hash survey failed: " + r.describe())
    hs = [int(x) for x in r.out.decode().split()]
    if len(hs) != len(POOL):
        raise HarnessError("hash survey: %d hashes for %d keys" % (len(hs), len(POOL)))
    return [h & 0xFFFFFFFF for h in hs]


def pick_keysets(hashes):
    """Three sets of 7 keys (6 + absent probe) whose hashes agree modulo 8:
    A: the class of :a (contains :a "a" 'a with fully equal hashes),
    B: the class of 0/false (home bucket 0),
    C: residue 7 (home bucket = capacity-1 for capacities <= 8: probing wraps)."""
    sets = {}
    def members(res, first=()):
        out = list(first)
        for k, h in zip(POOL, hashes):
            if h % 8 == res and not any(k is f or (type(k) == type(f) and k == f) for f in out):
                out.append(k)
        return out
    ha = hashes[0]
    a = members(ha % 8, first=[POOL[0], POOL[8], POOL[16]])   # :a "a" 'a
    # keep the three fully equal ones, then numbers of the same class
    sets["A"] = a[:3] + [k for k in a[3:] if isinstance(k, int) and not isinstance(k, bool)][:4]
    b = members(0, first=[False, 0])
    sets["B"] = b[:7]
    c = members(7)
    sets["C"] = c[:7]
    info = {}
    hmap = {}
    for k, h in zip(POOL, hashes):
        hmap[(type(k).__name__, k)] = h
    sets["_hashes"] = {}
    for nm, ks in list(sets.items()):
        if nm == "_hashes":
            continue
        sets["_hashes"][nm] = [hmap[(type(k).__name__, k)] for k in ks]
        if len(ks) < 7:
            raise HarnessError("key survey: class %s has only %d members" % (nm, len(ks)))
        hh = [hmap[(type(k).__name__, k)] for k in ks]
        if len(set(h % 8 for h in hh)) != 1:
            raise HarnessError("key survey: class %s does not collide" % nm)
        info[nm] = dict(keys=[jdn(k) for k in ks], hash_mod_8=[h % 8 for h in hh], hash_mod_16=[h % 16 for h in hh],
                        hash_mod_64=[h % 64 for h in hh], equal_full_hash_pairs=sum(
                            1 for i in range(7) for j in range(i) if hh[i] == hh[j]))
    return sets, info


# ---------------------------------------------------------------------------
# table BFS

def table_alphabet(kind="full"):
    ops = []
    if kind == "layout":
        # deep search: one value per key (plus 2/false on key 0), no prototypes, no merges:
        # the bucket layout depends only on which keys are inserted/removed in which order
        for ki in range(M.NK):
            ops.append(("put", ki, 0))
        ops += [("put", 0, 1), ("put", 0, 2)]
        for ki in range(M.NK):
            ops.append(("put", ki, -1))
        ops += [("put", -1, 0), ("put", -2, 0), ("clear",), ("clone",), ("rt",)]
        return ops
    for ki in range(M.NK):
        for vi in range(3):
            ops.append(("put", ki, vi))
    for ki in range(M.NK):
        ops.append(("put", ki, -1))
    for ki in (-1, -2):
        for vi in (0, -1):
            ops.append(("put", ki, vi))
    ops.append(("clear",))
    ops.append(("clone",))
    for p in (0, 1, 2):
        ops.append(("proto", p))
    for s in (0, 1):
        ops.append(("merge", s))
    ops.append(("rt",))
    return ops


VCH = {0: "1", 1: "2", 2: "f", -1: "_"}


def model_op(op):
    if op[0] == "put":
        k = {-1: "n", -2: "N"}.get(op[1], op[1])
        return ("put", k, VCH[op[2]])
    return op


def op_jdn(op):
    return "[" + " ".join([":" + op[0]] + [str(x) for x in op[1:]]) + "]"


def root_jdn(root):
    return "[" + " ".join([":" + root[0]] + [str(x) for x in root[1:]]) + "]"


KHASH = {}    # key class -> hashes of its 7 keys
KEYSRC = None  # list of janet source text of the 7 keys (for replay scripts)


def op_src(op, var="t"):
    """Janet source of one operation for the stand-alone replay file."""
    vs = {0: "1", 1: "2", 2: "false", -1: "nil"}
    if op[0] == "put":
        k = {-1: "nil", -2: "math/nan"}.get(op[1]) or KEYSRC[op[1]]
        return "(put %s %s %s)" % (var, k, vs[op[2]])
    if op[0] == "clear":
        return "(table/clear %s)" % var
    if op[0] == "clone":
        return ("(def old %s) (def %s (table/clone old)) (each k KEYS (put old k 2)) "
                "(table/clear old) (table/setproto old nil)" % (var, var))
    if op[0] == "proto":
        return "(table/setproto %s %s)" % (var, ["nil", "P1", "P2"][op[1]])
    if op[0] == "merge":
        return "(merge-into %s %s)" % (var, ["M1", "M2"][op[1]])
    if op[0] == "rt":
        return "(def %s (struct/to-table (table/to-struct %s)))" % (var, var)
    raise ValueError(op)


def table_replay(root, hist, mdl, problems):
    ks = KEYSRC
    L = []
    L.append("# keys (hashes collide modulo 8): %s ; absent probe key %s" % (" ".join(ks[:6]), ks[6]))
    L.append("(def KEYS [%s])" % " ".join(ks[:6]))
    L.append("(def P1 @{%s :p1 %s :p1 %s :p1})" % (ks[0], ks[1], ks[6]))
    L.append("(def P2 (table/setproto @{%s :p2 %s :p2} P1))" % (ks[1], ks[2]))
    L.append("(def M1 (table/setproto @{%s :m1 %s :m1 %s :m1} P1))" % (ks[0], ks[3], ks[4]))
    L.append("(def M2 {%s :m2 %s :m2 %s :m2})" % (ks[1], ks[5], ks[3]))
    rs = {"lit": "@{}", "ctor": "(table)"}.get(root[0]) or "(table/new %d)" % root[1]
    L.append("(var t %s)" % rs)
    for op in hist:
        s = op_src(op)
        s = s.replace("(def t ", "(set t ").replace("(def old t) (set t", "(def old t) (set t")
        L.append(s)
    vname = {"1": "1", "2": "2", "f": "false", "_": "nil", "a": ":p1", "b": ":p2", "c": ":m1", "d": ":m2"}
    L.append("(var bad 0)")
    L.append("(defn expect [what got want] (unless (= got want) (++ bad) (printf \"MISMATCH %s: got %q expected %q\" what got want)))")
    L.append("(expect \"length\" (length t) %d)" % len(mdl.m))
    L.append("(def walk @[]) (var k (next t nil)) (while (and (not= nil k) (< (length walk) 64)) (array/push walk k) (set k (next t k)))")
    L.append("(expect \"number of keys visited by next\" (length walk) %d)" % len(mdl.m))
    L.append("(expect \"distinct keys visited by next\" (length (distinct walk)) %d)" % len(mdl.m))
    L.append("(expect \"length of (keys t)\" (length (keys t)) %d)" % len(mdl.m))
    for k in M.PROBES:
        src = {"n": "nil", "N": "math/nan"}.get(k) or ks[k]
        L.append("(expect \"(get t %s)\" (get t %s) %s)" % (src.replace('"', "'"), src, vname[mdl.get(k)]))
        L.append("(expect \"(in t %s)\" (in t %s) %s)" % (src.replace('"', "'"), src, vname[mdl.get(k)]))
        L.append("(expect \"(table/rawget t %s)\" (table/rawget t %s) %s)" % (src.replace('"', "'"), src, vname[mdl.rawget(k)]))
        if k not in ("n", "N"):
            L.append("(expect \"((table/to-struct t) %s)\" (get (table/to-struct t) %s) %s)" % (src.replace('"', "'"), src, vname[mdl.rawget(k)]))
    L.append("(when (dyn 'verif/table-info) (printf \"layout: %q\" ((compile '(verif/table-info t) (curenv)))))")
    L.append("# checker reported: " + "; ".join("%s: %s" % p for p in problems)[:600])
    L.append("(if (= bad 0) (print \"no mismatch visible to plain janet (layout-only: run under vjanet)\") (os/exit 1))")
    return "\n".join(L) + "\n"


_W = {}   # worker configuration (inherited through fork)


def _table_worker(task):
    """task: list of (sid, root, hist, model_items, proto, alt or None). Runs the
    driver on all of them and judges every successor. Returns list of
    (sid, base_key, base_problems, [(opidx, key, problems, obs)])."""
    ops = _W["ops"]
    flags = _W["flags"]
    succ_txt = _W["succ_txt"]
    items = []
    for sid, root, hist, mitems, proto, alt in task:
        it = "[%s [%s] %s %d" % (root_jdn(root), " ".join(op_jdn(o) for o in hist), succ_txt, flags)
        if alt is not None:
            it += " [%s [%s]]" % (root_jdn(alt[0]), " ".join(op_jdn(o) for o in alt[1]))
        items.append(it + "]")
    res = run_batch(_W["variant"], DRV_TABLE, items, env=_W["env"], chunk=max(1, len(items)), jobs=1, timeout=30, max_deaths=3)
    full = bool(flags & 1)
    out = []
    cache = {}
    for (sid, root, hist, mitems, proto, alt), (status, text) in zip(task, res):
        mdl = M.TableModel(dict(mitems), proto)
        if status == "SKIPPED":
            out.append((sid, None, [("skipped", text)], []))
            continue
        if status != "OK":
            out.append((sid, None, [("driver-" + status.lower(), text[-600:])], []))
            continue
        parts = text.split("|")
        bprob, bkey = M.check_table_obs(mdl, parts[0], full)
        succ = []
        i = 0
        extra = []
        for p in parts[1:]:
            if p.startswith("ok ") or p.startswith("ERR "):
                st, obs = p.split(" ", 1)
                op = ops[i]
                ck = (i, obs)
                got = cache.get((mdl.key(), ck))
                if got is None:
                    m2 = mdl.apply(model_op(op))
                    prob, key = M.check_table_obs(m2, obs, full)
                    if st != "ok":
                        prob = [("op-raised", "operation raised an error")] + prob
                    got = (key, prob)
                    cache[(mdl.key(), ck)] = got
                succ.append((i, got[0], got[1], obs if got[1] else None))
                i += 1
            elif p.startswith("CLONEDIFF "):
                succ[-1] = (succ[-1][0], succ[-1][1],
                            succ[-1][2] + [("clone-differs", "same operation on table/clone of the state gives " + p[10:])],
                            succ[-1][3] or "")
            elif p.startswith("ALTDIFF "):
                succ[-1] = (succ[-1][0], succ[-1][1],
                            succ[-1][2] + [("route-dependent", "same operation after a different route to the same state gives " + p[8:])],
                            succ[-1][3] or "")
            elif p.startswith("ALT "):
                if p[4:] != parts[0]:
                    extra.append(("harness-alt", "alternative route observes %s, main route %s" % (p[4:], parts[0])))
            elif p.startswith("BASECHANGED "):
                extra.append(("clone-not-independent", "mutating clones changed the original: now " + p[12:]))
            else:
                extra.append(("format", "unparsed part %r" % p[:80]))
        if i != len(ops):
            extra.append(("format", "%d successor observations for %d operations" % (i, len(ops))))
        out.append((sid, bkey, bprob + extra, succ))
    return out


class TState(object):
    __slots__ = ("root", "hist", "mitems", "proto", "alts")

    def __init__(self, root, hist, mdl):
        self.root = root
        self.hist = hist
        self.mitems = tuple(sorted(mdl.m.items()))
        self.proto = mdl.proto
        self.alts = []


def fmt_hist(root, hist):
    return root_jdn(root) + " " + " ".join(op_jdn(o) for o in hist)


def table_bfs(chk, name, keys, roots, max_depth, variant, full, with_clone, deadline, diff_depth=0, min_depth=1, alphabet="full"):
    """BFS over table histories. Returns number of states."""
    global KEYSRC
    KEYSRC = [jdn(k) if not isinstance(k, Sym) else "'" + k for k in keys]
    ops = table_alphabet(alphabet)
    env = {"C04_KEYS": "{:keys [%s]}" % " ".join(jdn(k) for k in keys)}
    _W.clear()
    _W.update(ops=ops, flags=(1 if full else 0) | (2 if with_clone else 0), variant=variant, env=env,
              succ_txt="[" + " ".join(op_jdn(o) for o in ops) + "]")
    vjanet(variant)
    seen = {}
    states = []
    t_start = time.time()
    reported = set()
    nviol = [0]

    def report(kind, text, root, hist, mdl, problems):
        nviol[0] += 1
        last = hist[-1][0] if hist else "root"
        sig = "table:%s:after-%s" % (kind, last)
        if sig in reported:
            chk.violation(sig=sig, what=text)
            return
        reported.add(sig)
        what = "[%s keys %s] history %s : %s" % (name, " ".join(KEYSRC), fmt_hist(root, hist), text)
        chk.violation(sig=sig, what=what, replay_text=table_replay(root, hist, mdl, problems),
                      replay_cmd="janet <file>   (layout-only findings: %s <file>)" % vjanet("fast"))

    # roots
    frontier = []
    pool = multiprocessing.get_context("fork").Pool(JOBS)
    try:
        def run_level(sids, use_alts=False):
            tasks = []
            cur = []
            per = max(1, min(400, (len(sids) + JOBS * 4 - 1) // (JOBS * 4)))
            for sid in sids:
                st = states[sid]
                if use_alts:
                    for alt in st.alts:
                        cur.append((sid, st.root, st.hist, st.mitems, st.proto, alt))
                        if len(cur) >= per:
                            tasks.append(cur); cur = []
                else:
                    cur.append((sid, st.root, st.hist, st.mitems, st.proto, None))
                    if len(cur) >= per:
                        tasks.append(cur); cur = []
            if cur:
                tasks.append(cur)
            res = []
            for r in pool.imap(_table_worker, tasks):
                res.extend(r)
            return res

        # depth 0: the roots themselves. Discover their keys by running them with no history.
        root_states = []
        for root in roots:
            st = TState(root, (), M.TableModel())
            states.append(st)
            root_states.append(len(states) - 1)
        depth = 0
        level = root_states
        first_level = True
        completed = 0
        keys_of = {}
        while True:
            res = run_level(level)
            new_level = []
            ntrans = 0
            for sid, bkey, bprob, succ in res:
                st = states[sid]
                mdl = M.TableModel(dict(st.mitems), st.proto)
                if first_level:
                    if bkey is not None and bkey not in seen:
                        seen[bkey] = sid
                    keys_of[sid] = bkey
                else:
                    if bkey is not None and bkey != keys_of.get(sid):   # None: the worker died or was skipped
                        raise HarnessError("C04 %s: replay of %s reached %s, recorded %s" % (
                            name, fmt_hist(st.root, st.hist), bkey, keys_of.get(sid)))
                for kind, text in bprob:
                    if kind == "skipped":
                        chk.cap("%s: states not expanded after repeated dead workers" % name)
                        continue
                    if kind.startswith("driver-") or kind.startswith("harness") or kind == "format":
                        if kind in ("driver-crash", "driver-timeout"):
                            report(kind, "expanding the state: " + text, st.root, st.hist, mdl, bprob)
                        else:
                            raise HarnessError("C04 %s: %s at %s: %s" % (name, kind, fmt_hist(st.root, st.hist), text))
                    else:
                        report(kind, text, st.root, st.hist, mdl, bprob)
                for opidx, key, prob, obs in succ:
                    ntrans += 1
                    op = ops[opidx]
                    if prob:
                        m2 = mdl.apply(model_op(op))
                        for kind, text in prob:
                            if kind == "format":
                                raise HarnessError("C04 %s: %s after %s: %s" % (name, kind, fmt_hist(st.root, st.hist + (op,)), text))
                            report(kind, text + "  [observation " + str(obs)[:300] + "]", st.root, st.hist + (op,), m2, prob)
                        continue
                    chk.outcome(key.split(";")[0].split(",", 1)[1] if False else key)
                    other = seen.get(key)
                    if other is None:
                        m2 = mdl.apply(model_op(op))
                        ns = TState(st.root, st.hist + (op,), m2)
                        states.append(ns)
                        nsid = len(states) - 1
                        seen[key] = nsid
                        keys_of[nsid] = key
                        new_level.append(nsid)
                    elif diff_depth and len(states[other].hist) <= diff_depth and other != sid:
                        o = states[other]
                        h = st.hist + (op,)
                        if (o.root, o.hist) != (st.root, h) and len(o.alts) < 1 and len(h) <= diff_depth + 2:
                            if all(a != (st.root, h) for a in o.alts):
                                o.alts.append((st.root, h))
            chk.add(transitions=ntrans, evaluations=ntrans)
            first_level = False
            completed = depth + 1
            chk.part(name, **{"depth_%d_new_states" % (depth + 1): len(new_level)})
            depth += 1
            el = time.time() - t_start
            sys.stderr.write("  [%s] depth %d: %d new states, %d total, %.1fs\n" % (name, depth, len(new_level), len(states), el))
            if not new_level:
                chk.part(name, closed=True)
                break
            if depth >= max_depth:
                break
            # estimate the next level: stop between bounds
            per_state = el / max(1, len(states) - len(new_level))
            est = per_state * len(new_level) * 1.3
            if depth >= min_depth and time.time() + est > deadline:
                chk.cap("%s: stopped after depth %d (next level ~%.0fs over the budget share)" % (name, depth, est))
                break
            level = new_level
        # differential start states: every state of depth <= diff_depth that was also reached by a
        # different route is rebuilt along that route; it must observe the same and every successor
        # operation must give the same observation. Done depth by depth, stops between depths.
        ndiff = 0
        diff_done = 0
        if diff_depth:
            per_state = (time.time() - t_start) / max(1, len(states))
            for d in range(0, diff_depth + 1):
                sids = [i for i, s in enumerate(states) if s.alts and len(s.hist) == d]
                if not sids:
                    diff_done = d
                    continue
                if time.time() + per_state * len(sids) * 2.0 > deadline + 0.25 * (deadline - t_start):
                    chk.part(name, differential_note="routes of depth >= %d skipped (time)" % d)
                    break
                res = run_level(sids, use_alts=True)
                for sid, bkey, bprob, succ in res:
                    st = states[sid]
                    mdl = M.TableModel(dict(st.mitems), st.proto)
                    ndiff += 1
                    for kind, text in bprob:
                        if kind == "harness-alt":
                            raise HarnessError("C04 %s: %s" % (name, text))
                        report(kind, text, st.root, st.hist, mdl, bprob)
                    for opidx, key, prob, obs in succ:
                        chk.add(transitions=1, evaluations=1)
                        for kind, text in prob:
                            if kind == "route-dependent":
                                report(kind, text, st.root, st.hist + (ops[opidx],), mdl.apply(model_op(ops[opidx])), prob)
                diff_done = d
    finally:
        pool.terminate()
        pool.join()
    n = len(states)
    caps = sorted(set(int(k.split(",")[0].split("C")[1]) for k in seen))
    tomb = sum(1 for k in seen if "x" in k.split(",")[1])
    # vacuity counters: how many states have a live key displaced from its home bucket / wrapped around
    kh = KHASH.get(name.split("-")[1][0])
    displaced = wrapped = maxdist = 0
    if kh:
        for k in seen:
            lay = k.split(";")[0].split(",")
            cap = int(lay[0].split("C")[1])
            pos = [i for i, ch in enumerate(lay[1]) if ch == "k"]
            dmax = 0
            w = False
            for p, kc_ in zip(pos, lay[2]):
                if not kc_.isdigit():
                    continue
                home = kh[int(kc_)] % cap
                d = (p - home) % cap
                dmax = max(dmax, d)
                if p < home:
                    w = True
            if dmax:
                displaced += 1
            if w:
                wrapped += 1
            maxdist = max(maxdist, dmax)
    chk.add(states=n)
    chk.part(name, states_with_displaced_key=displaced, states_with_wrapped_probe=wrapped, max_probe_distance=maxdist)
    chk.part(name, states=n, depth_completed=completed, variant=variant, capacities_seen=str(caps),
             states_with_tombstones=tomb, differential_routes=ndiff, differential_depth=diff_done, violations=nviol[0],
             wall_s=round(time.time() - t_start, 1), ops_per_state=len(ops))
    if states:
        mid = states[len(states) // 2]
        chk.sample({"part": name, "middle_state": fmt_hist(mid.root, mid.hist), "last_state": fmt_hist(states[-1].root, states[-1].hist)})
    return n, completed



# ---------------------------------------------------------------------------
# ill-typed arguments to table/struct functions: full product of
# (function, argument position, value of every type)

DRV_MISC = os.path.join(HERE, "driver_misc.janet")
T0_CANON = "#0=@{:a 1 :b 2}^#1=@{:p 9}"

# one value of every type: (janet data text, type name)
TYPED = [("nil", "nil"), ("true", "boolean"), ("1", "nat"), ("-1", "int"), ("1.5", "number"), (":k", "keyword"),
         ("\"s\"", "string"), ("sy", "symbol"), ("[1]", "tuple"), ("@[1]", "array"), ("S", "struct"),
         ("T", "table"), ("P", "table"), ("@\"b\"", "buffer")]
ANY = None
# function -> (well-typed template, accepted types per position (None = anything))
MISC_FUNS = {
    "table/new": (["1"], [{"nat"}]),
    "table/setproto": (["T", "P"], [{"table"}, {"table", "nil"}]),
    "table/getproto": (["T"], [{"table"}]),
    "table/rawget": (["T", ":a"], [{"table"}, ANY]),
    "table/clone": (["T"], [{"table"}]),
    "table/clear": (["T"], [{"table"}]),
    "table/to-struct": (["T", "S"], [{"table"}, {"struct", "nil"}]),
    "table/proto-flatten": (["T"], [{"table"}]),
    "struct/to-table": (["S", "true"], [{"struct"}, ANY]),
    "struct/getproto": (["S"], [{"struct"}]),
    "struct/rawget": (["S", ":a"], [{"struct"}, ANY]),
    "struct/proto-flatten": (["S"], [{"struct"}]),
    "struct/with-proto": (["S", ":x", "1"], [{"struct", "nil"}, ANY, ANY]),
}


def misc_part(chk):
    items, meta = [], []
    for fn, (tmpl, acc) in sorted(MISC_FUNS.items()):
        items.append("[%s %s]" % (fn, " ".join(tmpl)))
        meta.append((fn, list(tmpl), False))
        for pos in range(len(tmpl)):
            for txt, ty in TYPED:
                args = list(tmpl)
                args[pos] = txt
                raises = acc[pos] is not ANY and ty not in acc[pos]
                items.append("[%s %s]" % (fn, " ".join(args)))
                meta.append((fn, args, raises))
        # arity: no arguments at all
        items.append("[%s]" % fn)
        meta.append((fn, [], True))
    res = run_batch("asan", DRV_MISC, items, chunk=200)
    n = 0
    for (fn, args, raises), (status, text) in zip(meta, res):
        n += 1
        src = "(%s %s)" % (fn, " ".join(a.replace("sy", "'sy") if a == "sy" else a for a in args))
        replay = ("(def P @{:p 9}) (def T (table/setproto @{:a 1 :b 2} P)) (def S {:a 1})\n"
                  "(def r (protect %s))\n(printf \"%%s -> %%q ; T is now %%q\" %s (if (r 0) :returned :raised) T)\n"
                  "# expected: %s\n") % (src, jdn(src), "raises, T unchanged" if raises else "returns")
        if status != "OK":
            chk.violation(sig="illtyped:%s:process-dies" % fn, what="%s: %s %s" % (src, status, text[-300:]), replay_text=replay)
            continue
        out, canon = text.split(";", 1)
        chk.outcome("misc %s %s" % (fn, out))
        if (out == "E") != raises:
            chk.violation(sig="illtyped:%s:%s" % (fn, "returns-instead-of-raising" if raises else "raises-on-valid-argument"),
                          what="%s %s, expected it to %s" % (src, "returned" if out == "R" else "raised", "raise" if raises else "return"),
                          replay_text=replay)
        elif raises and canon != T0_CANON:
            chk.violation(sig="illtyped:%s:state-changed" % fn, what="%s raised but the table is now %s" % (src, canon), replay_text=replay)
    chk.add(evaluations=n, transitions=n)
    chk.part("illtyped-table-struct", evaluations=n, functions=len(MISC_FUNS), values_per_position=len(TYPED))
    return "illtyped product %d calls" % n


# ---------------------------------------------------------------------------

def main():
    chk = Check("C04", description=__doc__)
    only = chk.args.only
    quick = chk.quick
    chk.rule("explicit-state BFS over operation histories on real tables/arrays/buffers inside vjanet; a table state is "
             "(entries, prototype, count, deleted, capacity, bucket layout), distinct iff that tuple differs; every state is "
             "expanded with the whole operation alphabet (36 table ops; every index at every boundary for sequences) and "
             "every observation is compared with a Python map / list / bytearray model. Keys are chosen at run time so that "
             "their hashes collide modulo 8 (three classes: equal full hashes, home bucket 0, home bucket capacity-1).")
    chk.assume("= and hash on keywords/strings/symbols/small numbers are as C03 checks them (the driver names keys by linear scan with =)")
    chk.assume("verif/table-info and verif/array-info report the fields of JanetTable/JanetArray/JanetBuffer truthfully")
    chk.assume("ASan (asan variant) reports any access outside the malloc'ed backing store of an array or buffer")
    T0 = time.time()
    budget = chk.budget

    hashes = survey()
    keysets, kinfo = pick_keysets(hashes)
    KHASH.update(keysets.pop("_hashes"))
    chk.part("keys", **{k: str(v) for k, v in kinfo.items()})
    for nm, inf in kinfo.items():
        if nm == "A" and inf["equal_full_hash_pairs"] < 3:
            raise HarnessError("key class A lost its fully colliding keys")

    def want(p):
        return only is None or only == p or p.startswith(only)

    roots_main = [("lit",), ("new", 8)]
    roots_more = [("lit",), ("ctor",), ("new", 0), ("new", 1), ("new", 2), ("new", 3), ("new", 4), ("new", 8), ("new", 16)]

    # (name, keys, roots, max depth, variant, full observation, clone mode, budget share, differential depth,
    #  minimum depth, alphabet). Every part stops *between* depths when its share of the budget is used up.
    if quick:
        plan = [
            ("table-A", keysets["A"], roots_main, 4, "fast", True, True, 0.14, 3, 3, "full"),
            ("table-A-asan", keysets["A"], roots_main, 3, "asan", True, True, 0.05, 0, 2, "full"),
            ("layout-A", keysets["A"], roots_main, 12, "fast", True, False, 0.14, 4, 8, "layout"),
            ("layout-B", keysets["B"], roots_more, 8, "fast", True, False, 0.07, 0, 5, "layout"),
            ("layout-C", keysets["C"], roots_more, 8, "fast", True, False, 0.07, 0, 5, "layout"),
            ("layout-A-asan", keysets["A"], roots_main, 8, "asan", True, True, 0.07, 0, 5, "layout"),
        ]
    else:
        plan = [
            ("table-A", keysets["A"], roots_main, 5, "fast", True, True, 0.12, 4, 4, "full"),
            ("table-B", keysets["B"], roots_main, 4, "fast", True, True, 0.05, 3, 3, "full"),
            ("table-C", keysets["C"], roots_main, 4, "fast", True, True, 0.05, 3, 3, "full"),
            ("table-A-asan", keysets["A"], roots_main, 4, "asan", True, True, 0.05, 0, 3, "full"),
            ("layout-A", keysets["A"], roots_main, 40, "fast", True, True, 0.10, 5, 12, "layout"),
            ("layout-B", keysets["B"], roots_main, 12, "fast", True, False, 0.10, 5, 9, "layout"),
            ("layout-C", keysets["C"], roots_main, 40, "fast", True, True, 0.08, 5, 12, "layout"),
            ("layout-A-roots", keysets["A"], roots_more, 12, "fast", True, False, 0.06, 0, 9, "layout"),
            ("layout-A-asan", keysets["A"], roots_main, 40, "asan", True, True, 0.10, 0, 10, "layout"),
        ]
    bounds = []
    for (name, keys, roots, maxd, variant, full, wc, share, diffd, mind, alpha) in plan:
        if not want(name):
            continue
        deadline = time.time() + budget * share
        n, comp = table_bfs(chk, name, keys, roots, maxd, variant, full, wc, deadline, diff_depth=diffd, min_depth=mind, alphabet=alpha)
        bounds.append("%s depth %d" % (name, comp))

    if want("illtyped"):
        bounds.append(misc_part(chk))

    if only is None or only.startswith("seq"):
        bounds += seqcheck.run(chk, T0, budget)

    chk.cov["bound_completed"] = "; ".join(bounds)
    chk.finish()


if __name__ == "__main__":
    harness_guard(main)
