# C04 ill-typed arguments to table/struct functions. item: [fn arg...]
# the symbols T / S / P stand for a fresh table @{:a 1 :b 2} (prototype P),
# the struct {:a 1} and the prototype table @{:p 9}. Reports E (raised) or
# R (returned) and the canonical text of T afterwards.
(use prelude)
(batch-run
  (fn [item]
    (def P @{:p 9})
    (def T (table/setproto @{:a 1 :b 2} P))
    (def S {:a 1})
    (def f (eval (item 0)))
    (def args (seq [i :range [1 (length item)]]
                (def x (item i))
                (cond (= x 'T) T (= x 'S) S (= x 'P) P x)))
    (def r (protect (f ;args)))
    (string (if (r 0) "R" "E") ";" (canon T))))
