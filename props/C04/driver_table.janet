# C04 table driver. One batch item = one frontier state (root + history) and
# all successor operations. Reports observations only; every judgement is made
# by model.py / check.py.
#
# item: [root hist succs flags]
#   root   : [:lit] | [:new n] | [:ctor]
#   hist   : tuple of ops
#   succs  : tuple of ops
#   flags  : bit0 = full observation (struct conversions etc.)
#            bit1 = also apply every successor to a table/clone of the base
#            alt    : optional 5th element, an alternative [root hist] that must
#                     reach the same state (differential start state)
# op: [:put ki vi] [:clear] [:clone] [:proto p] [:merge s] [:rt]
#   ki: 0..6 index into KEYS, -1 = nil, -2 = NaN ; vi: 0..2 index into VALS, -1 = nil
(use prelude)

(def CFG (parse (os/getenv "C04_KEYS")))
(def KEYS (CFG :keys))            # 6 colliding keys + the absent probe key
(def NK 6)
(def VALS [1 2 false])
(def nan math/nan)

(defn key-of [ki] (cond (= ki -1) nil (= ki -2) nan (in KEYS ki)))
(defn val-of [vi] (if (= vi -1) nil (in VALS vi)))

(defn kc [k]
  (cond
    (nil? k) "_"
    (and (number? k) (not= k k)) "N"
    (do
      (var r "?")
      (for i 0 (length KEYS) (when (= k (in KEYS i)) (set r (string i)) (break)))
      r)))

(defn vc [v]
  (cond
    (nil? v) "_"
    (= v 1) "1" (= v 2) "2" (= v false) "f"
    (= v :p1) "a" (= v :p2) "b" (= v :m1) "c" (= v :m2) "d" (= v :ps) "s" (= v :dflt) "z"
    "?"))

(def PROBES (tuple ;(seq [i :range [0 (+ NK 1)]] (in KEYS i)) nil nan))

# pools, rebuilt for every item
(var P1 nil) (var P2 nil) (var M1 nil) (var M2 nil) (var PS nil)
(defn make-pools []
  (set P1 @{(KEYS 0) :p1 (KEYS 1) :p1 (KEYS NK) :p1})
  (set P2 (table/setproto @{(KEYS 1) :p2 (KEYS 2) :p2} P1))
  (set M1 (table/setproto @{} P1))
  (put M1 (KEYS 0) :m1) (put M1 (KEYS 5) 1) (put M1 (KEYS 3) :m1) (put M1 (KEYS 5) nil) (put M1 (KEYS 4) :m1)
  (set M2 (struct (KEYS 1) :m2 (KEYS 5) :m2 (KEYS 3) :m2))
  (set PS (struct (KEYS 0) :ps (KEYS 5) :ps)))

(defn make-root [r]
  (case (r 0)
    :lit @{}
    :new (table/new (r 1))
    :ctor (table)
    (error "bad root")))

(defn apply-op [t op]
  (case (op 0)
    :put (do (put t (key-of (op 1)) (val-of (op 2))) t)
    :clear (table/clear t)
    :clone (let [c (table/clone t)]
             # wreck the original: the clone must not notice
             (for i 0 NK (put t (in KEYS i) 2))
             (table/clear t)
             (table/setproto t nil)
             c)
    :proto (table/setproto t (case (op 1) 0 nil 1 P1 2 P2))
    :merge (merge-into t (case (op 1) 0 M1 1 M2))
    :rt (struct/to-table (table/to-struct t))
    (error "bad op")))

(defn build [root hist]
  (var t (make-root root))
  (each op hist (set t (apply-op t op)))
  t)

(defn walk-into [b ds cap]
  (var k (next ds nil))
  (var n 0)
  (def lim (+ 2 cap))
  (while (and (not= nil k) (< n lim))
    (buffer/push b (kc k))
    (set k (next ds k))
    (++ n))
  (when (not= nil k) (buffer/push b "!")))

(defn observe [t full]
  (def b @"")
  (def info (verif/table-info t))
  (buffer/push b "c" (string (info :count)) "d" (string (info :deleted)) "C" (string (info :capacity)) "," (info :slots) ",")
  (each k (info :order) (buffer/push b (kc k)))
  (buffer/push b ",")
  (each k (info :order) (buffer/push b (vc (table/rawget t k))))
  (buffer/push b ";L" (string (length t)))
  (def p (table/getproto t))
  (buffer/push b ";P" (cond (nil? p) "0" (= p P1) "1" (= p P2) "2" "?"))
  (buffer/push b ";W")
  (walk-into b t (info :capacity))
  (buffer/push b ";G") (each k PROBES (buffer/push b (vc (get t k))))
  (buffer/push b ";I") (each k PROBES (buffer/push b (vc (in t k))))
  (buffer/push b ";R") (each k PROBES (buffer/push b (vc (table/rawget t k))))
  (buffer/push b ";D") (each k PROBES (buffer/push b (vc (get t k :dflt))))
  (buffer/push b ";H") (each k PROBES (buffer/push b (if (has-key? t k) "t" "f")))
  (buffer/push b ";K") (each k (keys t) (buffer/push b (kc k)))
  (buffer/push b ";V") (each v (values t) (buffer/push b (vc v)))
  (buffer/push b ";Q") (each pr (pairs t) (if (and (tuple? pr) (= 2 (length pr)))
                                            (buffer/push b (kc (pr 0)) (vc (pr 1)))
                                            (buffer/push b "??")))
  (def kv (kvs t))
  (buffer/push b ";X")
  (var i 0)
  (each x kv (buffer/push b (if (even? i) (kc x) (vc x))) (++ i))
  (buffer/push b ";Z")
  (when full
    (def s (table/to-struct t))
    (buffer/push b ";S" (string (length s)) ",")
    (each k PROBES (buffer/push b (vc (get s k))))
    (buffer/push b ",")
    (walk-into b s ((verif/table-info s) :capacity))
    (buffer/push b ",")
    (def s2 (struct ;kv))
    (def rev @[])
    (loop [j :down-to [(- (length kv) 2) 0] :when (even? j)] (array/push rev (kv j) (kv (+ j 1))))
    (def s3 (struct ;rev))
    (buffer/push b (if (= s s2) "t" "f") (if (= s s3) "t" "f") (if (= (hash s) (hash s3)) "t" "f"))
    (def s4 (table/to-struct t PS))
    (buffer/push b ";T")
    (each k PROBES (buffer/push b (vc (get s4 k))))
    (buffer/push b ",")
    (each k PROBES (buffer/push b (vc (struct/rawget s4 k))))
    (buffer/push b "," (if (= s4 (struct/with-proto PS ;rev)) "t" "f"))
    (buffer/push b ";F")
    (eachp [k v] (table/proto-flatten t) (buffer/push b (kc k) (vc v)))
    (def tt (struct/to-table s))
    (def ti (verif/table-info tt))
    (buffer/push b ";U" (string (length tt)) "c" (string (ti :count)) "d" (string (ti :deleted)) "C" (string (ti :capacity)))
    # struct prototypes: flatten, and recursive conversion back to tables
    (buffer/push b ";Y")
    (eachp [k v] (struct/proto-flatten s4) (buffer/push b (kc k) (vc v)))
    (def t4 (struct/to-table s4 true))
    (buffer/push b ",")
    (each k PROBES (buffer/push b (vc (get t4 k))))
    (buffer/push b ",")
    (each k PROBES (buffer/push b (vc (table/rawget t4 k))))
    (buffer/push b "," (string (length t4))))
  (string b))

(defn run-op [t op]
  # returns [status table]
  (def r (protect (apply-op t op)))
  (if (r 0) ["ok" (r 1)] ["ERR" t]))

(batch-run
  (fn [item]
    (def [root hist succs flags] item)
    (def full (not= 0 (band flags 1)))
    (def with-clone (not= 0 (band flags 2)))
    (make-pools)
    (def out @"")
    (def base (build root hist))
    (def obs0 (observe base full))
    (buffer/push out obs0)
    (when (> (length item) 4)
      (def [aroot ahist] (item 4))
      (def ab (build aroot ahist))
      (buffer/push out "|ALT " (observe ab full)))
    (each op succs
      (def t (build root hist))
      (def [st t2] (run-op t op))
      (def o (observe t2 full))
      (buffer/push out "|" st " " o)
      (when with-clone
        (def c (table/clone base))
        (def [st2 c2] (run-op c op))
        (def oc (observe c2 full))
        (when (or (not= oc o) (not= st st2))
          (buffer/push out "|CLONEDIFF " st2 " " oc)))
      (when (> (length item) 4)
        (def [aroot ahist] (item 4))
        (def [st3 a2] (run-op (build aroot ahist) op))
        (def oa (observe a2 full))
        (when (or (not= oa o) (not= st st3))
          (buffer/push out "|ALTDIFF " st3 " " oa))))
    (when with-clone
      (def again (observe base full))
      (when (not= again obs0)
        (buffer/push out "|BASECHANGED " again)))
    (string out)))
