# C04 sequence driver (arrays and buffers). One batch item = one state (root
# form + history) and a list of successor operations. It only reports; all
# expectations live in model.py / seqcheck.py.
#
# item: [root hist succs]
#   root : a form that is evaluated to make the fresh object, e.g. (array/new 3)
#   op   : [flag fn arg...]   fn is a symbol naming the function to call;
#          args are data; the symbols self / nan / inf / -inf stand for the
#          object under test, NaN and the infinities; a parenthesised tuple is
#          evaluated (e.g. (int/u64 "5"), (buffer "xyz")).
#          flag 1: apply to a fresh replay of the history; flag 0: apply to the
#          shared base object (operations the model says do not change it).
# output: <state0>|<outcome>;<state or =>|...
#   state   = <count>,<capacity>,<contents>
#   outcome = E (raised) or R<encoded result>
(use prelude)

(def FN @{})
(defn resolve [sym]
  (or (in FN sym)
      (let [f (eval sym)] (put FN sym f) f)))

(defn hex-into [b bytes]
  (each c bytes (buffer/format b "%02x" c)))

(defn enc-into [b x obj]
  (case (type x)
    :nil (buffer/push b "n")
    :boolean (buffer/push b (if x "T" "F"))
    :number (buffer/push b (canon-num x))
    :keyword (buffer/push b ":" x)
    :string (do (buffer/push b "s") (hex-into b x))
    :symbol (do (buffer/push b "y") (hex-into b x))
    :buffer (if (= x obj) (buffer/push b "S") (do (buffer/push b "b") (hex-into b x)))
    :array (if (= x obj)
             (buffer/push b "S")
             (do (buffer/push b "[")
               (var first true)
               (each v x (if first (set first false) (buffer/push b ".")) (enc-into b v obj))
               (buffer/push b "]")))
    :tuple (do (buffer/push b "(")
             (var first true)
             (each v x (if first (set first false) (buffer/push b ".")) (enc-into b v obj))
             (buffer/push b ")"))
    (buffer/push b "?" (string (type x)))))

(defn state-string [obj]
  (def b @"")
  (def [c cap] (verif/array-info obj))
  (buffer/push b (string c) "," (string cap) ",")
  (if (buffer? obj)
    (for i 0 c (buffer/format b "%02x" (in obj i)))
    (for i 0 c (when (> i 0) (buffer/push b ".")) (enc-into b (in obj i) nil)))
  (string b))

(defn arg-of [x obj]
  (cond
    (= x 'self) obj
    (= x 'nan) math/nan
    (= x 'inf) math/inf
    (= x '-inf) math/-inf
    (and (tuple? x) (= :parens (tuple/type x))) (eval x)
    x))

(defn apply-op [obj op]
  (def f (resolve (op 1)))
  (def args (seq [i :range [2 (length op)]] (arg-of (op i) obj)))
  (f ;args))

(defn build [root hist]
  (def obj (eval root))
  # a history step may be one that raises after a partial effect (e.g. a bad
  # second argument of buffer/push): the effect is part of the state
  (each op hist (protect (apply-op obj op)))
  obj)

(batch-run
  (fn [item]
    (def [root hist succs] item)
    (def out @"")
    (def base (build root hist))
    (def s0 (state-string base))
    (buffer/push out s0)
    (each op succs
      (def obj (if (= 1 (op 0)) (build root hist) base))
      (def r (protect (apply-op obj op)))
      (buffer/push out "|")
      (if (r 0)
        (do (buffer/push out "R") (enc-into out (r 1) obj))
        (buffer/push out "E"))
      (def s (state-string obj))
      (buffer/push out ";" (if (= s s0) "=" s)))
    (string out)))
