"""C04, arrays and buffers: BFS over (length, capacity) states of real arrays and
buffers; in every state the whole operation alphabet is applied with indices at
every boundary and ill-typed arguments, and compared with model.array_op /
model.buffer_op."""
import os
import sys
import time

from core import *  # noqa: F401,F403
import model as M
import core as _core
JOBS = _core.JOBS
from model import SELF, KwV, SymV, BufV, TupV, INT_MAX, INT_MIN

HERE = os.path.dirname(os.path.abspath(__file__))
DRV = os.path.join(HERE, "driver_seq.janet")
NAN = float("nan")
INF = float("inf")


# ---------------------------------------------------------------------------
# rendering model values as Janet data (items) and as Janet source (replays)

def _jstr(b):
    if isinstance(b, str):
        b = b.encode()
    out = ['"']
    for c in b:
        if c == 34:
            out.append('\\"')
        elif c == 92:
            out.append("\\\\")
        elif 32 <= c < 127:
            out.append(chr(c))
        else:
            out.append("\\x%02x" % c)
    out.append('"')
    return "".join(out)


class Form(object):
    """an argument given as a Janet form to evaluate, with its model value"""

    def __init__(self, src, value):
        self.src = src
        self.value = value


def mval(v):
    return v.value if isinstance(v, Form) else v


def render(v, replay=False):
    if isinstance(v, Form):
        return v.src
    if v is SELF:
        return "a" if replay else "self"
    if v is None:
        return "nil"
    if v is True:
        return "true"
    if v is False:
        return "false"
    if isinstance(v, KwV):
        return ":" + v
    if isinstance(v, SymV):
        return ("'" if replay else "") + v
    if isinstance(v, BufV):
        return "@" + _jstr(bytes(v))
    if isinstance(v, (bytes, str)):
        return _jstr(v)
    if isinstance(v, float):
        if v != v:
            return "math/nan" if replay else "nan"
        if v == INF:
            return "math/inf" if replay else "inf"
        if v == -INF:
            return "math/-inf" if replay else "-inf"
        return repr(v)
    if isinstance(v, int):
        return str(v)
    if isinstance(v, TupV):
        return "[" + " ".join(render(x, replay) for x in v) + "]"
    if isinstance(v, list):
        return "@[" + " ".join(render(x, replay) for x in v) + "]"
    raise TypeError(repr(v))


def op_item(flag, fn, args):
    return "[%d %s %s]" % (flag, fn, " ".join(render(a) for a in args))


def op_src(fn, args):
    return "(%s %s)" % (fn, " ".join(render(a, True) for a in args))


# ---------------------------------------------------------------------------
# alphabets

BADIDX = [INT_MAX, INT_MIN, 2 ** 31, 1.5, NAN, KwV("k"), "1", INF]


def idx_set(n, full):
    if full:
        return list(range(-(n + 2), n + 3))
    s = set([-(n + 2), -(n + 1), -n, -(n - 1), -2, -1, 0, 1, 2, n - 2, n - 1, n, n + 1, n + 2])
    return sorted(s)


def array_alphabet(A, cap, full):
    """list of (fn, args, hazard). args[0] is always SELF unless stated."""
    n = len(A)
    ints = [x for x in A if isinstance(x, int)]
    f1 = (max(ints) + 1) if ints else 1
    f2, f3 = f1 + 1, f1 + 2
    IDX = idx_set(n, full)
    ops = []

    def add(fn, *args, **kw):
        ops.append((fn, [SELF] + list(args), kw.get("hazard", False)))

    add("length")
    add("array/peek")
    for k in [None] + IDX + BADIDX:
        add("next", k)
    for i in IDX + BADIDX + [None]:
        add("get", i)
        add("get", i, KwV("d"))
        add("in", i)
    sl = [None] + IDX
    for s in sl:
        for e in sl:
            add("array/slice", s, e)
    for b in BADIDX:
        add("array/slice", b)
        add("array/slice", 0, b)
    add("array/slice")
    add("array/slice", 1)
    add("array/slice", -1)
    bs = [None] + idx_set(n, False)
    for s in bs:
        for e in bs:
            add("tuple/slice", s, e)
    # mutators
    add("array/push")
    add("array/push", f1)
    add("array/push", f1, f2)
    add("array/pop")
    for at in IDX + BADIDX + [None]:
        add("array/insert", at, f1)
        add("array/insert", at, f1, f2)
    for at in (0, n, -1, n + 1):
        add("array/insert", at)
    ops.append(("array/insert", [SELF], False))
    for at in IDX + BADIDX + [None]:
        add("array/remove", at)
    for at in IDX:
        for cnt in (0, 1, 2, n, n + 1, -1, 1.5, KwV("k")):
            add("array/remove", at, cnt)
    for at in sorted(set([0, 1, n - 1, n, -1])):
        # at + n overflows int32 when at >= 1: kept apart (crashes are isolated per operation)
        add("array/remove", at, INT_MAX, hazard=True)
    eight = TupV(range(f1, f1 + 8))
    for parts in ([], [TupV([])], [TupV([f1])], [TupV([f1, f2])], [[f1, f2, f3]], [SELF], [SELF, SELF], [f1], [None],
                  [TupV([f1]), f2, SELF], [eight], [KwV("k"), "s"]):
        add("array/concat", *parts)
    for parts in ([TupV([f1])], [SELF], [[f1], SELF], [f1], [TupV([f1]), f2], [TupV([f1]), KwV("k"), TupV([f2])]):
        add("array/join", *parts)
    add("array/fill")
    add("array/fill", f1)
    for c in sorted(set([-1, 0, 1, n, n + 1, cap, cap + 1, 2 * cap + 1])):
        for g in (1, 2, 3):
            add("array/ensure", c, g)
    for c in (1.5, KwV("k"), None, INT_MIN):
        add("array/ensure", c, 2)
    for g in (1.5, KwV("k"), None):
        add("array/ensure", cap + 1, g)
    for g in (0, -1):
        if cap >= 1:
            add("array/ensure", 1, g)             # capacity already enough: documented no-op
        add("array/ensure", cap + 1, g, hazard=True)
    add("array/trim")
    add("array/clear")
    for i in list(range(-1, n + 3)) + [INT_MAX, INT_MAX - 1, INT_MIN, 2 ** 31, 1.5, NAN, KwV("k"), None, "1"]:
        add("put", i, f1)
    add("put", n, None)
    if n:
        add("put", 0, None)
    return ops


def buffer_alphabet(B, cap, full):
    n = len(B)
    f1 = (n * 7 + 65) % 251
    f2 = (f1 + 1) % 251
    IDX = idx_set(n, full)
    ops = []

    def add(fn, *args, **kw):
        ops.append((fn, [SELF] + list(args), kw.get("hazard", False)))

    add("length")
    for k in [None] + idx_set(n, False) + BADIDX:
        add("next", k)
    for i in IDX + BADIDX + [None]:
        add("get", i)
        add("get", i, KwV("d"))
        add("in", i)
    sl = [None] + IDX
    for s in sl:
        for e in sl:
            add("buffer/slice", s, e)
    for b in BADIDX:
        add("buffer/slice", b)
        add("buffer/slice", 0, b)
    add("buffer/slice")
    for i in sorted(set([-1, 0, 1, 7, 8, 8 * n - 8, 8 * n - 1, 8 * n, 8 * n + 1])) + [2 ** 31, 2 ** 35, 1.5, NAN, KwV("k"), None, "1"]:
        for fn in ("buffer/bit", "buffer/bit-set", "buffer/bit-clear", "buffer/bit-toggle"):
            add(fn, i)
    # blit with the object as the source of a fresh destination
    bs = [None] + idx_set(n, False)
    for ds in (None, 0, 1, 3, 4, -1, -5):
        for ss in bs:
            ops.append(("buffer/blit", [Form('(buffer "wxyz")', BufV(b"wxyz")), SELF, ds, ss], False))
    for ss in bs:
        for se in bs:
            ops.append(("buffer/blit", [Form('(buffer "wxyz")', BufV(b"wxyz")), SELF, 1, ss, se], False))
    # mutators
    add("buffer/push-byte")
    add("buffer/push-byte", f1)
    add("buffer/push-byte", f1, f2)
    for x in (256 + f1, -1, INT_MAX, INT_MIN):
        add("buffer/push-byte", x)
    for x in (2 ** 31, 1.5, NAN, KwV("k"), None, "1"):
        add("buffer/push-byte", x)
        add("buffer/push-byte", f1, x)
    for x in (0, 1, 0x01020304, 0xFFFFFFFF):
        add("buffer/push-word", x)
    add("buffer/push-word", 1, 2)
    for x in (1.5, NAN, KwV("k"), None):
        add("buffer/push-word", x)
        add("buffer/push-word", 7, x)
    for parts in ([], [""], ["pq"], [KwV("kw")], [SymV("sy")], [BufV(b"bf")], [SELF], [SELF, SELF], ["p", SELF, "q"],
                  ["12345678"], [1], [None], ["p", 1], ["p", None]):
        add("buffer/push-string", *parts)
    for parts in ([], [f1], ["pq"], [f1, "pq", f2], [SELF], [f1, SELF], [300], [1.5], [None], [f1, TupV([1])],
                  ["pq", 1.5], [BufV(b"bf"), KwV("kw")]):
        add("buffer/push", *parts)
    for at in IDX + BADIDX + [None]:
        add("buffer/push-at", at, "PQ")
        add("buffer/push-at", at, f1)
    for at in idx_set(n, False):
        add("buffer/push-at", at)
        add("buffer/push-at", at, SELF)
        add("buffer/push-at", at, "P", SELF)
        add("buffer/push-at", at, "PQ", None)
        add("buffer/push-at", at, None)
        add("buffer/push-at", at, "PQRSTUVW")
    for order in (KwV("le"), KwV("be"), KwV("native")):
        add("buffer/push-uint16", order, 0x1234)
        add("buffer/push-uint32", order, 0x12345678)
        add("buffer/push-uint64", order, 0x0102030405)
        add("buffer/push-float32", order, 1.5)
        add("buffer/push-float64", order, -2.25)
    for fn, good in (("buffer/push-uint16", 1), ("buffer/push-uint32", 1), ("buffer/push-float32", 1.0), ("buffer/push-float64", 1.0)):
        add(fn, KwV("xx"), good)
        add(fn, 1, good)
        add(fn, KwV("le"), KwV("k"))
        add(fn, KwV("le"), None)
        add(fn, KwV("le"))
    for x in (65535, 0):
        add("buffer/push-uint16", KwV("le"), x)
    for x in (65536, -1, 1.5, NAN):
        add("buffer/push-uint16", KwV("le"), x)
    for x in (4294967295,):
        add("buffer/push-uint32", KwV("be"), x)
    for x in (4294967296, -1, 1.5, NAN):
        add("buffer/push-uint32", KwV("be"), x)
    for k in sorted(set([0, 1, 2, n - 1, n, n + 1])) + [INT_MAX, -1, INT_MIN, 1.5, NAN, KwV("k"), None]:
        add("buffer/popn", k)
    add("buffer/popn")
    add("buffer/clear")
    add("buffer/trim")
    add("buffer/fill")
    for x in (f1, 256 + f1, -1, 1.5, KwV("k")):
        add("buffer/fill", x)
    for i in list(range(-1, n + 3)) + [INT_MAX, INT_MAX - 1, INT_MIN, 2 ** 31, 1.5, NAN, KwV("k"), None, "1"]:
        add("put", i, f1)
    for v in (255, 256, -1, INT_MIN, 2 ** 31, 1.5, NAN, KwV("k"), None, "1"):
        add("put", 0, v)
        add("put", n, v)
    # blit into the object
    srcs = ["", "xyz", BufV(b"pq"), SELF, KwV("kw")]
    for src in srcs:
        add("buffer/blit", src)
        m = n if src is SELF else len(M.bytes_of(src, B))
        for ds in [None] + IDX + BADIDX[:5]:
            add("buffer/blit", src, ds)
        dsl = [None] + (IDX if (full and src in ("xyz",) or src is SELF and full) else idx_set(n, False))
        ssl = [None] + idx_set(m, full and m <= 4)
        for ds in dsl:
            for ss in ssl:
                add("buffer/blit", src, ds, ss)
        for ds in [None] + idx_set(n, False):
            for ss in ssl:
                for se in ssl:
                    add("buffer/blit", src, ds, ss, se)
        for b in BADIDX[:6]:
            add("buffer/blit", src, 0, b)
            add("buffer/blit", src, 0, 0, b)
    for bad in (1, None, TupV([1]), [1]):
        add("buffer/blit", bad)
        add("buffer/blit", bad, 0)
    ops.append(("buffer/blit", [SELF], False))
    ops.append(("buffer/blit", [SELF, "x", 0, 0, 0, 0], False))
    return ops


# ---------------------------------------------------------------------------

def contents_text(kind, A):
    if kind == "array":
        return ".".join(M.enc(x) for x in A)
    return M.hexs(A)


def expect(kind, A, cap, fn, args):
    """-> (outcome text, A2, capspec, raised)"""
    margs = [mval(a) for a in args]
    f = M.array_op if kind == "array" else M.buffer_op
    try:
        r, A2, cs = f(A, fn, margs)
        return "R" + M.enc(r), A2, cs, False
    except M.Raise:
        return "E", A, M.SAME, True
    except M.Partial as p:
        return "E", p.state, ("need", p.need), True


def cap_ok(kind, cs, cap, cap2, n2):
    if cs[0] == "need":
        if cs[1] <= cap:
            return cap2 == cap
        return cap2 >= cs[1]
    if cs[0] == "trim":
        if kind == "array":
            return cap2 == n2
        return cap2 == (max(n2, 4) if n2 < cap else cap)
    raise ValueError(cs)


def unchanged(kind, A, A2, cs, cap):
    if list(A2) != list(A) if kind == "array" else bytes(A2) != bytes(A):
        return False
    if cs[0] == "need":
        return cs[1] <= cap
    if cs[0] == "trim":
        n = len(A)
        return (cap == n) if kind == "array" else not (n < cap and max(n, 4) != cap)
    return False


class SState(object):
    __slots__ = ("root", "hist", "A", "cap", "depth")

    def __init__(self, root, hist, A, cap, depth):
        self.root, self.hist, self.A, self.cap, self.depth = root, hist, A, cap, depth


def replay_text(kind, st, fn, args, exp_out, exp_state, got):
    L = ["(def a %s)" % st.root]
    for (hfn, hargs) in st.hist:
        L.append(op_src(hfn, hargs))
    L.append("(printf \"before: %q\" a)")
    L.append("(def r (protect %s))" % op_src(fn, args))
    L.append("(printf \"%s -> %%q\" (if (r 0) (if (= (r 1) a) :self (r 1)) :raised))" % op_src(fn, args).replace('"', "'").replace("%", "%%"))
    L.append("(printf \"after:  %q\" a)")
    L.append("# expected outcome %s (E = raises, R<value>, S = the object itself); expected state %s" % (exp_out, exp_state))
    L.append("# observed: %s" % got[:400])
    return "\n".join(L) + "\n"


def parse_state(kind, s):
    n, cap, txt = s.split(",", 2)
    return int(n), int(cap), txt


_SW = {}


def _seq_worker(task):
    """task: list of SState. Expands every state: builds the items, runs the driver,
    judges every result. Returns one record per state."""
    kind, variant, nfull, lmax, cmax = _SW["kind"], _SW["variant"], _SW["nfull"], _SW["lmax"], _SW["cmax"]
    alphabet = array_alphabet if kind == "array" else buffer_alphabet
    batch = []
    recs = []
    isolations = [0]
    for si, st in enumerate(task):
        rec = dict(viol=[], succ=[], nevals=0, outcomes=set(), hazards=[])
        recs.append(rec)
        full = len(st.A) <= nfull
        plain, mut = [], []
        for fn, args, hz in alphabet(st.A, st.cap, full):
            if hz:
                rec["hazards"].append((fn, args))
                continue
            ex = expect(kind, st.A, st.cap, fn, args)
            if unchanged(kind, st.A, ex[1], ex[2], st.cap):
                plain.append((0, fn, args, ex))
            else:
                mut.append((1, fn, args, ex))
        succ = plain + mut
        hist_txt = " ".join(op_item(1, f, a) for f, a in st.hist)
        for i in range(0, len(succ), 500):
            chunk = succ[i:i + 500]
            batch.append((si, chunk, "[%s [%s] [%s]]" % (st.root, hist_txt, " ".join(op_item(fl, f, a) for fl, f, a, _ in chunk))))
    res = run_batch(variant, DRV, [b[2] for b in batch], chunk=max(1, len(batch)), jobs=1, timeout=90)
    for (si, chunk, _), (status, text) in zip(batch, res):
        st = task[si]
        rec = recs[si]
        s0 = None
        if status in ("CRASH", "TIMEOUT"):
            # isolate the operation(s) that kill the process: the same operations as single-operation
            # items in one batch (the batch runner restarts after each dead item). Bounded per task so
            # that a tree on which everything crashes still terminates quickly.
            if isolations[0] >= 3:
                rec["viol"].append(("unattributed", [], "the interpreter process died (%s) while evaluating %d operations of this state (not isolated): %s" % (
                    status, len(chunk), text[-300:].replace("\n", " ")), "-", "-", status, "process-dies"))
                continue
            isolations[0] += 1
            hist_txt = " ".join(op_item(1, f, a) for f, a in st.hist)
            singles = ["[%s [%s] [%s]]" % (st.root, hist_txt, op_item(1, f, a)) for fl, f, a, _ in chunk]
            sres = run_batch(variant, DRV, singles, chunk=len(singles), jobs=1, timeout=60)
            parts = []
            for (fl, fn, args, ex), (s2, t2) in zip(chunk, sres):
                if s2 in ("CRASH", "TIMEOUT"):
                    parts.append(None)
                    rec["viol"].append((fn, args, "the interpreter process died (%s): %s" % (s2, t2[-300:].replace("\n", " ")),
                                        ex[0], "-", s2, "process-dies"))
                elif s2 != "OK":
                    raise HarnessError("C04 seq: driver error %s" % t2[:300])
                else:
                    s0, p = t2.split("|", 1)
                    parts.append(p)
            # single-operation items always replay: judge them as fresh (flag 1)
            chunk = [(1, f, a, ex) for fl, f, a, ex in chunk]
        elif status != "OK":
            raise HarnessError("C04 seq: driver error on %s: %s" % (st.root, text[:400]))
        else:
            pp = text.split("|")
            s0, parts = pp[0], pp[1:]
            if len(parts) != len(chunk):
                raise HarnessError("C04 seq: %d results for %d operations" % (len(parts), len(chunk)))
        if s0 is not None:
            n0, cap0, txt0 = parse_state(kind, s0)
            if (n0, cap0) != (len(st.A), st.cap) or txt0 != contents_text(kind, st.A):
                raise HarnessError("C04 seq: replay of %s %s gives %s, recorded %d,%d,%s" % (
                    st.root, st.hist, s0, len(st.A), st.cap, contents_text(kind, st.A)))
        polluted = False
        keys = set()
        for (fl, fn, args, ex), part in zip(chunk, parts):
            if part is None:
                continue
            rec["nevals"] += 1
            if polluted and fl == 0:
                continue
            v, r = judge(kind, st, s0, fn, args, part, ex, rec["outcomes"])
            if v is not None:
                rec["viol"].append(v)
                if fl == 0:
                    polluted = True      # later shared-object results are not trustworthy
            if r is None:
                continue
            A2, cap2 = r
            key = (len(A2), cap2)
            if key not in keys and len(A2) <= lmax and cap2 <= cmax:
                keys.add(key)
                rec["succ"].append((fn, args, A2, cap2))
    return recs


def judge(kind, st, s0, fn, args, part, ex, outcomes):
    """part: 'outcome;state'. Returns (violation or None, successor (A2, cap2) or None)."""
    exp_out, A2, cs, raised = ex
    try:
        out, stt = part.split(";", 1)
    except ValueError:
        raise HarnessError("C04 seq: bad driver output %r" % part[:200])
    if stt == "=":
        stt = s0
    n2, cap2, txt = parse_state(kind, stt)
    exp_txt = contents_text(kind, A2)
    outcomes.add((fn, out[:1], exp_out[:1], n2 - len(st.A)))
    if fn == "array/ensure" and not raised and M.is_int32(mval(args[2])) and mval(args[2]) <= 0 and mval(args[1]) > st.cap:
        # growth <= 0 although the capacity must grow: no sensible result exists. Accepted: "raises,
        # unchanged"; anything else (in particular a dead process) is reported.
        if out == "E" and stt == s0:
            return None, None
        exp_out = "E"
    exp_state = "%d,?,%s" % (len(A2), exp_txt)
    if out != exp_out:
        klass = "raises-instead-of-value" if out == "E" else ("value-instead-of-raise" if exp_out == "E" else "wrong-result")
        return (fn, args, "outcome %s, expected %s" % (out, exp_out), exp_out, exp_state, part, klass), None
    if n2 != len(A2) or txt != exp_txt:
        return (fn, args, "state afterwards %s, expected %s" % (stt, exp_state), exp_out, exp_state, part,
                "wrong-state-after-error" if raised else "wrong-state"), None
    if not cap_ok(kind, cs, st.cap, cap2, n2) or cap2 < n2:
        return (fn, args, "capacity %d -> %d with length %d (rule %s)" % (st.cap, cap2, n2, cs), exp_out, exp_state, part,
                "capacity-rule"), None
    return None, (A2, cap2)


def bfs(chk, kind, variant, roots, lmax, cmax, nfull, deadline, name):
    import multiprocessing
    t0 = time.time()
    seen = {}
    states = []
    nviol = [0]
    nevals = 0
    outcomes = set()
    hazards = []
    vjanet(variant)
    _SW.clear()
    _SW.update(kind=kind, variant=variant, nfull=nfull, lmax=lmax, cmax=cmax)

    def report(st, v):
        fn, args, what, exp_out, exp_state, got, klass = v
        nviol[0] += 1
        sig = "%s:%s:%s" % (kind, fn, klass)
        text = "[%s] %s after %s %s : %s" % (name, op_src(fn, args), st.root, " ".join(op_src(f, a) for f, a in st.hist), what)
        chk.violation(sig=sig, what=text, replay_text=replay_text(kind, st, fn, args, exp_out, exp_state, got),
                      replay_cmd="janet <file>")

    # roots
    items = ["[%s [] []]" % r[0] for r in roots]
    res = run_batch(variant, DRV, items, chunk=max(1, len(items)), jobs=1)
    level = []
    for (rform, rA), (status, text) in zip(roots, res):
        if status != "OK":
            raise HarnessError("C04 seq root %s: %s %s" % (rform, status, text[-300:]))
        n, cap, txt = parse_state(kind, text)
        st = SState(rform, (), rA, cap, 0)
        if n != len(rA) or txt != contents_text(kind, rA) or cap < n:
            report(st, ("root", [], "fresh object is %s, expected %d,>=%d,%s" % (text, len(rA), len(rA), contents_text(kind, rA)),
                        "-", "-", text, "constructor"))
            continue
        key = (n, cap)
        if key not in seen:
            seen[key] = len(states)
            states.append(st)
            level.append(st)
    depth = 0
    completed = True
    pool = multiprocessing.get_context("fork").Pool(JOBS)
    try:
        while level:
            depth += 1
            per = max(1, (len(level) + JOBS * 3 - 1) // (JOBS * 3))
            tasks = [level[i:i + per] for i in range(0, len(level), per)]
            new_level = []
            for task, recs in zip(tasks, pool.imap(_seq_worker, tasks)):
                for st, rec in zip(task, recs):
                    nevals += rec["nevals"]
                    outcomes |= rec["outcomes"]
                    for v in rec["viol"]:
                        report(st, v)
                    for fn, args in rec["hazards"]:
                        hazards.append((st, fn, args))
                    for fn, args, A2, cap2 in rec["succ"]:
                        key = (len(A2), cap2)
                        if key not in seen:
                            seen[key] = len(states)
                            ns = SState(st.root, st.hist + ((fn, args),), A2, cap2, depth)
                            states.append(ns)
                            new_level.append(ns)
            sys.stderr.write("  [%s] level %d: %d new states, %d total, %d evaluations, %.1fs\n" % (
                name, depth, len(new_level), len(states), nevals, time.time() - t0))
            level = new_level
            if level and time.time() > deadline:
                completed = False
                chk.cap("%s: stopped after level %d with %d states unexpanded" % (name, depth, len(level)))
                break
    finally:
        pool.terminate()
        pool.join()
    # hazard operations: one process each, on a bounded number of states
    hz_done = 0
    if hazards:
        pick = [h for h in hazards if len(h[0].A) <= 3 and h[0].cap <= 8]
        singles = ["[%s [%s] [%s]]" % (st.root, " ".join(op_item(1, f, a) for f, a in st.hist), op_item(1, fn, args))
                   for st, fn, args in pick]
        sres = run_batch(variant, DRV, singles, chunk=1, timeout=60)
        for (st, fn, args), (s2, t2) in zip(pick, sres):
            hz_done += 1
            nevals += 1
            ex = expect(kind, st.A, st.cap, fn, args)
            if s2 in ("CRASH", "TIMEOUT"):
                outcomes.add((fn, "X", "-", 0))
                report(st, (fn, args, "the interpreter process died (%s): %s" % (s2, t2[-300:].replace("\n", " ")),
                            ex[0], "-", s2, "process-dies"))
            elif s2 != "OK":
                raise HarnessError("C04 seq: driver error %s" % t2[:300])
            else:
                s0, p = t2.split("|", 1)
                v, _ = judge(kind, st, s0, fn, args, p, ex, outcomes)
                if v is not None:
                    report(st, v)
    chk.add(states=len(states), transitions=nevals, evaluations=nevals)
    for o in outcomes:
        chk.outcome("%s %s" % (name, o))
    lens = sorted(set(k[0] for k in seen))
    caps = sorted(set(k[1] for k in seen))
    chk.part(name, states=len(states), evaluations=nevals, levels=depth, closed=completed, variant=variant,
             max_length=lmax, max_capacity=cmax, full_index_sets_up_to_length=nfull, lengths_seen=str(lens),
             capacities_seen=str(caps), isolated_hazard_ops=hz_done, violations=nviol[0],
             wall_s=round(time.time() - t0, 1), distinct_outcome_classes=len(outcomes))
    if states:
        s = states[len(states) // 2]
        chk.sample({"part": name, "middle_state": "%s %s" % (s.root, " ".join(op_src(f, a) for f, a in s.hist)),
                    "contents": contents_text(kind, s.A), "capacity": s.cap})
    return "%s %s (len<=%d cap<=%d)" % (name, "closed" if completed else "level %d" % depth, lmax, cmax)


ARRAY_ROOTS = [("@[]", []), ("(array)", []), ("(array/new 0)", []), ("(array/new 1)", []), ("(array/new 3)", []),
               ("(array/new 8)", []), ("(array 0 1 2)", [0, 1, 2]), ("(array/new-filled 2 7)", [7, 7]),
               ("(array/new-filled 0)", []), ("(array/new-filled 3)", [None, None, None]),
               ("(array/slice [0 1 2 3 4] 1 4)", [1, 2, 3]), ("(array/concat @[] [0 1 2 3 4 5 6 7 8])", list(range(9)))]
BUFFER_ROOTS = [('@""', b""), ("(buffer)", b""), ("(buffer/new 0)", b""), ("(buffer/new 1)", b""), ("(buffer/new 5)", b""),
                ("(buffer/new 9)", b""), ("(buffer/new-filled 3 65)", b"AAA"), ("(buffer/new-filled 0 65)", b""),
                ("(buffer/new-filled 5)", b"\0" * 5), ("(buffer/new-filled -1 65)", b""), ('(buffer "abc")', b"abc"),
                ("(buffer/from-bytes 1 2 3 4 5)", bytes([1, 2, 3, 4, 5])), ('(buffer/slice "abcdefgh" 1 7)', b"bcdefg"),
                ("(buffer/from-bytes 257 -1)", bytes([1, 255]))]


def run(chk, T0, budget):
    quick = chk.quick
    only = chk.args.only
    out = []
    plan = []
    if quick:
        plan = [("array", "asan", ARRAY_ROOTS, 18, 40, 5, 0.17, "seq-array"),
                ("buffer", "asan", BUFFER_ROOTS, 18, 40, 4, 0.17, "seq-buffer")]
    else:
        plan = [("array", "asan", ARRAY_ROOTS, 34, 72, 9, 0.12, "seq-array"),
                ("buffer", "asan", BUFFER_ROOTS, 34, 72, 6, 0.12, "seq-buffer"),
                ("array", "fast", ARRAY_ROOTS, 18, 40, 5, 0.03, "seq-array-fast"),
                ("buffer", "fast", BUFFER_ROOTS, 18, 40, 4, 0.03, "seq-buffer-fast")]
    for kind, variant, roots, lmax, cmax, nfull, share, name in plan:
        if only and not (name.startswith(only) or only == "seq"):
            continue
        out.append(bfs(chk, kind, variant, roots, lmax, cmax, nfull, time.time() + budget * share, name))
    return out
