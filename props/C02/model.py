"""Reference semantics for the enumerated core subset of Janet (property C02).

A small reader (text -> AST), a renderer (AST -> program text + source positions of
every parenthesised form), the canonical printer used by the driver (`canon` of
engine/drv/prelude.janet re-implemented), and a tree-walking evaluator that gives
for one program: the value of its last top-level form (or the error payload and the
source form the error must be attributed to), the values passed to `obs`, and the
ordered trace of the tracer `t`.

The evaluator implements the *documented* rules: strict left-to-right evaluation,
the value of a variable reference is its value at the time the reference is
evaluated, lexical scoping resolved at closure creation, a fresh scope per loop
iteration, and the core macros by their docstrings (not by expansion).

stdlib only.  Independent of the interpreter under test.
"""
import sys

sys.setrecursionlimit(20000)


# --------------------------------------------------------------------------
# values (also used as AST)

class Kw(object):
    __slots__ = ("n",)
    _tab = {}

    def __new__(cls, n):
        o = cls._tab.get(n)
        if o is None:
            o = object.__new__(cls)
            o.n = n
            cls._tab[n] = o
        return o

    def __repr__(self):
        return ":" + self.n


class Sym(object):
    __slots__ = ("n",)
    _tab = {}

    def __new__(cls, n):
        o = cls._tab.get(n)
        if o is None:
            o = object.__new__(cls)
            o.n = n
            cls._tab[n] = o
        return o

    def __repr__(self):
        return self.n


class Tup(object):
    """tuple; b = bracketed"""
    __slots__ = ("v", "b")

    def __init__(self, v, b=False):
        self.v = tuple(v)
        self.b = b

    def __repr__(self):
        return rtext(self)


class Struct(object):
    __slots__ = ("d",)

    def __init__(self, pairs=()):
        self.d = {}
        for k, v in pairs:
            if k is None or v is None:
                continue
            self.d[hk(k)] = (k, v)


class Arr(object):
    __slots__ = ("v",)

    def __init__(self, v=()):
        self.v = list(v)


class Tab(object):
    __slots__ = ("d",)

    def __init__(self, pairs=()):
        self.d = {}
        for k, v in pairs:
            if k is None or v is None:
                continue
            self.d[hk(k)] = (k, v)


class Closure(object):
    __slots__ = ("name", "params", "body", "head", "node", "spec")


class Builtin(object):
    __slots__ = ("name", "fn")

    def __init__(self, name, fn):
        self.name = name
        self.fn = fn


class Raw(object):
    """an expression given as source text (constructs the reader/evaluator here do not cover)"""
    __slots__ = ("text",)

    def __init__(self, text):
        self.text = text


class Opaque(object):
    """A value whose text the model does not predict (VM error messages)."""
    __slots__ = ()


OPAQUE = Opaque()
OBS_SENTINEL = Kw("%obs")


def S(n):
    return Sym(n)


def K(n):
    return Kw(n)


def P(*items):
    return Tup(items, False)


def B(*items):
    return Tup(items, True)


def isnum(x):
    t = type(x)
    return t is int or t is float


def hk(v):
    """hashable key such that hk(a)==hk(b) iff Janet (= a b)"""
    t = type(v)
    if v is None:
        return ("n",)
    if t is bool:
        return ("b", v)
    if t is int or t is float:
        return ("#", v)
    if t is str:
        return ("s", v)
    if t is Kw or t is Sym:
        return v
    if t is Tup:
        return ("t", v.b, tuple(hk(x) for x in v.v))
    if t is Struct:
        return ("S", frozenset((k, hk(val[1])) for k, val in v.d.items()))
    return ("id", id(v))


def jeq(a, b):
    return hk(a) == hk(b)


def truthy(v):
    return not (v is None or v is False)


# --------------------------------------------------------------------------
# reader (for templates; Janet syntax subset)

_DELIM = set("()[]{}\"'~,;@ \t\n")


class Hole(object):
    __slots__ = ("name",)

    def __init__(self, name):
        self.name = name


def read_all(text):
    pos = [0]
    n = len(text)

    def skip():
        while pos[0] < n:
            c = text[pos[0]]
            if c in " \t\n":
                pos[0] += 1
            elif c == "#":
                while pos[0] < n and text[pos[0]] != "\n":
                    pos[0] += 1
            else:
                break

    def seq(close):
        out = []
        while True:
            skip()
            if pos[0] >= n:
                raise ValueError("unterminated " + close)
            if text[pos[0]] == close:
                pos[0] += 1
                return out
            out.append(one())

    def one():
        skip()
        c = text[pos[0]]
        if c == "(":
            pos[0] += 1
            return Tup(seq(")"), False)
        if c == "[":
            pos[0] += 1
            return Tup(seq("]"), True)
        if c == "{":
            pos[0] += 1
            xs = seq("}")
            return Struct(zip(xs[0::2], xs[1::2]))
        if c == "@":
            c2 = text[pos[0] + 1]
            pos[0] += 2
            if c2 == "[" or c2 == "(":
                return Arr(seq("]" if c2 == "[" else ")"))
            if c2 == "{":
                xs = seq("}")
                return Tab(zip(xs[0::2], xs[1::2]))
            raise ValueError("bad @")
        if c in "'~,;":
            pos[0] += 1
            name = {"'": "quote", "~": "quasiquote", ",": "unquote", ";": "splice"}[c]
            return Tup((Sym(name), one()), False)
        if c == '"':
            pos[0] += 1
            s = []
            while text[pos[0]] != '"':
                if text[pos[0]] == "\\":
                    pos[0] += 1
                s.append(text[pos[0]])
                pos[0] += 1
            pos[0] += 1
            return "".join(s)
        st = pos[0]
        while pos[0] < n and text[pos[0]] not in _DELIM:
            pos[0] += 1
        tok = text[st:pos[0]]
        if not tok:
            raise ValueError("unexpected %r at %d in %r" % (c, st, text))
        if tok == "nil":
            return None
        if tok == "true":
            return True
        if tok == "false":
            return False
        if tok[0] == ":":
            return Kw(tok[1:])
        if tok[0] == "$":
            return Hole(tok[1:])
        try:
            return int(tok)
        except ValueError:
            pass
        return Sym(tok)

    out = []
    while True:
        skip()
        if pos[0] >= n:
            return out
        out.append(one())


_read_cache = {}


def read(text):
    r = _read_cache.get(text)
    if r is None:
        xs = read_all(text)
        if len(xs) != 1:
            raise ValueError("expected one form: %r" % text)
        r = _read_cache[text] = xs[0]
    return r


_NOHOLE = {}     # id -> node, for (cached, immortal) template nodes known to contain no hole


def subst(x, m):
    """replace Hole objects by m[name] (objects are shared, not copied); hole-free
    subtrees of the template are returned as they are"""
    t = type(x)
    if t is Hole:
        return m[x.name]
    if t is Tup:
        if _NOHOLE.get(id(x)) is x:
            return x
        new = [subst(i, m) for i in x.v]
        for a, b in zip(new, x.v):
            if a is not b:
                return Tup(new, x.b)
        _NOHOLE[id(x)] = x
        return x
    if t is Arr:
        return Arr([subst(i, m) for i in x.v])
    if t is Struct:
        return Struct([(subst(k, m), subst(v, m)) for k, v in x.d.values()])
    if t is Tab:
        return Tab([(subst(k, m), subst(v, m)) for k, v in x.d.values()])
    return x


def T(text, **m):
    return subst(read(text), m)


# --------------------------------------------------------------------------
# renderer

BODY_HEADS = set(Sym(n) for n in (
    "do upscope while fn let when unless each eachk eachp for forv loop seq try defer edefer with "
    "if-let when-let defn repeat forever cond case generate coro label prompt match").split())

_SHORT = {Sym("quote"): "'", Sym("quasiquote"): "~", Sym("unquote"): ",", Sym("splice"): ";"}


def _str(s):
    out = ['"']
    for ch in s:
        c = ord(ch)
        if c == 34:
            out.append('\\"')
        elif c == 92:
            out.append("\\\\")
        elif 32 <= c < 127:
            out.append(ch)
        else:
            out.append("\\x%02x" % c)
    out.append('"')
    return "".join(out)


class Renderer(object):
    """Program text with every body-level form on its own line; records the
    (line, column) of every parenthesised tuple (the position Janet's parser
    attaches to it) and the first line of each node listed in `marks`."""

    def __init__(self, marks=()):
        self.out = []
        self.line = 1
        self.col = 1
        self.pos = {}
        self.marks = set(id(m) for m in marks)
        self.markline = {}

    def w(self, s):
        self.out.append(s)
        self.col += len(s)

    def nl(self):
        if self.col != 1:
            self.out.append("\n")
            self.line += 1
            self.col = 1

    def seq(self, items, parent_body):
        first = True
        for it in items:
            brk = (id(it) in self.marks) or (parent_body and type(it) is Tup and not it.b and not first)
            if brk:
                self.nl()
            elif not first:
                self.w(" ")
            self.node(it)
            if id(it) in self.marks:
                self.nl()
            first = False

    def node(self, x):
        t = type(x)
        if id(x) in self.marks and id(x) not in self.markline:
            self.markline[id(x)] = self.line
        if x is None:
            self.w("nil")
        elif x is True:
            self.w("true")
        elif x is False:
            self.w("false")
        elif t is int:
            self.w(str(x))
        elif t is float:
            self.w(repr(x))
        elif t is str:
            self.w(_str(x))
        elif t is Kw:
            self.w(":" + x.n)
        elif t is Sym:
            self.w(x.n)
        elif t is Tup:
            if x.b:
                self.w("[")
                self.seq(x.v, False)
                self.w("]")
            else:
                self.pos[id(x)] = (self.line, self.col)
                if len(x.v) == 2 and x.v[0] in _SHORT:
                    self.w(_SHORT[x.v[0]])
                    self.node(x.v[1])
                else:
                    self.w("(")
                    body = bool(x.v) and x.v[0] in BODY_HEADS
                    self.seq(x.v, body)
                    self.w(")")
        elif t is Raw:
            self.w(x.text)
        elif t is Arr:
            self.w("@[")
            self.seq(x.v, False)
            self.w("]")
        elif t is Struct or t is Tab:
            self.w("{" if t is Struct else "@{")
            flat = []
            for k, v in x.d.values():
                flat.append(k)
                flat.append(v)
            self.seq(flat, False)
            self.w("}")
        else:
            raise TypeError("cannot render %r" % (x,))

    def program(self, forms):
        for f in forms:
            self.nl()
            self.node(f)
        return "".join(self.out)


def rtext(x):
    r = Renderer()
    r.node(x)
    return "".join(r.out).replace("\n", " ")


# --------------------------------------------------------------------------
# canonical printer (mirror of engine/drv/prelude.janet `canon`)

def _hex(s):
    out = []
    for ch in s:
        c = ord(ch)
        if c == 34:
            out.append('\\"')
        elif c == 92:
            out.append("\\\\")
        elif 32 <= c < 127:
            out.append(ch)
        else:
            out.append("\\x%02x" % c)
    return "".join(out)


def canon_num(x):
    if x != x:
        return "nan"
    if x == float("inf"):
        return "inf"
    if x == float("-inf"):
        return "-inf"
    if x == int(x) and abs(x) < 1e15:
        return "%d" % int(x)
    return "%.17g" % x


def _rank(x):
    t = type(x)
    if x is None:
        return 0
    if t is bool:
        return 1
    if t is int or t is float:
        return 2
    if t is str:
        return 3
    if t is Sym:
        return 4
    if t is Kw:
        return 5
    if t is Tup:
        return 6
    if t is Struct:
        return 7
    if t is Arr:
        return 9
    if t is Tab:
        return 10
    return 11


def _sorted_pairs(d):
    ks = [(_rank(k), canon(k), k, v) for k, v in d.values()]
    ks.sort(key=lambda e: (e[0], e[1]))
    return [(e[2], e[3]) for e in ks]


def _canon_into(x, out, seen):
    t = type(x)
    if x is None:
        out.append("nil")
    elif t is bool:
        out.append("true" if x else "false")
    elif t is int or t is float:
        out.append(canon_num(x))
    elif t is str:
        out.append('"' + _hex(x) + '"')
    elif t is Sym:
        out.append("'" + _hex(x.n))
    elif t is Kw:
        out.append(":" + _hex(x.n))
    elif t is Tup:
        out.append("[" if x.b else "(")
        first = True
        for v in x.v:
            if not first:
                out.append(" ")
            first = False
            _canon_into(v, out, seen)
        out.append("]" if x.b else ")")
    elif t is Struct:
        out.append("{")
        first = True
        for k, v in _sorted_pairs(x.d):
            if not first:
                out.append(" ")
            first = False
            _canon_into(k, out, seen)
            out.append(" ")
            _canon_into(v, out, seen)
        out.append("}")
    elif t is Opaque:
        out.append("<?>")
    else:
        i = seen.get(id(x))
        if i is not None:
            out.append("#%d" % i)
            return
        i = len(seen)
        seen[id(x)] = i
        out.append("#%d=" % i)
        if t is Arr:
            out.append("@[")
            first = True
            for v in x.v:
                if not first:
                    out.append(" ")
                first = False
                _canon_into(v, out, seen)
            out.append("]")
        elif t is Tab:
            out.append("@{")
            first = True
            for k, v in _sorted_pairs(x.d):
                if not first:
                    out.append(" ")
                first = False
                _canon_into(k, out, seen)
                out.append(" ")
                _canon_into(v, out, seen)
            out.append("}")
        elif t is Closure:
            out.append("<fn %s>" % (x.name or "?"))
        else:
            raise Unsupported("canon of %r" % (x,))


def canon(x):
    out = []
    _canon_into(x, out, {})
    return "".join(out)


# --------------------------------------------------------------------------
# evaluator

class Unsupported(Exception):
    """program outside the modelled subset (generator bug or deliberate exclusion)"""


class JErr(Exception):
    def __init__(self, payload, node):
        Exception.__init__(self)
        self.payload = payload       # OPAQUE for errors raised by the VM / core library
        self.node = node             # source form the error is attributed to


class BreakExc(Exception):
    def __init__(self, value):
        Exception.__init__(self)
        self.value = value


class Spliced(object):
    __slots__ = ("v",)

    def __init__(self, v):
        self.v = v


_s = Sym
AMP, AMP_OPT, AMP_KEYS, AMP_NAMED = _s("&"), _s("&opt"), _s("&keys"), _s("&named")
SPLICE, UNQUOTE, QUASI = _s("splice"), _s("unquote"), _s("quasiquote")

TYPE_ORDER = {"number": 0, "nil": 1, "boolean": 2, "string": 4, "symbol": 5, "keyword": 6, "tuple": 8}


def _tname(x):
    t = type(x)
    if x is None:
        return "nil"
    if t is bool:
        return "boolean"
    if t is int or t is float:
        return "number"
    if t is str:
        return "string"
    if t is Sym:
        return "symbol"
    if t is Kw:
        return "keyword"
    if t is Tup:
        return "tuple"
    raise Unsupported("compare of %r" % (x,))


def jcompare(a, b):
    ta, tb = _tname(a), _tname(b)
    if ta != tb:
        return -1 if TYPE_ORDER[ta] < TYPE_ORDER[tb] else 1
    if ta == "nil":
        return 0
    if ta == "boolean" or ta == "number":
        return (a > b) - (a < b)
    if ta == "string":
        return (a > b) - (a < b)
    if ta in ("symbol", "keyword"):
        return (a.n > b.n) - (a.n < b.n)
    # tuple: element-wise, then length, (bracket flag ignored by compare? keep unsupported if flags differ)
    if a.b != b.b:
        raise Unsupported("compare tuples of different bracket type")
    for x, y in zip(a.v, b.v):
        c = jcompare(x, y)
        if c:
            return c
    return (len(a.v) > len(b.v)) - (len(a.v) < len(b.v))


GLOBALS = {}


def _install_globals():
    g = GLOBALS

    def reg(name, fn):
        g[Sym(name)] = Builtin(name, fn)

    def vmerr(node):
        raise JErr(OPAQUE, node)

    def b_t(m, a, node):
        if len(a) != 1:
            vmerr(node)
        m.trace.append(canon(a[0]))
        return a[0]

    def b_obs(m, a, node):
        for x in a:
            m.obs.append(canon(x))
        return OBS_SENTINEL

    def b_id(m, a, node):
        if len(a) != 1:
            vmerr(node)
        return a[0]

    def b_error(m, a, node):
        if len(a) != 1:
            vmerr(node)
        raise JErr(a[0], node)

    def b_tuple(m, a, node):
        return Tup(a, False)

    def b_array(m, a, node):
        return Arr(a)

    def b_length(m, a, node):
        if len(a) != 1:
            vmerr(node)
        x = a[0]
        t = type(x)
        if t is Tup or t is Arr:
            return len(x.v)
        if t is Struct or t is Tab:
            return len(x.d)
        if t is str:
            return len(x.encode("latin-1"))
        if t is Kw or t is Sym:
            return len(x.n)
        vmerr(node)

    def b_get(m, a, node):
        if len(a) not in (2, 3):
            vmerr(node)
        r = m.get(a[0], a[1], node)
        if r is None and len(a) == 3:
            return a[2]
        return r

    def b_in(m, a, node):
        if len(a) not in (2, 3):
            vmerr(node)
        r = m.jin(a[0], a[1], node)
        if r is None and len(a) == 3:
            return a[2]
        return r

    def b_put(m, a, node):
        if len(a) != 3:
            vmerr(node)
        m.put(a[0], a[1], a[2], node)
        return a[0]

    def b_push(m, a, node):
        if len(a) < 1 or type(a[0]) is not Arr:
            vmerr(node)
        a[0].v.extend(a[1:])
        return a[0]

    def b_not(m, a, node):
        if len(a) != 1:
            vmerr(node)
        return not truthy(a[0])

    def b_inc(m, a, node):
        if len(a) != 1 or not isnum(a[0]):
            vmerr(node)      # error is raised inside `inc` (a Janet function); see attribution note
        return a[0] + 1

    def b_dec(m, a, node):
        if len(a) != 1 or not isnum(a[0]):
            vmerr(node)
        return a[0] - 1

    reg("t", b_t)
    reg("obs", b_obs)
    reg("id", b_id)
    reg("error", b_error)
    reg("tuple", b_tuple)
    reg("array", b_array)
    reg("length", b_length)
    reg("get", b_get)
    reg("in", b_in)
    reg("put", b_put)
    reg("array/push", b_push)
    reg("not", b_not)
    for op in ("+", "-", "*"):
        reg(op, (lambda o: lambda m, a, node: m.arith(o, a, node))(op))
    for op in ("<", ">", "<=", ">=", "=", "not="):
        reg(op, (lambda o: lambda m, a, node: m.compare(o, a))(op))

    def b_apply(m, a, node):
        if len(a) < 1:
            vmerr(node)
        f = a[0]
        args = list(a[1:-1])
        if len(a) > 1:
            last = a[-1]
            if type(last) not in (Tup, Arr):
                vmerr(node)
            args.extend(last.v)
        return m.apply(f, args, node)

    reg("apply", b_apply)



_install_globals()


class Machine(object):
    MAXSTEPS = 40000

    def __init__(self):
        self.trace = []
        self.obs = []
        self.steps = 0
        self.globals = GLOBALS
        self.nfid = 0
        self.nslots = {}
        self.far_capture = False    # a closure referenced a local of an enclosing function whose slot is > 255
        self.keys_odd = False       # a &keys/&named function received an odd number of key/value arguments
        self.far_error = False      # inlined (error v) executed in a function with more than 240 locals
        self.far_rest = False       # [a & rest] destructuring executed in a function with more than 240 locals
        self.iflet_else = False     # error raised by macro-generated code inside the else branch of if-let

    # ---- scopes: persistent association list  (sym, cell, next)
    class Scope(object):
        __slots__ = ("head", "fid")

        def __init__(self, head, fid):
            self.head = head
            self.fid = fid          # function instance the scope belongs to (0 = top level)

        def child(self):
            return Machine.Scope(self.head, self.fid)

    FAR_LIMIT = 240     # locals 0..239 live in slots 0..239; 240..255 are reserved temporaries

    def newfn(self, head):
        """scope of a new function activation"""
        self.nfid += 1
        self.nslots[self.nfid] = 0
        return Machine.Scope(head, self.nfid)

    def define(self, sc, sym, val, mutable=False):
        fid = sc.fid
        if fid:
            n = self.nslots[fid]
            self.nslots[fid] = n + 1
            far = n >= self.FAR_LIMIT
        else:
            far = False
        sc.head = (sym, [val, fid, far, mutable], sc.head)
        return far

    def lookup(self, sc, sym):
        n = sc.head
        while n is not None:
            if n[0] is sym:
                c = n[1]
                if c[2] and c[1] != sc.fid:
                    self.far_capture = True
                return c
            if n[0] is _BLOCK:
                c = n[1].get(sym)
                if c is not None:
                    return c
            n = n[2]
        return None

    # ---- data access
    def get(self, ds, k, node):
        t = type(ds)
        if t is Tup or t is Arr:
            if isnum(k) and k == int(k) and 0 <= k < len(ds.v):
                return ds.v[int(k)]
            return None
        if t is Struct or t is Tab:
            r = ds.d.get(hk(k))
            return r[1] if r else None
        if ds is None:
            return None
        if t is str:
            b = ds.encode("latin-1")
            if isnum(k) and k == int(k) and 0 <= k < len(b):
                return b[int(k)]
            return None
        if t is Kw or t is Sym:
            b = ds.n.encode("latin-1")
            if isnum(k) and k == int(k) and 0 <= k < len(b):
                return b[int(k)]
            return None
        if t is bool or isnum(ds) or t is Closure or t is Builtin:
            # `get` on a non-indexable value returns nil
            return None
        raise Unsupported("get on %r" % (ds,))

    def getindex(self, ds, i, node):
        """JOP_GET_INDEX (positional destructuring)"""
        t = type(ds)
        if t is Tup or t is Arr:
            return ds.v[i] if i < len(ds.v) else None
        if t is Struct or t is Tab:
            r = ds.d.get(hk(i))
            return r[1] if r else None
        if t is str or t is Kw or t is Sym:
            b = (ds if t is str else ds.n).encode("latin-1")
            return b[i] if i < len(b) else None
        raise JErr(OPAQUE, node)

    def jin(self, ds, k, node):
        t = type(ds)
        if t is Tup or t is Arr:
            if isnum(k) and k == int(k) and 0 <= k < len(ds.v):
                return ds.v[int(k)]
            raise JErr(OPAQUE, node)
        if t is Struct or t is Tab:
            r = ds.d.get(hk(k))
            return r[1] if r else None
        if t is str or t is Kw or t is Sym:
            b = (ds if t is str else ds.n).encode("latin-1")
            if isnum(k) and k == int(k) and 0 <= k < len(b):
                return b[int(k)]
            raise JErr(OPAQUE, node)
        raise JErr(OPAQUE, node)

    def put(self, ds, k, v, node):
        t = type(ds)
        if t is Tab:
            if k is None:
                return          # a nil key is ignored
            if isnum(k) and k != k:
                raise Unsupported("nan key")
            if v is None:
                ds.d.pop(hk(k), None)
            else:
                ds.d[hk(k)] = (k, v)
            return
        if t is Arr:
            if not (isnum(k) and k == int(k) and 0 <= k < 2 ** 31 - 1):
                raise JErr(OPAQUE, node)
            k = int(k)
            if k > 1000:
                raise Unsupported("huge array put")
            while len(ds.v) <= k:
                ds.v.append(None)
            ds.v[k] = v
            return
        raise JErr(OPAQUE, node)

    def jnext(self, ds, k, node):
        t = type(ds)
        if t is Tup or t is Arr or t is str:
            n = len(ds.v) if t is not str else len(ds.encode("latin-1"))
            if k is None:
                return 0 if n > 0 else None
            if not (isnum(k) and k == int(k)):
                raise JErr(OPAQUE, node)
            k = int(k) + 1
            if k < 0:
                raise Unsupported("negative next key")
            return k if k < n else None
        if t is Struct or t is Tab:
            if len(ds.d) == 0:
                return None
            if len(ds.d) == 1:
                if k is None:
                    return list(ds.d.values())[0][0]
                if hk(k) in ds.d:
                    return None
            raise Unsupported("iteration order of a dictionary with more than one key")
        raise JErr(OPAQUE, node)

    # ---- arithmetic / comparison (inlined variadic operators)
    def arith(self, op, a, node):
        n = len(a)
        if n == 0:
            return 1 if op == "*" else 0
        if n == 1:
            a = [1 if op == "*" else 0, a[0]]
        acc = a[0]
        if not isnum(acc):
            raise JErr(OPAQUE, node)
        for x in a[1:]:
            if not isnum(x):
                raise JErr(OPAQUE, node)
            if op == "+":
                acc = acc + x
            elif op == "-":
                acc = acc - x
            else:
                acc = acc * x
            if abs(acc) > 2 ** 52:
                raise Unsupported("number too large")
        return acc

    def compare(self, op, a):
        if op == "not=":
            # "check if any values in xs are not equal"
            for i in range(len(a) - 1):
                if not jeq(a[i], a[i + 1]):
                    return True
            return False
        for i in range(len(a) - 1):
            x, y = a[i], a[i + 1]
            if op == "=":
                r = jeq(x, y)
            elif op == "not=":
                r = not jeq(x, y)
            else:
                c = jcompare(x, y)
                r = (c < 0) if op == "<" else (c > 0) if op == ">" else (c <= 0) if op == "<=" else (c >= 0)
            if not r:
                return False
        return True

    # ---- evaluation
    def tick(self):
        self.steps += 1
        if self.steps > self.MAXSTEPS:
            raise Unsupported("step budget")

    def ev(self, x, sc):
        t = type(x)
        if t is Sym:
            c = self.lookup(sc, x)
            if c is not None:
                return c[0]
            g = self.globals.get(x)
            if g is None:
                raise Unsupported("unknown symbol %s" % x.n)
            return g
        if t is Tup:
            self.tick()
            if x.b:
                # a bracketed literal is a tuple *constructor*: the result is an ordinary tuple
                return Tup(self.evlist(x.v, sc, x), False)
            if not x.v:
                return x
            h = x.v[0]
            if type(h) is Sym:
                f = FORMS.get(h)
                if f is not None:
                    return f(self, x, sc)
            fn = self.ev(h, sc)
            args = self.evlist(x.v[1:], sc, x)
            return self.apply(fn, args, x)
        if t is Arr:
            return Arr(self.evlist(x.v, sc, x))
        if t is Struct:
            return Struct([(self.ev(k, sc), self.ev(v, sc)) for k, v in x.d.values()])
        if t is Tab:
            return Tab([(self.ev(k, sc), self.ev(v, sc)) for k, v in x.d.values()])
        return x

    def evlist(self, items, sc, node):
        out = []
        for it in items:
            if type(it) is Tup and not it.b and len(it.v) == 2 and it.v[0] is SPLICE:
                v = self.ev(it.v[1], sc)
                if type(v) not in (Tup, Arr):
                    raise JErr(OPAQUE, node)
                out.extend(v.v)
            else:
                out.append(self.ev(it, sc))
        return out

    def body(self, forms, sc):
        r = None
        for f in forms:
            r = self.ev(f, sc)
        return r

    def apply(self, f, args, node):
        t = type(f)
        self.tick()
        if t is Closure:
            return self.call_closure(f, args, node)
        if t is Builtin:
            return f.fn(self, args, node)
        if t is Kw:
            raise Unsupported("keyword call is a method invocation")
        if t in (Tup, Arr, Struct, Tab):
            if len(args) != 1:
                raise JErr(OPAQUE, node)
            return self.jin(f, args[0], node)
        if f is None or t is bool:
            raise JErr(OPAQUE, node)
        raise Unsupported("call of %r" % (f,))

    # ---- functions
    def make_closure(self, x, sc):
        v = x.v
        i = 1
        name = None
        selfref = False
        if len(v) > 1 and type(v[1]) is Sym:
            name, selfref, i = v[1].n, True, 2
        elif len(v) > 1 and type(v[1]) is Kw:
            name, i = v[1].n, 2
        if len(v) <= i or type(v[i]) is not Tup:
            raise Unsupported("fn without parameters")
        params = v[i].v
        spec = dict(pos=[], opt=[], rest=None, keys=None, named=None, extra=False)
        mode = "pos"
        j = 0
        while j < len(params):
            p = params[j]
            if mode == "named":
                spec["named"].append(p)
            elif p is AMP:
                if j == len(params) - 1:
                    spec["extra"] = True
                else:
                    spec["rest"] = params[j + 1]
                    j += 1
            elif p is AMP_OPT:
                mode = "opt"
            elif p is AMP_KEYS:
                spec["keys"] = params[j + 1]
                j += 1
            elif p is AMP_NAMED:
                mode = "named"
                spec["named"] = []
            elif mode == "opt":
                spec["opt"].append(p)
            else:
                spec["pos"].append(p)
            j += 1
        c = Closure()
        c.name = name
        c.params = params
        c.body = v[i + 1:]
        c.head = sc.head
        c.node = x
        c.spec = spec
        c.spec["selfref"] = Sym(name) if selfref else None
        return c

    def call_closure(self, f, args, node):
        sp = f.spec
        npos, nopt = len(sp["pos"]), len(sp["opt"])
        variadic = sp["rest"] is not None or sp["keys"] is not None or sp["named"] is not None or sp["extra"]
        if len(args) < npos or (not variadic and len(args) > npos + nopt):
            raise JErr(OPAQUE, node)
        sc = self.newfn(f.head)
        fixed = sp["pos"] + sp["opt"]
        vals = [args[i] if i < len(args) else None for i in range(len(fixed))]
        extra = args[len(fixed):]
        # plain symbols are bound first (they are the argument slots), destructuring patterns afterwards
        for p, v in zip(fixed, vals):
            if type(p) is Sym:
                self.define(sc, p, v)
        restv = None
        if sp["rest"] is not None:
            restv = Tup(extra, False)
            if type(sp["rest"]) is Sym:
                self.define(sc, sp["rest"], restv)
        if sp["keys"] is not None or sp["named"] is not None:
            pairs = []
            if len(extra) % 2:
                self.keys_odd = True
            for i in range(0, len(extra) - 1, 2):
                pairs.append((extra[i], extra[i + 1]))
            restv = self._mkstruct(pairs)
            if sp["keys"] is not None and type(sp["keys"]) is Sym:
                self.define(sc, sp["keys"], restv)
        for p, v in zip(fixed, vals):
            if type(p) is not Sym:
                self.bind(p, v, sc, f.node)
        if sp["rest"] is not None and type(sp["rest"]) is not Sym:
            self.bind(sp["rest"], restv, sc, f.node)
        if sp["keys"] is not None and type(sp["keys"]) is not Sym:
            self.bind(sp["keys"], restv, sc, f.node)
        if sp["named"] is not None:
            for p in sp["named"]:
                self.define(sc, p, self.jin(restv, Kw(p.n), f.node))
        if sp["selfref"] is not None and self._not_param(f, sp["selfref"]):
            self.define(sc, sp["selfref"], f)
        try:
            return self.body(f.body, sc)
        except BreakExc as b:
            return b.value

    def _mkstruct(self, pairs):
        # struct construction from a flat argument list: later duplicates of a key replace earlier ones
        return Struct(pairs)

    def _not_param(self, f, sym):
        def names(p):
            t = type(p)
            if t is Sym:
                yield p
            elif t is Tup or t is Arr:
                for q in p.v:
                    for n in names(q):
                        yield n
            elif t is Struct or t is Tab:
                for k, v in p.d.values():
                    for n in names(v):
                        yield n
        for p in f.params:
            for n in names(p):
                if n is sym:
                    return False
        return True

    # ---- destructuring
    def bind(self, pat, val, sc, node, mutable=False):
        t = type(pat)
        if t is Sym:
            self.define(sc, pat, val, mutable)
            return
        if t is Tup or t is Arr:
            items = pat.v
            i = 0
            while i < len(items):
                p = items[i]
                if p is AMP:
                    if sc.fid and self.nslots[sc.fid] >= self.FAR_LIMIT:
                        self.far_rest = True
                    n = self._length(val, node)
                    rest = [self.get_strict(val, j, node) for j in range(i, n)]
                    self.define(sc, items[i + 1], Tup(rest, False), mutable)
                    break
                self.bind(p, self.getindex(val, i, node), sc, node, mutable)
                i += 1
            return
        if t is Struct or t is Tab:
            if len(pat.d) > 1:
                # the pattern is compiled in hash order; with keyword keys every key behaves alike on a
                # non-dictionary value (all raise or none), so the order cannot be observed
                if type(val) not in (Struct, Tab) and not all(type(k) is Kw for k, _ in pat.d.values()):
                    raise Unsupported("multi-key dictionary pattern on indexed value")
            for k, p in pat.d.values():
                kv = self.ev(k, sc)
                self.bind(p, self.jin(val, kv, node), sc, node, mutable)
            return
        raise Unsupported("pattern %r" % (pat,))

    def _length(self, v, node):
        t = type(v)
        if t is Tup or t is Arr:
            return len(v.v)
        if t is Struct or t is Tab:
            return len(v.d)
        if t is str:
            return len(v.encode("latin-1"))
        if t is Kw or t is Sym:
            return len(v.n)
        raise JErr(OPAQUE, node)

    def get_strict(self, ds, k, node):
        # JOP_GET
        return self.get(ds, k, node)

    # ---- program
    def run(self, forms):
        """returns (kind, payload, node): kind 'V' value, 'E' error"""
        sc = self.Scope(None, 0)
        res = None
        try:
            for f in forms:
                try:
                    r = self.ev(f, sc)
                except BreakExc as b:
                    r = b.value
                if r is not OBS_SENTINEL:
                    res = r
            return ("V", res, None)
        except JErr as e:
            return ("E", e.payload, e.node)


# --------------------------------------------------------------------------
# special forms and macros

FORMS = {}

CLOSURE_HEADS = set(Sym(n) for n in "fn defn defn- varfn try defer edefer with protect generate coro prompt label "
                    "short-fn fiber-fn if-with when-with with-dyns match".split())
_cc_memo = {}


def contains_closure(x):
    """does the form (lexically) contain a closure-creating form?  A `while` loop (and every loop macro
    built on it) that does is compiled as a tail-recursive function."""
    k = id(x)
    r = _cc_memo.get(k)
    if r is not None and r[0] is x:
        return r[1]
    t = type(x)
    if t is Raw:
        return any(w in x.text for w in ("(fn", "|(", "|[", "(defn", "(varfn", "(try", "(defer", "(edefer", "(with", "(protect",
                                           "(generate", "(coro", "(prompt", "(label", "(match", "(if-with", "(when-with",
                                           "(fiber", "(comp", "(partial", "(defmacro"))
    res = False
    if t is Tup:
        if not x.b and x.v and type(x.v[0]) is Sym:
            if x.v[0] in CLOSURE_HEADS:
                res = True
            elif x.v[0].n == "quote":
                res = False
                _cc_memo[k] = (x, res)
                return res
        if not res:
            for i in x.v:
                if contains_closure(i):
                    res = True
                    break
    elif t is Arr:
        res = any(contains_closure(i) for i in x.v)
    elif t is Struct or t is Tab:
        res = any(contains_closure(a) or contains_closure(b) for a, b in x.d.values())
    if t in (Tup, Arr, Struct, Tab):
        _cc_memo[k] = (x, res)
    return res


_HID = Sym("%hidden")


def _hidden(m, x, sc, n):
    """the loop macros keep their iteration state in n gensym'd locals declared outside the `while`;
    when the loop is compiled as a function they are captured"""
    far = False
    for _ in range(n):
        if m.define(sc, _HID, None):
            far = True
    if far and contains_closure(x):
        m.far_capture = True


def _iter_scope(m, x, sc):
    return m.newfn(sc.head) if contains_closure(x) else sc.child()


def form(*names):
    def deco(fn):
        for n in names:
            FORMS[Sym(n)] = fn
        return fn
    return deco


@form("do")
def f_do(m, x, sc):
    return m.body(x.v[1:], sc.child())


_BLOCKS = {}     # id(upscope node) -> (node, chain builder data)
_BLOCK = Sym("%block")


def register_block(node):
    """node = (upscope (def s0 lit0) (def s1 lit1) ...): evaluated in one step (same meaning)"""
    d = {}
    last = None
    for f in node.v[1:]:
        assert type(f) is Tup and len(f.v) == 3 and f.v[0].n == "def" and type(f.v[1]) is Sym
        assert f.v[2] is None or type(f.v[2]) in (int, bool, str, Kw)
        d[f.v[1]] = [f.v[2], -1, False, False]
        last = f.v[2]
    _BLOCKS[id(node)] = (node, d, len(d), last)


@form("upscope")
def f_upscope(m, x, sc):
    b = _BLOCKS.get(id(x))
    if b is not None and b[0] is x:
        sc.head = (_BLOCK, b[1], sc.head)
        if sc.fid:
            m.nslots[sc.fid] += b[2]
        m.steps += b[2]
        return b[3]
    return m.body(x.v[1:], sc)


@form("if")
def f_if(m, x, sc):
    v = x.v
    if len(v) not in (3, 4):
        raise Unsupported("if arity")
    cs = sc.child()
    if truthy(m.ev(v[1], cs)):
        return m.ev(v[2], cs.child())
    if len(v) == 4:
        return m.ev(v[3], cs.child())
    return None


@form("def", "var")
def f_def(m, x, sc):
    v = x.v
    if len(v) != 3:
        raise Unsupported("def with metadata")
    val = m.ev(v[2], sc)
    m.bind(v[1], val, sc, x, v[0].n == "var")
    return val


@form("set")
def f_set(m, x, sc):
    v = x.v
    if len(v) != 3:
        raise Unsupported("set arity")
    tgt = v[1]
    if type(tgt) is Sym:
        c = m.lookup(sc, tgt)
        if c is None or not c[3]:
            raise Unsupported("set of unknown or constant binding")
        val = m.ev(v[2], sc)
        c[0] = val
        return val
    if type(tgt) is Tup and len(tgt.v) == 2:
        ds = m.ev(tgt.v[0], sc)
        k = m.ev(tgt.v[1], sc)
        val = m.ev(v[2], sc)
        m.put(ds, k, val, x)
        return val
    raise Unsupported("set target")


@form("while")
def f_while(m, x, sc):
    v = x.v
    try:
        while True:
            m.tick()
            it = _iter_scope(m, x, sc)
            if not truthy(m.ev(v[1], it)):
                break
            m.body(v[2:], it)
    except BreakExc:
        pass
    return None


@form("break")
def f_break(m, x, sc):
    v = x.v
    raise BreakExc(m.ev(v[1], sc) if len(v) > 1 else None)


@form("fn")
def f_fn(m, x, sc):
    return m.make_closure(x, sc)


@form("quote")
def f_quote(m, x, sc):
    return x.v[1]


@form("quasiquote")
def f_quasi(m, x, sc):
    r = _qq(m, x.v[1], sc, 0)
    if type(r) is Spliced:
        raise Unsupported("splice at top of quasiquote")
    return r


def _qq(m, x, sc, level):
    t = type(x)
    if t is Tup:
        v = x.v
        if len(v) > 1 and type(v[0]) is Sym:
            if v[0] is UNQUOTE:
                if level == 0:
                    a = v[1]
                    if type(a) is Tup and not a.b and len(a.v) == 2 and a.v[0] is SPLICE:
                        s = m.ev(a.v[1], sc)
                        if type(s) not in (Tup, Arr):
                            raise JErr(OPAQUE, a)
                        return Spliced(s.v)
                    return m.ev(a, sc)
                level -= 1
            elif v[0] is QUASI:
                level += 1
        out = []
        for it in v:
            r = _qq(m, it, sc, level)
            if type(r) is Spliced:
                out.extend(r.v)
            else:
                out.append(r)
        return Tup(out, x.b)
    if t is Arr:
        out = []
        for it in x.v:
            r = _qq(m, it, sc, level)
            if type(r) is Spliced:
                out.extend(r.v)
            else:
                out.append(r)
        return Arr(out)
    if t is Struct or t is Tab:
        pairs = []
        for k, val in x.d.values():
            a, b = _qq(m, k, sc, level), _qq(m, val, sc, level)
            if type(a) is Spliced or type(b) is Spliced:
                raise Unsupported("splice in dictionary")
            pairs.append((a, b))
        return Struct(pairs) if t is Struct else Tab(pairs)
    return x


@form("error")
def f_error(m, x, sc):
    """direct call of `error`: compiled to the err instruction"""
    args = m.evlist(x.v[1:], sc, x)
    if len(args) != 1:
        raise Unsupported("error arity")
    if sc.fid and m.nslots[sc.fid] >= m.FAR_LIMIT:
        m.far_error = True
    raise JErr(args[0], x)


@form("splice", "unquote")
def f_bad(m, x, sc):
    raise Unsupported("splice/unquote outside a constructor")


# ---- inlined operators (all operands are evaluated first, left to right)
def _mk_arith(op):
    def f(m, x, sc):
        args = m.evlist(x.v[1:], sc, x)
        return m.arith(op, args, x)
    return f


def _mk_cmp(op):
    def f(m, x, sc):
        args = m.evlist(x.v[1:], sc, x)
        return m.compare(op, args)
    return f


for _op in ("+", "-", "*"):
    FORMS[Sym(_op)] = _mk_arith(_op)
for _op in ("<", ">", "<=", ">=", "=", "not="):
    FORMS[Sym(_op)] = _mk_cmp(_op)


# ---- macros (by documented meaning)
@form("let")
def f_let(m, x, sc):
    v = x.v
    ns = sc.child()
    b = v[1].v
    for i in range(0, len(b), 2):
        val = m.ev(b[i + 1], ns)
        m.bind(b[i], val, ns, x)
    return m.body(v[2:], ns)


@form("when")
def f_when(m, x, sc):
    v = x.v
    cs = sc.child()
    if truthy(m.ev(v[1], cs)):
        return m.body(v[2:], cs.child())
    return None


@form("unless")
def f_unless(m, x, sc):
    v = x.v
    cs = sc.child()
    if not truthy(m.ev(v[1], cs)):
        return m.body(v[2:], cs.child())
    return None


@form("if-not")
def f_ifnot(m, x, sc):
    v = x.v
    cs = sc.child()
    if not truthy(m.ev(v[1], cs)):
        return m.ev(v[2], cs.child())
    if len(v) > 3:
        return m.ev(v[3], cs.child())
    return None


@form("cond")
def f_cond(m, x, sc):
    v = x.v[1:]
    cs = sc.child()
    i = 0
    while i < len(v):
        if i == len(v) - 1:
            return m.ev(v[i], cs.child())
        if truthy(m.ev(v[i], cs)):
            return m.ev(v[i + 1], cs.child())
        i += 2
    return None


@form("case")
def f_case(m, x, sc):
    v = x.v
    cs = sc.child()
    d = m.ev(v[1], cs)
    rest = v[2:]
    i = 0
    while i < len(rest):
        if i == len(rest) - 1:
            return m.ev(rest[i], cs.child())
        if jeq(d, m.ev(rest[i], cs)):
            return m.ev(rest[i + 1], cs.child())
        i += 2
    return None


@form("and")
def f_and(m, x, sc):
    r = True
    cs = sc.child()
    for it in x.v[1:]:
        r = m.ev(it, cs)
        if not truthy(r):
            return r
    return r


@form("or")
def f_or(m, x, sc):
    r = None
    cs = sc.child()
    for it in x.v[1:]:
        r = m.ev(it, cs)
        if truthy(r):
            return r
    return r


_NOT_MACROS = set(Sym(n) for n in "do upscope if def var set while break fn quote quasiquote splice unquote error "
                  "+ - * < > <= >= = not=".split())


@form("if-let", "when-let")
def f_iflet(m, x, sc):
    v = x.v
    when = v[0].n == "when-let"
    b = v[1].v
    ns = sc.child()
    for i in range(0, len(b), 2):
        val = m.ev(b[i + 1], ns)
        if not truthy(val):
            if when or len(v) < 4:
                return None
            try:
                return m.ev(v[3], ns.child())
            except JErr as e:
                # if-let expands its else branch ahead of time with `macex`; the expansion of a macro
                # form found there carries no source position of its own
                n = e.node
                if type(n) is Tup and n.v and type(n.v[0]) is Sym and n.v[0] in FORMS and n.v[0] not in _NOT_MACROS:
                    m.iflet_else = True
                raise
        m.bind(b[i], val, ns, x)
    if when:
        return m.body(v[2:], ns.child())
    return m.ev(v[2], ns.child())


def _each(m, x, sc, binding, ds, kind, bodyfn):
    """shared by each/eachk/eachp/loop verbs; bodyfn(scope) runs the body"""
    _hidden(m, x, sc, 2)
    k = m.jnext(ds, None, x)
    try:
        while k is not None:
            m.tick()
            it = _iter_scope(m, x, sc)
            if kind == "each":
                val = m.jin(ds, k, x)
            elif kind == "keys":
                val = k
            else:
                val = Tup((k, m.jin(ds, k, x)), False)
            m.bind(binding, val, it, x)
            bodyfn(it)
            k = m.jnext(ds, k, x)
    except BreakExc:
        pass


@form("each", "eachk", "eachp")
def f_each(m, x, sc):
    v = x.v
    kind = {"each": "each", "eachk": "keys", "eachp": "pairs"}[v[0].n]
    ns = sc.child()
    ds = m.ev(v[2], ns)
    _each(m, x, ns, v[1], ds, kind, lambda it: m.body(v[3:], it))
    return None


def _range(m, x, sc, binding, start, stop, step, cmp, delta, bodyfn, mutable=False):
    """(var i start) (def s stop) [(def st step)] (if (> st 0) (while (cmp i s) (def binding i) body (set i (delta i st))))"""
    if not (isnum(start)):
        pass
    if not isnum(step):
        raise Unsupported("non-numeric step")
    _hidden(m, x, sc, 3)
    if not (step > 0):
        return
    i = start
    cell = None
    try:
        while True:
            m.tick()
            if not m.compare(cmp, [i, stop]):
                break
            it = _iter_scope(m, x, sc)
            if mutable:
                if cell is None:
                    cell = [i, sc.fid, False, True]
                it.head = (binding, cell, it.head)
                cell[0] = i
            else:
                m.bind(binding, i, it, x)
            bodyfn(it)
            if mutable:
                i = cell[0]
            i = m.arith(delta, [i, step], x)
    except BreakExc:
        pass


@form("for", "forv")
def f_for(m, x, sc):
    v = x.v
    ns = sc.child()
    start = m.ev(v[2], ns)
    stop = m.ev(v[3], ns)
    _range(m, x, ns, v[1], start, stop, 1, "<", "+", lambda it: m.body(v[4:], it), mutable=(v[0].n == "forv"))
    return None


@form("repeat")
def f_repeat(m, x, sc):
    v = x.v
    ns = sc.child()
    n = m.ev(v[1], ns)
    _hidden(m, x, ns, 1)
    try:
        while True:
            m.tick()
            if not m.compare(">", [n, 0]):
                break
            m.body(v[2:], _iter_scope(m, x, ns))
            n = m.arith("-", [n, 1], x)
    except BreakExc:
        pass
    return None


@form("forever")
def f_forever(m, x, sc):
    try:
        while True:
            m.tick()
            m.body(x.v[1:], _iter_scope(m, x, sc))
    except BreakExc:
        pass
    return None


_RANGE_VERBS = {"range": ("<", "+", "range"), "range-to": ("<=", "+", "range"),
                "down": (">", "-", "down"), "down-to": (">=", "-", "down")}


def _loop1(m, x, sc, head, i, bodyfn):
    if i >= len(head):
        bodyfn(sc.child())
        return
    binding = head[i]
    if type(binding) is Kw:
        arg = head[i + 1]
        rest = lambda s: _loop1(m, x, s, head, i + 2, bodyfn)
        n = binding.n
        ns = sc.child()
        if n == "until":
            if truthy(m.ev(arg, ns.child())):
                raise BreakExc(None)
            rest(ns)
        elif n == "while":
            if not truthy(m.ev(arg, ns.child())):
                raise BreakExc(None)
            rest(ns)
        elif n == "let":
            b = arg.v
            for j in range(0, len(b), 2):
                val = m.ev(b[j + 1], ns)
                m.bind(b[j], val, ns, x)
            rest(ns)
        elif n == "after":
            rest(ns)
            m.ev(arg, ns)
        elif n == "before":
            m.ev(arg, ns)
            rest(ns)
        elif n == "repeat":
            cnt = m.ev(arg, ns)
            _hidden(m, x, ns, 1)
            try:
                while True:
                    m.tick()
                    if not m.compare(">", [cnt, 0]):
                        break
                    rest(_iter_scope(m, x, ns))
                    cnt = m.arith("-", [cnt, 1], x)
            except BreakExc:
                pass
        elif n == "when":
            if truthy(m.ev(arg, ns.child())):
                rest(ns)
        elif n == "unless":
            if not truthy(m.ev(arg, ns.child())):
                rest(ns)
        else:
            raise Unsupported("loop modifier " + n)
        return
    verb = head[i + 1].n
    obj = head[i + 2]
    rest = lambda s: _loop1(m, x, s, head, i + 3, bodyfn)
    ns = sc.child()
    if verb in _RANGE_VERBS:
        cmp, delta, kind = _RANGE_VERBS[verb]
        if type(obj) is not Tup or not (1 <= len(obj.v) <= 3):
            raise Unsupported("range object")
        o = obj.v
        if len(o) == 1:
            forms = [0, o[0], 1] if kind == "range" else [o[0], 0, 1]
        elif len(o) == 2:
            forms = [o[0], o[1], 1]
        else:
            forms = list(o)
        start = m.ev(forms[0], ns)
        stop = m.ev(forms[1], ns)
        step = m.ev(forms[2], ns)
        _range(m, x, ns, binding, start, stop, step, cmp, delta, rest)
    elif verb in ("in", "keys", "pairs"):
        ds = m.ev(obj, ns)
        _each(m, x, ns, binding, ds, {"in": "each", "keys": "keys", "pairs": "pairs"}[verb], rest)
    elif verb == "iterate":
        _hidden(m, x, ns, 1)
        try:
            while True:
                m.tick()
                it = _iter_scope(m, x, ns)
                val = m.ev(obj, it)
                if not truthy(val):
                    break
                m.bind(binding, val, it, x)
                rest(it)
        except BreakExc:
            pass
    else:
        raise Unsupported("loop verb " + verb)


@form("loop")
def f_loop(m, x, sc):
    v = x.v
    _loop1(m, x, sc.child(), v[1].v, 0, lambda s: m.body(v[2:], s))
    return None


@form("seq")
def f_seq(m, x, sc):
    v = x.v
    acc = Arr()
    sc = sc.child()
    _hidden(m, x, sc, 1)
    _loop1(m, x, sc.child(), v[1].v, 0, lambda s: acc.v.append(m.body(v[2:], s.child())))
    return acc


def _thunk(m, forms, sc):
    """body compiled as (fn [] ...) and run in its own fiber: `break` returns from it"""
    try:
        return m.body(forms, m.newfn(sc.head))
    except BreakExc as b:
        return b.value


@form("try")
def f_try(m, x, sc):
    v = x.v
    if len(v) != 3:
        raise Unsupported("try arity")
    catch = v[2].v
    binds = catch[0].v
    try:
        return _thunk(m, [v[1]], sc)
    except JErr as e:
        ns = sc.child()
        m.bind(binds[0], e.payload, ns, x)
        if len(binds) > 1:
            m.bind(binds[1], OPAQUE, ns, x)
        return m.body(catch[1:], ns)


@form("protect")
def f_protect(m, x, sc):
    try:
        r = _thunk(m, x.v[1:], sc)
        return Tup((True, r), False)
    except JErr as e:
        return Tup((False, e.payload), False)


@form("defer", "edefer")
def f_defer(m, x, sc):
    v = x.v
    ns = sc.child()
    try:
        r = _thunk(m, v[2:], ns)
    except JErr as e:
        m.ev(v[1], ns)
        # the error is re-raised by `propagate` from code generated by the macro
        raise JErr(e.payload, x)
    if v[0].n == "defer":
        m.ev(v[1], ns)
    return r


@form("with")
def f_with(m, x, sc):
    v = x.v
    spec = v[1].v
    if len(spec) != 3:
        raise Unsupported("with without destructor")
    ns = sc.child()
    val = m.ev(spec[1], ns)
    m.bind(spec[0], val, ns, x)
    ds = ns.child()
    dtor_call = Tup((spec[2], spec[0]), False)
    try:
        r = _thunk(m, v[2:], ds)
    except JErr as e:
        _with_dtor(m, x, dtor_call, ds)
        raise JErr(e.payload, x)
    _with_dtor(m, x, dtor_call, ds)
    return r


def _with_dtor(m, x, call, sc):
    # (dtor binding) is code generated by the macro: errors raised by the call itself are attributed to `with`
    f = m.ev(call.v[0], sc)
    a = m.ev(call.v[1], sc)
    m.apply(f, [a], x)


@form("default")
def f_default(m, x, sc):
    v = x.v
    c = m.lookup(sc, v[1])
    if c is None:
        raise Unsupported("default of unknown symbol")
    cur = c[0]
    val = m.ev(v[2], sc.child()) if cur is None else cur
    m.define(sc, v[1], val)
    return val


def _mk_update(op):
    def f(m, x, sc):
        v = x.v
        tgt = v[1]
        if type(tgt) is not Sym:
            raise Unsupported("update of non-symbol")
        c = m.lookup(sc, tgt)
        if c is None or not c[3]:
            raise Unsupported("update of unknown or constant binding")
        args = [c[0]] + (m.evlist(v[2:], sc, x) if len(v) > 2 else [1])
        val = m.arith(op, args, x)
        c[0] = val
        return val
    return f


FORMS[Sym("++")] = _mk_update("+")
FORMS[Sym("--")] = _mk_update("-")
FORMS[Sym("+=")] = _mk_update("+")
FORMS[Sym("-=")] = _mk_update("-")
FORMS[Sym("*=")] = _mk_update("*")


@form("defn")
def f_defn(m, x, sc):
    v = x.v
    fn = Tup((Sym("fn"),) + tuple(v[1:]), False)
    c = m.make_closure(fn, sc)
    c.node = x
    m.define(sc, v[1], c)
    return c


@form("comment")
def f_comment(m, x, sc):
    return None


# --------------------------------------------------------------------------
# whole-program prediction

def predict(forms, pos, line_offset=0):
    """forms: list of top-level ASTs; pos: id(node)->(line,col) from the renderer
    (line_offset is added to the line).
    Returns the string the driver must print, or raises Unsupported.  The token <?>
    stands for a string the model does not predict (VM error message)."""
    m = Machine()
    kind, payload, node = m.run(forms)
    if kind == "V":
        head = "V " + canon(payload)
    else:
        p = pos.get(id(node))
        if p is None:
            raise Unsupported("error attributed to a form without position")
        txt = canon(payload)
        head = "E %s @%d:%d" % (txt, p[0] + line_offset, p[1])
    hazards = ()
    if m.far_capture:
        hazards += ("far-upvalue",)
    # keys_odd (odd number of key/value arguments) was a hazard until /repo commit f286ca6 fixed it;
    # such calls are now ordinary cases
    # far_error ((error v) in a function with > 240 locals) was a hazard until /repo commits 76f7bf9 and
    # 716c04b fixed it; such cases are now ordinary cases
    if m.far_rest:
        hazards += ("far-rest-destructure",)
    if m.iflet_else:
        hazards += ("iflet-else-position",)
    return head + "|" + " ".join(m.obs) + "|" + " ".join(m.trace), m.steps, hazards
