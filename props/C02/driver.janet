# C02 driver: one batch item = one program given as a string of Janet source.
# The program is parsed with a fresh parser (so line/column are relative to the
# program text), each top-level form is compiled with `compile` in a fresh
# environment and run inside a fiber that traps errors.
# Output (one line):  <V canon-value | E payload @line:col | CE msg> "|" obs "|" trace
(use prelude)

(def- log @[])
(def- obsv @[])
(def- base (make-env root-env))
(put base 't @{:value (fn t [x] (array/push log (canon x)) x)})
(put base 'obs @{:value (fn obs [& xs] (each x xs (array/push obsv (canon x))) :%obs)})
(put base 'id @{:value (fn id [x] x)})

(defn- pos [fib]
  (var r "?:?")
  (def st (debug/stack fib))
  (var i 0)
  (def n (length st))
  (while (< i n)
    (def fr (in st i))
    (when (get fr :source-line)
      (set r (string (get fr :source-line) ":" (get fr :source-column)))
      (break))
    (++ i))
  r)

(defn- run-prog [text]
  (array/clear log)
  (array/clear obsv)
  (def env (make-env base))
  (def p (parser/new))
  (parser/consume p text)
  (parser/eof p)
  (var res nil)
  (var err nil)
  (while (and (nil? err) (parser/has-more p))
    (def form (parser/produce p))
    (def f (compile form env "p"))
    (if (function? f)
      (do
        (def fib (fiber/new f :e))
        (fiber/setenv fib env)
        (def v (resume fib))
        (if (= (fiber/status fib) :error)
          (set err (string "E " (canon v) " @" (pos fib)))
          (if (not= v :%obs) (set res v))))
      (set err (string "CE " (get f :error) " @" (get f :line) ":" (get f :column)))))
  (when (= :error (parser/status p))
    (set err (string "PE " (parser/error p))))
  (string (or err (string "V " (canon res))) "|" (string/join obsv " ") "|" (string/join log " ")))

(batch-run run-prog)
